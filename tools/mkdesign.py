#!/usr/bin/env python3
"""Rebuilds section 13 of DESIGN.md from tools/design13.md and seeded/*/meta.json."""
import os, subprocess
HERE = os.path.dirname(os.path.dirname(os.path.abspath(__file__)))
d = open(os.path.join(HERE, "DESIGN.md")).read()
body = open(os.path.join(HERE, "tools/design13.md")).read()
table = subprocess.run(["python3", os.path.join(HERE, "tools/seed_table.py")], capture_output=True, text=True).stdout
body = body.replace("@@SEEDTABLE@@", table)
B, E = "<!-- BEGIN 13 -->\n", "<!-- END 13 -->\n"
if B in d:
    d = d[:d.index(B)] + B + body + "\n" + d[d.index(E):]
else:
    k = d.index("## Appendix A")
    d = d[:k] + B + body + "\n" + E + "\n---------------------------------------------------------------------------------------\n\n" + d[k:]
open(os.path.join(HERE, "DESIGN.md"), "w").write(d)
print("DESIGN.md section 13 rebuilt:", len(body), "chars")
