#!/usr/bin/env python3
"""Writes /verif/MANIFEST.json from the table below (run after adding / changing a check)."""
import json
import os

HERE = os.path.dirname(os.path.dirname(os.path.abspath(__file__)))
props = [json.loads(l) for l in open(os.path.join(HERE, "properties.jsonl"))]

SEM_NOTE = ("Trusted: Coq kernel + vm_compute; sem/RzIL.v (RzIL + plugin macro contract), sem/CSem.v (C11 with QEMU conventions); "
            "parsers tools/vt/iltext.py, tree2ast.py; translators tools/vt/tr_*.py; model/Lower.v is hand-written and tied to "
            "RZILTransformer.py by the K2 correspondence run of every check (tree-for-tree comparison inside Coq).")

CLAIMED = {
    "C02": ("Partial. Theorems (props/C02.v): the statement is REFUTED for the faithful model by three vm_compute witnesses (D1 shift "
            "promotion, D2 logical results, D13 comparison promotion), the repaired model translates them correctly; the type rules used "
            "by every operator are proved equal to the C11 table for all widths (regenerated from ValueType.py). The general operator "
            "theorem (proofs/ExprCorrect.v) covers, for the repaired model, every side-effect-free expression over literals, locals, register operands (sources, read-write, "
            "pairs, destinations read back, .new) and immediates; C02_operators_correct_partial gives it for the faithful configuration under a decidable guard. Per run: K2 ties model and code on "
            "the exhaustive depth-1 operator x type x type matrix + random trees; the differential oracle (C semantics vs RzIL semantics of "
            "the real output, in Coq) decides every in-guard program. C02_operator_tables_are_the_compilers: model/OpTables.v (opcode per operator and operand type) is PROVED equal, for every operator "
            "of the compiler's enums, every type and operand term, to the elaboration of the text the il_exec methods of BitOp / CompareOp / ArithmeticOp / BooleanOp emit; gen/OpTablesGen.v is "
            "regenerated from those methods by symbolic execution on every run (tools/vt/tr_optables.py, fail-closed).", "model + theorems (incl. regenerated operator tables) + refutation witnesses; correspondence K2; differential oracle"),
    "C03": ("Partial. D3 (a signed value widened to an unsigned type was zero-extended) is REPAIRED in /repo (fix: fdfee60; Example C03_fixed_widening_fill); still refuted for the faithful model by D29 "
            "(declaration through the old type of a re-declared name), witness by vm_compute. Per run: K2 on all 8x8 type pairs x {cast, initialisation, assignment, store, register target, argument, "
            "boolean source} + cast chains + assignment-expression chains (a = b = x); differential oracle on real outputs inside the guard. General theorem C03_casts_correct_repaired (every cast inside any "
            "pure expression, repaired model); C03_cast_table_is_the_compilers: OpTables.cast_il_exec = elaboration of what Cast.il_exec emits (regenerated on every run).", "model + theorems + refutation witnesses; K2; differential oracle"),
    "C05": ("Partial. THEOREM C05_statements_correct_repaired (proofs/StmtCorrect.v): for EVERY behaviour of the statement fragment (assignments of pure "
            "expressions to destination registers and locals, += -= *=, declarations with initialiser, stores, JUMP, blocks, if/else, sequences of any length "
            "and depth) the whole transformer (tlower_info incl. final sequence and register finalisation, all repairs on) emits an effect whose run from any "
            "related state ends in the state ISO C prescribes; the fresh-name premise is exact (D29). REFUTED for the faithful model (D19/D21 division and "
            "remainder), positive instances for loops by vm_compute. Per run: K2 on 11 assignment operators x targets x types and generated statement sequences; "
            "differential oracle over states driving both arms and several trip counts.", "model + refutation witnesses; K2; differential oracle"),
    "C06": ("Partial. Clause 'temporaries are written before they are read': the syntactic must-analysis tdefS (sem/TmpCheck.v) is evaluated in Coq on every real output; "
            "theorems C06_temporaries_written_before_read (non-interference) / C06_stale_temporaries_are_irrelevant give its meaning for every effect, state and fuel. "
            "Known construct class D32 (side effect in an unselected ?: arm is executed). REFUTED (D4: a value-producing operation whose value is unused at top level is hoisted to the front), with the model's "
            "own bookkeeping (leftover count) as explanation; positive instances for postfix, statement-expression and ?: arm. Per run: K2 on "
            "hybrid placements; differential oracle inside the guard.", "model + refutation witnesses; K2; differential oracle"),
    "C07": ("Partial (architectural table and plugin contract are trusted, T4). Theorem C07_operand_binding: for EVERY ISA operand spelling of the finite grammar (4 classes x 17 "
            "access-letter forms, .new forms, N registers) and 18 aliases with and without _NEW, the compiler model binds the spelling to the architectural (slot letter, class, "
            ".new flag, signedness, width) of sem/CSem.v (vm_compute over the complete finite list); immediates signed exactly for r R s S. Per run: K2 + differential + sort oracle "
            "on every spelling as read, written and read-after-write, loads/stores of every width/sign, jumps, PC alias. C07_width_tables_are_the_compilers: reg_width / imm_signed agree with "
            "get_value_type_from_reg_type / get_value_type_by_isa_imm EXECUTED on every ASCII letter x access terminal on every run (gen/OpTablesGen.v).", "finite-domain theorems by vm_compute (tables re-executed from the code each run) + K2 + differential oracle"),
    "C08": ("Partial. REFUTED (D5: on a fresh compiler `clo32(a) + clo32(b)` clobbers the live h_tmp0 - and the same program is translated correctly with another counter value, so "
            "the result depends on history; D15: early `return` does not end the callee, witness sub-routine with custom tables). Per run: K2 + differential oracle (callee executed "
            "under its C source, IL by substitution of the real compiled body) over argument/return conversions of all 8 types, 1-4 calls per expression, nested calls; sub-routines "
            "registered through add_sub_routine inside histories. THEOREM C08_arguments_converted_to_parameter_types (argument-passing clause, repaired model): for every list of fragment argument values and "
            "every list of integer parameter types the call is accepted, introduces no temporary, and each argument term evaluates in every state to the C value converted to the parameter's type.",
            "model + theorem for argument passing + refutation witnesses; K2; differential oracle with real callee bodies"),
    "C09": ("Partial. REFUTED (D6 literal comparison / arithmetic folding / typing, D8 dead arm removes a live declaration); the literal typing "
            "of the repaired model is PROVED equal to C11 6.4.4.1 for all values and spellings. Per run: K2 + differential oracle + wf_body on "
            "literal spellings x suffixes x operators and dead-arm programs. ?: with a literal (folded) condition is inside the expression theorem; C09_literal_suffix_table_is_the_compilers "
            "(suffix -> type table re-executed from get_value_type_by_c_number each run).", "model + theorems + refutation witnesses; K2; differential + wf oracle"),
    "C10": ("Partial. wf_effect (every arm, every loop body, one sort per local) is PROVED sound (proofs/SortSound.v: a well-sorted pure "
            "always evaluates to a value of its sort; sort consistency of locals is preserved by execution; progress with definite "
            "assignment). The property is REFUTED for the faithful model (D2, D14). Per run: K2; wf_effect is evaluated in Coq on the "
            "denotation of every real output.", "proved-sound checker run on every output; model refutations; K2"),
    "C01": ("Partial. Per run EVERY accepted part of the sampled (quick: a feature cover of the corpus ~310 + 50 random + known call sites) or whole (thorough: 2181 definitions, 72 two-part) "
            "corpus and the 13 sub-routines is compared tree-for-tree with the model (K2, hybrid counter chained over parts) and run through the "
            "differential oracle (C semantics of the behaviour text vs RzIL semantics of the real output over boundary/random states), guard flags and "
            "classes are reported. Theorems: the statement is REFUTED by a shipped instruction (L2_loadrub_pbr, D5); six shipped instructions "
            "(A2_combine_*, C4_fastcorner9*) were mistranslated by D1 and are repaired by a fix: commit (Example); the value theorem for pure "
            "expressions of any depth (C01_expressions_partial). END-TO-END THEOREM C01_covered_behaviours_correct (FragCheck.covered_correct): `covered h prog` is a boolean "
            "(sound and complete checker of the statement fragment + strict equality of the real and the repaired configuration's translation) evaluated by vm_compute on every accepted "
            "part; where it is true the whole-transformer simulation theorem holds for the configuration the real compiler has (whole corpus, thorough tier: 1298 of the 1651 accepted behaviour parts, the counter chained over the parts of "
            "two-part definitions, covered_parts_correct). Instructions that use several compiler temporaries are additionally compiled at temporary-counter values "
            "9 / 8 / 99 (digit-length boundaries) and compared with the model; where they disagree the tdefS oracle (temporary read before written) runs on the real output. "
            "Floats and opaque plugin macros have no prescribed value (structural comparison only).",
            "model + theorems + refutation by a shipped instruction; K2 and differential oracle over the corpus"),
    "C11": ("Partial. wf_body (declared exactly once and before use, valid C identifiers, SEQN arity, final return) is a Coq function whose consequences for "
            "the run of a body are proved (sem/Own.v: nothing is used before its declaration, one allocation per owned variable); the harness evaluates it in Coq on "
            "EVERY real emitted body (generated programs + corpus sample, both layouts; thorough: whole corpus), checks needs_hi/needs_pkt against the variables the "
            "body mentions, one getter name per part and uniqueness of getter names. The emission algorithm is not modelled at text level: the verdict is per output "
            "(translation validation by a proved checker), known symptom classes D8, D18, D24.", "proved checker evaluated on every real output; symptom-class known findings"),
    "C12": ("Partial. `linear` (one raw use per pure variable, every other use under DUP; effects used exactly once; borrowed parameters at most once; nothing unused) is "
            "given an operational meaning and proved SOUND and COMPLETE for all bodies (sem/Own.v: no double free, no leak, run without fault, consume after alloc); the "
            "harness evaluates it in Coq on every real emitted body in both layouts. Per-output verdict; known symptom classes D23 (unused register read), D16 "
            "(statement of a statement-expression rendered twice).", "proved-sound-and-complete checker evaluated on every real output"),
    "C16": ("Partial. Both layouts are compiled for every generated program and corpus instruction; accepted/rejected status, attribute lists and canon(denote body) "
            "are compared in Coq. Theorems: the denotation ignores DUP; two effects with the same canonical form have the same terminating runs from EVERY state "
            "(proofs/SeqLaws.v, canon_preserves_runs) - so equality of trees settles execution equality without sampling. Not a theorem over the emission algorithm "
            "(per-output). Known finding D24 (literal division accepted in one layout only).", "tree equality in Coq per output + semantic canonical-form theorem"),
    "C13": ("Full for the modelled bookkeeping: attrs_spec (proofs/MetaSpec.v) proves for EVERY behaviour that each reported flag holds exactly when the "
            "property's structural condition holds (WRITE_Pn exactly for the numbered predicates assigned, NONE iff none), over the token table, call sites, "
            "get_meta and reset sets REGENERATED from HexagonExtensions.py / RZILTransformer.py / Compiler.py; attrs_history proves independence of every "
            "compilation history (after the fix: commit for D9). K4 ties model/Meta.v to the code on random histories (two Compiler instances, failing inputs).",
            "Coq proof over regenerated tables + structural induction; correspondence K4 on histories"),
    "C14": ("THEOREM C14_counter_shift_is_a_renaming / C14_history_independent_model (proofs/HShift.v): for every configuration, every start value n of the hybrid counter "
            "(the only holder field that survives reset) and every program that does not spell an identifier h_tmp<digits>, the whole transformer model gives the same verdict "
            "and the same effect up to renaming h_tmp<k> -> h_tmp<k+n> (side condition necessary: D33, replayed). Obligations over the regenerated field/call tables: the only "
            "holder field that survives reset() is hybrid_op_count; reset_flags clears every field get_meta reads; every entry point resets on every exit path (after the fix for D10). "
            "K-hist ties model and code: random histories with failing inputs, two instances, both entry points, each step compared with a fresh process up to renaming of h_tmpN.",
            "Coq proof over the whole transformer model + obligations over regenerated tables; history correspondence K-hist"),
    "C15": ("THEOREMS for ALL programs and every configuration with the reject switch on (= the tree after the fix commit): C15_unsupported_rejected_everywhere "
            "(a construct of the unsupported list at ANY depth - blocks, branches, loop parts, statement-expressions, ?: arms, call/macro/load/store arguments, casts, "
            "initialisers - is rejected) and C15_translated_or_rejected (an accepted program has nothing discarded, except a bare string-literal statement), "
            "proofs/NoDrop.v. Per run additionally: every ordered pair of supported statements at top level / in a branch / in a loop body under the differential oracle "
            "('translated completely'). History: REFUTED before the fix (D7: comma, goto, break, continue, labels are accepted and dropped), rejected constructs shown rejected on the "
            "model; per run: K2 on each unsupported construct at every statement position; oracle: accepted program must not contain a construct "
            "of the property's list (known: the five dropped ones).", "model + refutation witnesses; K2; construct oracle"),
    "C17": ("Partial: Lark's Earley engine and its ambiguity resolution are third-party runtime and are not modelled. Obligations (props/C17.v) over tables REGENERATED "
            "from grammar.lark: the expression tower has exactly the C11 levels in C order, each binary level is left-recursive over the next tighter one with the C operator "
            "spellings, ?: and assignment are right-recursive, if-else precedes if, keyword-like terminals outrank IDENTIFIER, operand terminals. K7 ties the engine: every ordered "
            "pair of binary operators at equal/adjacent levels in both groupings, unary vs binary, random trees (nesting <= 6) printed with minimal parentheses, statement "
            "shapes, operand classification table, each under 2-4 PYTHONHASHSEED values; the Lark tree must map to exactly the generating AST. Known findings D11 (dangling "
            "else binds to the outer if), D25 ([0-31] character class), D26 (no maximal munch for ++), D27 (cast vs parenthesised identifier).",
            "Coq obligations over regenerated grammar tables; K7 structural correspondence against Lark (test part)"),
    "C18": ("Proof for the scheduler model (model/Pool.v: workers take tasks in any order, finish in any order, results are consumed in task order as imap does): for EVERY "
            "worker count and EVERY schedule the final table equals sequential map, no deadlock, one entry per task, replacing one task changes only its own entry "
            "(proofs/PoolProofs.v). Premises (the loop shape `for res in pool.imap(parse_single, args): result.update(res)`; parse_single converts every exception into a "
            "result) are shape-checked against Parser.py on every run; K6 runs the real pool (1,2,4,16 workers, duplicates, broken behaviours) against sequential parsing. "
            "multiprocessing itself (process death, pickling) is runtime and not modelled.", "Coq proof over all schedules of a hand-written pool model; source shape check; K6"),
    "C19": ("Proof over all strings for the splitting regexes (regenerated from the source with CPython's own regex parser into lib/Regex.v terms; theorems "
            "split_line_roundtrip / split_compounds_spec / load_line_spec in proofs/PreProofs.v when present), examples and REFUTATIONS by vm_compute (D12a garbage before "
            "`insn(` is accepted; D12b text before the first part marker is dropped). K5 ties model/Pre.v to the code on all 2181 bundled lines (quick: 500), all 72 "
            "compounds and generated lines; the property oracle (whole line must be insn(NAME, BODY); parts must be exactly the marked regions) runs on the real results.",
            "Coq proofs over regenerated regexes + K5 correspondence + reference oracle"),
    "C20": ("Partial: pcpp is not modelled. THEOREMS for all macro files and patch files (proofs/PatchProofs.v): C20_patch_macros_spec (patch_macros as one equation: "
            "fails exactly on a non-#define line; else unmatched patches reversed, then one pass replacing the first definition of each patched name, dropping its later "
            "definitions, keeping the rest in order), C20_each_patch_once (used + left-over patches are a permutation of the patch file, each used at most once), "
            "C20_do_while_total / _removes_exactly_the_wrapper / _call_site_shape (on a newline-terminated line the result is one terminated line without wrapper). "
            "The repository's own steps cleanup_macros / patch_macros / replace_do_while_0 are modelled over the regenerated regexes and tied by K5 "
            "(bundled macro files, generated macro/patch sets in a scratch copy, generated do-while bodies); property oracles on the real results (each patch exactly once, "
            "unpatched macros preserved in order, user-only patches prepended; reference do-while stripper); full regeneration in a scratch copy reproduces the bundled files; "
            "clang -E as an independent preprocessor agrees on all 2181 definitions; names one-to-one; no defined macro invocation survives; two generations in one process vs a fresh process (history). REFUTED: look-alike identifiers "
            "(D12c) and neighbouring loops (D12d) are mangled by the greedy regex.", "Coq model + examples/refutations; K5; scratch-copy regeneration and independent preprocessor (test)"),
}

FULL = {
    "C04": ("Full: c11_cast and promoted_type are re-translated from ValueType.py into Gallina (heap-passing, so identity and mutation are "
            "modelled) on every run; Coq theorems prove result = C11 usual arithmetic conversion / promotion for ALL widths in N and all heaps "
            "incl. aliased arguments, symmetry, and that no pre-existing object is modified.",
            "Trusted: Coq kernel; the ~200-line Python-AST translator (validated on every run by correspondence K1 on ~1000-17000 type pairs: "
            "values, identity, mutation); ValueType modelled as (signed, bit_width).",
            "Coq proof over a model regenerated from the source + differential validation of the translator"),
}


def entry(pid, text, note, tech):
    return {
        "property_id": pid, "quick_cmd": f"./check {pid} --tier quick", "thorough_cmd": f"./check {pid} --tier thorough",
        "evidence_file": f"evidence/{pid}.json", "replay_cmd_template": f"./check {pid} --replay {{path}}", "engine": "coq-model",
        "level_claimed": {"category": "proof", "text": text, "design_ref": f"DESIGN.md §7 {pid}"},
        "level_note": note, "technique": tech,
    }


checks = []
for p in props:
    pid = p["id"]
    if pid in FULL:
        checks.append(entry(pid, *FULL[pid]))
    elif pid in CLAIMED:
        checks.append(entry(pid, CLAIMED[pid][0], SEM_NOTE, "Coq: " + CLAIMED[pid][1]))
claimed = {c["property_id"] for c in checks}
m = {
    "version": 1,
    "setup_cmd": "./check --setup",
    "hooks": {"guard": "RZIL_VERIF",
              "enable": "no source hooks: the harness imports /repo (PYTHONPATH=/repo, cwd=/repo) and inspects / rebinds what it needs in its own process",
              "baseline_off_cmd": "cd /repo && /venv/bin/python -m pytest -ra -q -p no:cacheprovider --timeout=900 --continue-on-collection-errors",
              "source_commits": [], "add_only": True},
    "engines": [{"name": "coq-model", "path": "coq/", "serves_properties": sorted(claimed),
                 "kind_free_text": "Coq 8.16.1 development: regenerated modules (gen/), hand-written model (model/), semantics (sem/), theorems (props/); "
                                   "harness tools/vt/ evaluates model, oracles and correspondences inside Coq (vm_compute)"}],
    "checks": checks,
    "not_applicable": [{"property_id": p["id"], "reason": "no check registered"} for p in props if p["id"] not in claimed],
    "notes": "see DESIGN.md; known findings in known_findings.json",
}
json.dump(m, open(os.path.join(HERE, "MANIFEST.json"), "w"), indent=1)
print("claimed:", sorted(claimed))
