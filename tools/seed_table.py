#!/usr/bin/env python3
"""prints the markdown table of seeded changes (DESIGN.md 13.7) from seeded/*/meta.json"""
import json, os, glob
HERE = os.path.dirname(os.path.dirname(os.path.abspath(__file__)))
print("| seed | property | what the change does | needs to manifest | suite with change | caught by | how |")
print("|---|---|---|---|---|---|---|")
for d in sorted(glob.glob(os.path.join(HERE, "seeded", "*"))):
    m = json.load(open(os.path.join(d, "meta.json")))
    det = m.get("detection", [])
    caught = []
    for x in det:
        if x["detected"]:
            caught.append(f"{x['check']} {x['tier']}" + (" (failing input reported)" if x["concrete_input"] else " (broken obligation, no-failing-input-found)"))
        else:
            caught.append(f"~~{x['check']} {x['tier']}: missed~~")
    how = ""
    for x in det:
        if x["detected"] and x.get("reported"):
            how = (x["reported"].get("what") or "")[:160]
    c = m.get("confirmed", {})
    cell = lambda s: str(s).replace("|", "\\|").replace("\n", " ")
    print(f"| {os.path.basename(d)} | {m.get('property')} | {cell(m.get('summary',''))[:260]} | {cell(m.get('needs_to_manifest',''))[:200]} | {cell(c.get('suite_with_change','?'))[:40]} | {cell('; '.join(caught))} | {cell(how)} |")
