#!/bin/sh
# usage: tools/seed_collect.sh C02 [variant]   -- collect a sub-agent's seeded change and drop its worktree
id=$1; v=$2
wt=/tmp/seed_$id$v
dst=/verif/seeded/$id$v
mkdir -p $dst
cp $wt/OUT/patch.diff $wt/OUT/demo.py $wt/OUT/meta.json $dst/ 2>/dev/null
git -C /repo worktree remove --force $wt
ls $dst
