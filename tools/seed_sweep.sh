#!/bin/sh
# re-runs our quick check against every kept seeded change (applies to /repo, undoes); one line per seed
cd /verif
for d in seeded/*; do
  s=$(basename $d); p=$(echo $s | cut -c1-3)
  python3 tools/seed_eval.py $s $p --no-verify
done
