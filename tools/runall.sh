#!/bin/sh
# usage: tools/runall.sh <seed> [tier]   -- every check once, sequentially; one summary line per check
seed=$1; tier=${2:-quick}
cd /verif
for i in 01 02 03 04 05 06 07 08 09 10 11 12 13 14 15 16 17 18 19 20; do
  t0=$(date +%s)
  VERIF_SEED=$seed ./check C$i --tier $tier > /tmp/runall_${seed}_${tier}_C$i.log 2>&1; rc=$?
  t1=$(date +%s)
  echo "C$i seed=$seed tier=$tier rc=$rc $((t1-t0))s known=$(grep -c '^KNOWN-FINDING' /tmp/runall_${seed}_${tier}_C$i.log) $(grep '^VIOLATION' /tmp/runall_${seed}_${tier}_C$i.log | head -1)"
done
