import json,sys
props={json.loads(l)['id']:json.loads(l) for l in open('/verif/properties.jsonl')}
def earlier(pid):
    import glob,os
    out=[]
    for d in sorted(glob.glob(f'/verif/seeded/{pid}*')):
        try: out.append("- "+json.load(open(d+'/meta.json'))['summary'][:260].replace("\n"," ")+" ...")
        except Exception: pass
    return out
def prompt(pid, variant=""):
    p=props[pid]
    prev=earlier(pid) if variant else []
    avoid=("\nChanges of the following kinds were already produced by others for this property; yours must be of a DIFFERENT kind (another site in the code, another mechanism, another part of the property statement):\n"+"\n".join(prev)+"\n") if prev else ""
    wt=f"/tmp/seed_{pid}{variant}"
    return f"""You are helping to evaluate a verification tool for the Python project Rot127/rzil-compiler (a compiler from QEMU Hexagon C-like 'shortcode' instruction semantics to Rizin RzIL C code). The repository is at /repo (git). DO NOT modify anything in /repo itself and never commit there. Do not read anything under /verif.

Your task: produce ONE realistic, subtle code change (a plausible bug a developer could introduce, e.g. during a refactoring or optimisation) to the compiler's source that BREAKS the following semantic property, while the project still imports/compiles and its existing test suite still passes.

PROPERTY {pid}: {p['title']}
{p['statement']}
(Quantified over: {p['quantifier']['text']})
Files the property is anchored in: {', '.join(p['anchors']['files'])}

{avoid}
Work in your own scratch git worktree:
  git -C /repo worktree add --detach {wt} HEAD
and edit only files under {wt}. Python resolves the package from /repo by default, so ALWAYS run things with the worktree first on the path and from inside the worktree (the code locates its Resources/ directory via `git rev-parse --show-toplevel` of the current directory):
  cd {wt} && PYTHONPATH={wt} /venv/bin/python -m pytest -q -p no:cacheprovider --timeout=900 rzilcompiler/Tests
The suite takes about a minute; on the unchanged tree all 131 tests pass. With your change all 131 must still pass. There is no network.

Requirements for the change:
- It must need something specific to manifest: an unusual input, a particular combination of operand types/values, a multi-step sequence of compilations, a particular history/ordering, two cooperating sites that each look fine alone, etc. Do NOT make a change that ordinary use or the existing tests would expose at once.
- It must be a genuine violation of the property text above (not merely a cosmetic change of the emitted text), small (a few lines), and look like something that could pass code review.
- Useful API for demonstrations: `from rzilcompiler.Compiler import Compiler; from rzilcompiler.ArchEnum import ArchEnum; c = Compiler(ArchEnum.HEXAGON); c.compile_c_stmt("{{ RdV = RsV + 1; }}")` returns the emitted C text that builds the RzIL effect (look at rzilcompiler/Tests/TestTransformer.py for many examples of inputs and expected outputs); `c.preprocessor`, `rzilcompiler.Parser.Parser`, `rzilcompiler.Transformer.ValueType` etc. for the other components.

Deliverables, all written into the directory {wt}/OUT/ (create it):
1. patch.diff  — output of `git -C {wt} diff` (source change only, not OUT/).
2. demo.py     — a small standalone Python program (run as: cd <tree> && PYTHONPATH=<tree> /venv/bin/python OUT/demo.py, or with the tree path as argv[1]) that exits 0 on the unchanged tree and exits non-zero (printing what went wrong) on the tree with your change. It should demonstrate the property violation concretely (e.g. by checking the emitted RzIL text for the specific wrong opcode/order/flag on the specific input, or by comparing results of two histories).
3. meta.json   — {{"property": "{pid}", "summary": "...what the change does...", "needs_to_manifest": "...the specific input/sequence/condition...", "files_changed": [...], "suite_result": "...numbers you observed..."}}

Before finishing, verify yourself: (a) the full test suite result with the change (131 passed), (b) demo.py fails with the change, (c) on the unchanged tree demo.py passes: do NOT use `git stash` (the stash is shared between all worktrees of /repo and other agents work in parallel); instead `git -C {wt} diff > {wt}/OUT/patch.diff; git -C {wt} apply -R {wt}/OUT/patch.diff; <run demo.py>; git -C {wt} apply {wt}/OUT/patch.diff` (do not use /repo itself for this, other work may be going on there). Leave the worktree in place with the change applied (I will collect OUT/ and remove the worktree). Report briefly what you changed and the verification results."""
if __name__=="__main__":
    print(prompt(sys.argv[1], sys.argv[2] if len(sys.argv)>2 else ""))
