#!/usr/bin/env python3
"""usage: tools/seed_eval.py <seed dir name> <check id> [tier] [--no-verify]
Confirms a seeded change in a scratch worktree (tools/seed_verify.sh), runs one of our checks against it with the change
applied to /repo (tools/seed_test.sh, undone straight afterwards), and records both in seeded/<seed>/meta.json."""
import json, os, re, subprocess, sys, time
HERE = os.path.dirname(os.path.dirname(os.path.abspath(__file__)))
seed, check = sys.argv[1], sys.argv[2]
tier = sys.argv[3] if len(sys.argv) > 3 and not sys.argv[3].startswith("--") else "quick"
mp = os.path.join(HERE, "seeded", seed, "meta.json")
meta = json.load(open(mp))
if "--no-verify" not in sys.argv and "confirmed" not in meta:
    out = subprocess.run(["sh", os.path.join(HERE, "tools/seed_verify.sh"), seed], capture_output=True, text=True).stdout.strip()
    m = re.search(r"demo_clean_rc=(\d+) demo_mutant_rc=(\d+) suite='(.*)'", out)
    meta["confirmed"] = {"how": "tools/seed_verify.sh: scratch worktree of /repo HEAD under /tmp; demo.py on the clean tree, patch applied, demo.py again, full test suite; worktree removed",
                         "demo_clean_rc": int(m.group(1)) if m else None, "demo_mutant_rc": int(m.group(2)) if m else None, "suite_with_change": m.group(3) if m else out}
t0 = time.time()
out = subprocess.run(["sh", os.path.join(HERE, "tools/seed_test.sh"), seed, check, tier], capture_output=True, text=True).stdout.strip()
log = open(f"/tmp/st_{seed}.{check}.log").read()
vl = [l for l in log.splitlines() if l.startswith("VIOLATION")]
what = None
if vl:
    m = re.search(r"replay=(\S+)", vl[0])
    try:
        d = json.load(open(m.group(1)))
        what = {"what": d.get("what"), "input": json.dumps(d.get("input"))[:600] if d.get("input") else None}
    except Exception:
        pass
det = {"check": check, "tier": tier, "cmd": f"git -C /repo apply seeded/{seed}/patch.diff; ./check {check} --tier {tier}; git -C /repo checkout -- .",
       "detected": bool(vl), "violation_line": vl[0] if vl else None, "concrete_input": bool(vl) and not vl[0].endswith("no-failing-input-found"),
       "reported": what, "wall_s": round(time.time() - t0, 1)}
meta.setdefault("detection", [])
meta["detection"] = [d for d in meta["detection"] if not (d["check"] == check and d["tier"] == tier)] + [det]
json.dump(meta, open(mp, "w"), indent=1)
print(seed, check, tier, "detected" if vl else "MISSED", "(concrete input)" if det["concrete_input"] else "", meta.get("confirmed", {}).get("suite_with_change"))
