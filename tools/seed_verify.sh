#!/bin/sh
# usage: tools/seed_verify.sh <seed dir name under /verif/seeded>
# Confirms in a scratch worktree: patch applies, test suite as baseline, demo fails with / passes without the change.
s=$1; d=/verif/seeded/$s; wt=/tmp/sv_$s
git -C /repo worktree remove --force $wt 2>/dev/null
git -C /repo worktree add --detach $wt HEAD >/dev/null 2>&1 || exit 2
mkdir -p $wt/OUT; cp $d/demo.py $wt/OUT/
( cd $wt && PYTHONPATH=$wt timeout 600 /venv/bin/python OUT/demo.py >/tmp/sv_$s.clean.log 2>&1 ); clean=$?
( cd $wt && git apply $d/patch.diff ) || { echo "patch does not apply"; git -C /repo worktree remove --force $wt; exit 3; }
( cd $wt && PYTHONPATH=$wt timeout 600 /venv/bin/python OUT/demo.py >/tmp/sv_$s.mut.log 2>&1 ); mut=$?
( cd $wt && PYTHONPATH=$wt timeout 1200 /venv/bin/python -m pytest -q -p no:cacheprovider --timeout=900 rzilcompiler/Tests 2>&1 | tail -3 > /tmp/sv_$s.suite.log )
suite=$(tail -1 /tmp/sv_$s.suite.log)
git -C /repo worktree remove --force $wt
echo "seed=$s demo_clean_rc=$clean demo_mutant_rc=$mut suite='$suite'"
