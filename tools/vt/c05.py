"""C05 — statements take effect in source order under C's conditions."""
import random

from . import gen_prog, semprop


def programs(tier, rnd: random.Random):
    progs = list(gen_prog.asg_matrix())
    if tier == "quick":
        progs = progs[rnd.randrange(4)::4]
    g = gen_prog.Gen(rnd)
    n = 150 if tier == "quick" else 2500
    for _ in range(n):
        progs.append(g.program(nstmts=rnd.randint(2, 5), depth=rnd.randint(1, 3), hybrids=0.0))
    progs += [
        "{ if (RsV) { RdV = 1; } else { RdV = 2; } }", "{ if (RsV) { RdV = 1; } RdV = 3; }",
        "{ for (i = 0; i < uiV; i++) { RxV = RxV + i; } }", "{ for (i = 0; i < 0; i++) { RxV = 7; } RdV = RxV; }",
        "{ for (i = 0; i < 3; i++) { for (j = 0; j < i; j++) { RxV += j; } } }",
        "{ int32_t a = RsV; { a = a + 1; { a = a * 2; } } ; {} RdV = a; }",
        "{ RdV = RsV; mem_store_u32(EA, RtV); RdV = mem_load_u32(EA); }",
    ]
    # for loops whose STEP is an assignment (not i++): condition, body, step - in that order, every iteration
    for step in ("i += 1", "i = i + 1", "i += 2", "i = i + RtV", "i -= 1"):
        init, cond = ("i = 8", "i > 0") if step == "i -= 1" else ("i = 0", "i < 4")
        progs += [f"{{ RdV = RsV; for ({init}; {cond}; {step}) {{ RdV = RdV + i; }} }}",
                  f"{{ RdV = 0; for ({init}; {cond}; {step}) {{ if (i == 2) {{ RdV = RdV + 10; }} else {{ RdV = RdV + 1; }} }} }}",
                  f"{{ RdV = 0; for ({init}; {cond}; {step}) {{ for (j = 0; j < i; j = j + 1) {{ RdV = RdV + 1; }} }} }}"]
    # controlling expressions that are conversions: the condition is the CONVERTED value (a narrowing cast can make a non-zero value zero)
    for ty, sh in (("uint8_t", 8), ("int8_t", 8), ("uint16_t", 16), ("int16_t", 16), ("uint32_t", 32), ("int32_t", 32)):
        src = "RssV" if sh == 32 else "RsV"
        progs += [f"{{ if (({ty})({src} << {sh})) {{ RdV = 1; }} else {{ RdV = 2; }} }}", f"{{ if (({ty}){src}) {{ RdV = 1; }} else {{ RdV = 2; }} }}",
                  f"{{ RdV = 0; for (i = 0; ({ty})(i << {min(sh, 16)}); i++) {{ RdV = 7; }} }}",
                  f"{{ RdV = (({ty})({src} << {sh})) ? 1 : 2; }}", f"{{ RdV = !(({ty})({src} << {sh})); }}"]
    # nested selection statements: every combination of (outer else?, inner else / else-if chain?, inner if alone in the outer body or not),
    # three-level nests; "exactly one arm, chosen by whether the condition is non-zero" -- distinct values per arm, conditions on
    # different registers so that the boundary states drive every combination of outcomes
    inner = ["if (RtV) { RdV = 1; }", "if (RtV) { RdV = 1; } else { RdV = 2; }", "if (RtV) { RdV = 1; } else if (RuV) { RdV = 2; } else { RdV = 3; }",
             "if (RtV) { if (RuV) { RdV = 1; } else { RdV = 2; } }", "if (RtV) { if (RuV) { RdV = 1; } } else { RdV = 2; }"]
    for inn in inner:
        progs += ["{ RdV = 0; if (RsV) { %s } }" % inn, "{ RdV = 0; if (RsV) { %s } else { RdV = 9; } }" % inn, "{ RdV = 0; if (RsV) { ReV = 5; %s } }" % inn,
                  "{ RdV = 0; if (RsV) %s }" % inn, "{ RdV = 0; if (RsV) { RdV = 8; } else { %s } }" % inn]
    return progs


SPEC = semprop.Spec(
    prop="C05", programs=programs, oracles=("diff",),
    theorems=["C05_fixed_compound_narrow", "C05_refuted_signed_remainder", "C05_refuted", "C05_repaired_witnesses", "C05_if_for_examples", "C05_statements_correct_repaired", "C05_statements_correct_partial", "C05_statement_shapes_are_the_compilers"],
    note="11 assignment operators x target kinds x types; generated statement sequences with if/else, for (nested, zero-trip, "
         "data-dependent), blocks, stores, jumps",
)


def run(tier):
    return semprop.run(SPEC, tier)


def replay(path):
    return semprop.replay("C05", path)
