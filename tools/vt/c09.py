"""C09 — compile-time evaluation agrees with run-time evaluation."""
import random

from . import gen_prog, semprop

VALS = [0, 1, 127, 128, 255, 256, 32767, 32768, 65535, 65536, 2147483647, 2147483648, 4294967295, 4294967296,
        9223372036854775807, 9223372036854775808, 18446744073709551615]
SUF = ["", "U", "LL", "ULL", "u", "ull"]
OPS = ["+", "-", "*", "<", ">", "<=", ">=", "==", "!="]


def spell(rnd, v):
    return (hex(v) if rnd.random() < 0.5 else str(v)) + rnd.choice(SUF)


def programs(tier, rnd: random.Random):
    progs = []
    n = 160 if tier == "quick" else 3000
    for _ in range(n):
        a, b = spell(rnd, rnd.choice(VALS)), spell(rnd, rnd.choice(VALS))
        op = rnd.choice(OPS)
        k = rnd.random()
        if k < 0.35:
            progs.append(f"{{ RddV = {a} {op} {b}; }}")                                    # folded
        elif k < 0.55:
            progs.append(f"{{ RddV = {rnd.choice(['-', '~', '+'])}{a}; }}")
        elif k < 0.7:
            progs.append(f"{{ RddV = ({a} {op} {b}) ? RssV : RttV; }}")                     # constant condition
        elif k < 0.8:
            progs.append(f"{{ RddV = {a}; }}")                                             # literal typing
        elif k < 0.9:
            progs.append(f"{{ RddV = sizeof({rnd.choice(['RsV', 'RssV', 'PtV', a])}) {rnd.choice(['+', '<'])} {b}; }}")
        else:
            progs.append(f"{{ RdV = {a} {rnd.choice(['/', '%'])} {b}; }}")                   # must be rejected
    # chains of folds (an intermediate result feeds another compile-time evaluation)
    small = ["1", "2", "3", "20", "0x7fffffff", "1LL", "10ULL", "1U", "0", "4"]
    m = 80 if tier == "quick" else 1500
    for _ in range(m):
        a, b, c = (rnd.choice(small) for _ in range(3))
        o1, o2 = rnd.choice(["+", "-", "*"]), rnd.choice(["+", "-", "*", "<", ">", "==", "<=", ">=", "!="])
        k = rnd.random()
        if k < 0.4:
            progs.append(f"{{ RddV = {a} {o1} {b} {o2} {c}; }}")
        elif k < 0.7:
            progs.append(f"{{ RddV = ({a} {o1} {b} {o2} {c}) ? RssV : RttV; }}")
        else:
            progs.append(f"{{ int64_t x = {a} {o1} {b} {o2} {c}; RddV = x; }}")
    # negative intermediate results consumed by a 64-bit operation, a comparison or a constant condition
    fam = []
    for (a, o1, b) in (("1", "-", "2"), ("3", "-", "20"), ("2", "*", "3"), ("0", "-", "1"), ("3", "*", "4 - 20")):
        for c in ("1LL", "10ULL", "0", "1U", "0x100000000"):
            for o2 in ("+", "-", "<", ">", "==", "*"):
                fam += [f"{{ RddV = {a} {o1} {b} {o2} {c}; }}", f"{{ int64_t x = {a} {o1} {b} {o2} {c}; RddV = x; }}",
                        f"{{ RddV = ({a} {o1} {b} {o2} {c}) ? RssV : RttV; }}"]
    progs += fam if tier != "quick" else rnd.sample(fam, 120)
    # constant conditions / operands that are CONVERSIONS of literals: the converted value decides (a narrowing cast can make a
    # non-zero literal zero, a sign change can make a positive one negative)
    cfam = []
    for ty in ("uint8_t", "int8_t", "uint16_t", "int16_t", "uint32_t", "int32_t", "uint64_t", "int64_t"):
        for lit in ("0x100", "0x80", "65536", "0x8000", "0x100000000LL", "0x80000000U", "255", "0xffffffffffffffffULL", "0"):
            cfam += [f"{{ RddV = (({ty}) {lit}) ? RssV : RttV; }}", f"{{ RddV = (({ty}) {lit}) < 0 ? RssV : RttV; }}",
                     f"{{ RddV = ({ty}) {lit}; }}", f"{{ RddV = (({ty}) {lit}) + 1; }}", f"{{ RdV = !(({ty}) {lit}); }}"]
    progs += cfam if tier != "quick" else rnd.sample(cfam, 90)
    # dead arms mentioning things used elsewhere
    progs += ["{ RdV = RtV; RdV = (1 ? RsV : RtV); }", "{ RdV = (0 ? RsV : RtV); ReV = RsV; }", "{ RdV = (1 ? RsV : siV); ReV = siV; }",
              "{ int32_t a = RsV; RdV = (1 ? RtV : a); ReV = a; }", "{ RdV = (1 ? RsV : clz32(RtV)); }", "{ RdV = (0 ? ({ ReV = 1; RtV; }) : RsV); }",
              "{ int32_t a = RsV; RdV = (1 ? RtV : a++); ReV = a; }", "{ RdV = (2 > 1) ? RsV : RtV; }", "{ RdV = 4 / 2; }", "{ RdV = 5 % 0; }",
              "{ RdV = (4 / 2) ? RsV : RtV; }"]
    # constant division / remainder (rejected today; if ever folded, it must be folded in the C result type: a negative constant divided in an
    # unsigned common type divides the CONVERTED value), exact and inexact, every sign / suffix combination
    for a_, b_ in (("(-6)", "2U"), ("(-6)", "2"), ("6", "3"), ("(-0x10)", "0x4U"), ("(-6 + 0U)", "2"), ("7", "2"), ("(-8)", "2ULL"), ("(-8LL)", "2U"), ("0x80000000", "2"),
                   ("(-9)", "3U"), ("(1 - 7)", "2U"), ("6U", "(-3)")):
        for op_ in ("/", "%"):
            progs += [f"{{ RddV = {a_} {op_} {b_}; }}", f"{{ RdV = (({a_} {op_} {b_}) > 0) ? 1 : 2; }}"]
    return progs


SPEC = semprop.Spec(
    prop="C09", programs=programs, oracles=("diff", "wf"),
    theorems=["C09_literal_suffix_table_is_the_compilers", "C09_refuted_literal_compare", "C09_refuted_literal_type", "C09_refuted_dead_arm_removes_live_declaration", "C09_refuted",
              "C09_repaired_witnesses", "C09_literal_typing_repaired"],
    note="literal spellings around the type boundaries x suffixes x foldable operators; constant ?: conditions; dead arms that "
         "mention registers/immediates/locals/calls/statement-expressions used elsewhere; inexact/zero division",
)


def run(tier):
    return semprop.run(SPEC, tier)


def replay(path):
    return semprop.replay("C09", path)
