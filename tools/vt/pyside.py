"""Runs the REAL compiler (imported from the repository under test) on a batch of jobs.

Executed as a script with cwd = repository root (Conf locates Resources/ through git) and
PYTHONPATH = repository root.  Reads a JSON job list on stdin, writes JSON results to stdout.
Each worker process owns one Compiler per output layout.

job = {"id":.., "op": "stmt"|"sub"|"parse", "code":.., "fmt": "READ_STATEMENTS"|"EXEC_CLASSES", ...}
"""
import contextlib
import io
import json
import os
import sys
import traceback

sys.path.insert(0, os.path.dirname(os.path.dirname(os.path.abspath(__file__))))  # tools/ for vt.tree2ast

_comp = {}


def compiler(fmt):
    if fmt not in _comp:
        with contextlib.redirect_stdout(io.StringIO()):
            from rzilcompiler.ArchEnum import ArchEnum
            from rzilcompiler.Compiler import Compiler
            from rzilcompiler.Transformer.RZILTransformer import CodeFormat

            _comp[fmt] = Compiler(ArchEnum.HEXAGON, code_format=CodeFormat[fmt])
    return _comp[fmt]


def exc_info(e):
    from lark.exceptions import VisitError

    if isinstance(e, VisitError) and e.orig_exc is not None:
        return {"exc": type(e.orig_exc).__name__, "msg": str(e.orig_exc)[:300], "stage": "transform"}
    return {"exc": type(e).__name__, "msg": str(e)[:300], "stage": "transform"}


def run_job(job):
    from vt import tree2ast

    res = {"id": job["id"]}
    try:
        with contextlib.redirect_stdout(io.StringIO()):
            c = compiler(job.get("fmt", "READ_STATEMENTS"))
        op = job.get("op", "stmt")
        try:
            tree = c.parser.parse(job["code"])
        except Exception as e:
            res.update(ok=False, exc=type(e).__name__, msg=str(e)[:200], stage="parse")
            return res
        try:
            res["ast"] = tree2ast.program(tree)
        except tree2ast.Unmapped as e:
            res["unmapped"] = str(e)
        except Exception as e:  # a shape tree2ast does not know
            res["unmapped"] = f"{type(e).__name__}: {e}"
        if op == "parse":
            res["ok"] = True
            res["tree"] = str(tree)
            return res
        tr = c.transformer
        holder = tr.il_ops_holder
        res["hpre"] = holder.hybrid_op_count
        try:
            with contextlib.redirect_stdout(io.StringIO()):
                text = tr.transform(tree)
                meta = tr.ext.get_meta()
            res.update(ok=True, text=text, meta=meta, hpost=holder.hybrid_op_count)
        except Exception as e:
            res.update(ok=False, hpost=holder.hybrid_op_count, **exc_info(e))
        finally:
            tr.reset()
    except Exception as e:
        res.update(ok=False, exc="HARNESS:" + type(e).__name__, msg=traceback.format_exc()[-400:], stage="harness")
    return res


def signatures():
    """sub-routine and macro signatures as the compiler registered them"""
    c = compiler("READ_STATEMENTS")

    def vt(t):
        from rzilcompiler.Transformer.ValueType import VTGroup

        g = t.group
        return {"sg": bool(t._signed), "w": int(t._bit_width), "bool": bool(g & VTGroup.BOOL), "void": bool(g & VTGroup.VOID),
                "ext": bool(g & VTGroup.EXTERNAL), "float": bool(g & (VTGroup.FLOAT | VTGroup.DOUBLE)),
                "hyb": bool(g & VTGroup.HYBRID_LVAR), "const": bool(g & VTGroup.CONST)}

    import json as _json
    from rzilcompiler.Configuration import Conf, InputFile
    from vt import tree2ast
    with open(Conf.get_path(InputFile.HEXAGON_SUB_ROUTINES_JSON)) as f:
        rj = _json.load(f)["sub_routines"]
    subs = []
    for n, s in c.sub_routines.items():
        d = {"name": n, "ret": vt(s.value_type), "params": [vt(p.value_type) for p in s.ops],
             "pnames": [p.get_name() for p in s.ops], "body": s.body}
        if n in rj:
            d["code"] = rj[n]["code"]
            d["decl"] = {"return_type": rj[n]["return_type"], "params": rj[n]["params"]}
            try:
                d["ast"] = tree2ast.program(c.parser.parse(rj[n]["code"]))
            except Exception as e:
                d["ast_error"] = f"{type(e).__name__}: {e}"
        subs.append(d)
    macs = [{"name": n, "rz": m.rzil_macro, "ret": vt(m.return_type), "params": [vt(p) for p in m.param_types]}
            for n, m in c.transformer.macros.items()]
    return {"subs": subs, "macros": macs}


def main():
    req = json.load(sys.stdin)
    jobs = req["jobs"]
    nproc = int(req.get("nproc", 16))
    out = {}
    if req.get("signatures"):
        with contextlib.redirect_stdout(io.StringIO()):
            out["signatures"] = signatures()
    if jobs:
        if nproc <= 1 or len(jobs) < 4:
            results = [run_job(j) for j in jobs]
        else:
            import multiprocessing as mp

            ctx = mp.get_context("fork")
            with ctx.Pool(min(nproc, len(jobs))) as pool:
                results = pool.map(run_job, jobs, chunksize=max(1, len(jobs) // (nproc * 8)))
        out["results"] = results
    else:
        out["results"] = []
    sys.stdout.write("\n@@RESULT@@" + json.dumps(out))


if __name__ == "__main__":
    main()
