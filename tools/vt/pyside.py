"""Runs the REAL compiler (imported from the repository under test) on a batch of jobs.

Executed as a script with cwd = repository root (Conf locates Resources/ through git) and
PYTHONPATH = repository root.  Reads a JSON job list on stdin, writes JSON results to stdout.
Each worker process owns one Compiler per output layout.

job = {"id":.., "op": "stmt"|"sub"|"parse", "code":.., "fmt": "READ_STATEMENTS"|"EXEC_CLASSES", ...}
"""
import contextlib
import io
import json
import os
import sys
import traceback

sys.path.insert(0, os.path.dirname(os.path.dirname(os.path.abspath(__file__))))  # tools/ for vt.tree2ast

_comp = {}


def compiler(fmt):
    if fmt not in _comp:
        with contextlib.redirect_stdout(io.StringIO()):
            from rzilcompiler.ArchEnum import ArchEnum
            from rzilcompiler.Compiler import Compiler
            from rzilcompiler.Transformer.RZILTransformer import CodeFormat

            _comp[fmt] = Compiler(ArchEnum.HEXAGON, code_format=CodeFormat[fmt])
    return _comp[fmt]


def exc_info(e):
    from lark.exceptions import VisitError

    if isinstance(e, VisitError) and e.orig_exc is not None:
        return {"exc": type(e.orig_exc).__name__, "msg": str(e.orig_exc)[:300], "stage": "transform"}
    return {"exc": type(e).__name__, "msg": str(e)[:300], "stage": "transform"}


def run_job(job):
    from vt import tree2ast

    if job.get("op") == "insn":
        return run_insn(job)
    if job.get("op") == "names":
        return {"id": job["id"], "names": list(behaviors().keys())}
    if job.get("op") == "behaviors":
        return {"id": job["id"], "behaviors": {k: list(v) for k, v in behaviors().items()}}
    if job.get("op") == "parse_single":
        # the corpus path: Parser.parse_single builds its OWN Lark object for every instruction
        res = {"id": job["id"]}
        try:
            import rzilcompiler.Parser as PM
            from rzilcompiler.Configuration import Conf, InputFile
            global _grammar
            if "_grammar" not in globals():
                with open(Conf.get_path(InputFile.GRAMMAR, "Hexagon")) as f:
                    _grammar = "".join(f.readlines())
            code = job.get("code")
            parts = [code] if code is not None else behaviors()[job["name"]]
            with contextlib.redirect_stdout(io.StringIO()):
                p = PM.parse_single(PM.InsnParsingBundle(_grammar, job.get("name", "T_insn"), parts))[job.get("name", "T_insn")]
            if p.exception:
                res.update(ok=False, exc=p.exception.name, stage="parse", ntrees=len(p.asts))
            else:
                res.update(ok=True, tree="\n".join(str(t) for t in p.asts))
                with contextlib.redirect_stdout(io.StringIO()):
                    c = compiler("READ_STATEMENTS")
                try:
                    res["tree_reused_parser"] = "\n".join(str(c.parser.parse(b)) for b in parts)
                except Exception as e:
                    res["tree_reused_parser"] = "EXC " + type(e).__name__
        except Exception as e:
            res.update(ok=False, exc="HARNESS:" + type(e).__name__, msg=traceback.format_exc()[-400:], stage="harness")
        return res

    res = {"id": job["id"]}
    try:
        with contextlib.redirect_stdout(io.StringIO()):
            c = compiler(job.get("fmt", "READ_STATEMENTS"))
        op = job.get("op", "stmt")
        try:
            tree = c.parser.parse(job["code"])
        except Exception as e:
            res.update(ok=False, exc=type(e).__name__, msg=str(e)[:200], stage="parse")
            return res
        try:
            res["ast"] = tree2ast.program(tree)
        except tree2ast.Unmapped as e:
            res["unmapped"] = str(e)
        except Exception as e:  # a shape tree2ast does not know
            res["unmapped"] = f"{type(e).__name__}: {e}"
        if op == "parse":
            res["ok"] = True
            res["tree"] = str(tree)
            return res
        tr = c.transformer
        holder = tr.il_ops_holder
        if job.get("fresh_counter"):
            holder.hybrid_op_count = 0      # same h_tmpN numbering in every layout / worker (see run_insn)
        res["hpre"] = holder.hybrid_op_count
        try:
            with contextlib.redirect_stdout(io.StringIO()):
                text = tr.transform(tree)
                meta = tr.ext.get_meta()
            res.update(ok=True, text=text, meta=meta, hpost=holder.hybrid_op_count)
        except Exception as e:
            res.update(ok=False, hpost=holder.hybrid_op_count, **exc_info(e))
        finally:
            tr.reset()
    except Exception as e:
        res.update(ok=False, exc="HARNESS:" + type(e).__name__, msg=traceback.format_exc()[-400:], stage="harness")
    return res


_behaviors = {}


def behaviors():
    if not _behaviors:
        c = compiler("READ_STATEMENTS")
        with contextlib.redirect_stdout(io.StringIO()):
            c.preprocessor.behaviors.clear()
            c.preprocessor.load_insn_behavior()
        _behaviors.update(c.preprocessor.behaviors)
    return _behaviors


def run_insn(job):
    """compile one bundled instruction through the public path: parse_single + transform_insn"""
    from vt import tree2ast
    from rzilcompiler.Parser import InsnParsingBundle, parse_single
    res = {"id": job["id"], "name": job["name"]}
    try:
        with contextlib.redirect_stdout(io.StringIO()):
            c = compiler(job.get("fmt", "READ_STATEMENTS"))
            beh = behaviors().get(job["name"])
        if beh is None:
            res.update(ok=False, stage="load", exc="KeyError", msg="no such instruction")
            return res
        res["behaviors"] = beh
        if "grammar" not in _comp:
            from rzilcompiler.Configuration import Conf, InputFile
            with open(Conf.get_path(InputFile.GRAMMAR, "Hexagon")) as f:
                _comp["grammar"] = f.read()
        # parse with the compiler's own parser object (same grammar as parse_single; avoids re-building Lark per insn)
        asts = []
        try:
            for b in beh:
                asts.append(c.parser.parse(b))
        except Exception as e:
            res.update(ok=False, stage="parse", exc=type(e).__name__, msg=str(e)[:200])
            return res
        from rzilcompiler.Parser import ParsedInsn
        res["asts"] = []
        for t in asts:
            try:
                res["asts"].append(tree2ast.program(t))
            except Exception as e:
                res["asts"].append(None)
                res.setdefault("unmapped", []).append(f"{type(e).__name__}: {e}")
        holder = c.transformer.il_ops_holder
        if job.get("fresh_counter", True):
            # the numbering of h_tmpN continues over the life of a Compiler (hybrid_op_count is never reset), so the
            # emitted names depend on which instructions this worker compiled before; compile every instruction as a
            # fresh Compiler would (history dependence itself is the subject of C14 / C08)
            holder.hybrid_op_count = 0
        if job.get("hstart") is not None:
            # ... or as a Compiler would whose earlier compilations used up `hstart` temporaries (counter sweep)
            holder.hybrid_op_count = int(job["hstart"])
        res["hpre"] = holder.hybrid_op_count
        try:
            with contextlib.redirect_stdout(io.StringIO()):
                ri = c.transform_insn(job["name"], ParsedInsn(job["name"], asts, beh))
            res.update(ok=True, texts=list(ri.rzil), metas=[list(m) for m in ri.meta], needs_hi=[bool(x) for x in ri.needs_hi],
                       needs_pkt=[bool(x) for x in ri.needs_pkt], getter_names=list(ri.getter_rzil["name"]),
                       getter_decls=list(ri.getter_rzil["fcn_decl"]), insn=ri.name, hpost=holder.hybrid_op_count)
        except Exception as e:
            res.update(ok=False, hpost=holder.hybrid_op_count, **exc_info(e))
    except Exception as e:
        res.update(ok=False, exc="HARNESS:" + type(e).__name__, msg=traceback.format_exc()[-400:], stage="harness")
    return res


def signatures():
    """sub-routine and macro signatures as the compiler registered them"""
    c = compiler("READ_STATEMENTS")

    def vt(t):
        from rzilcompiler.Transformer.ValueType import VTGroup

        g = t.group
        return {"sg": bool(t._signed), "w": int(t._bit_width), "bool": bool(g & VTGroup.BOOL), "void": bool(g & VTGroup.VOID),
                "ext": bool(g & VTGroup.EXTERNAL), "float": bool(g & (VTGroup.FLOAT | VTGroup.DOUBLE)),
                "hyb": bool(g & VTGroup.HYBRID_LVAR), "const": bool(g & VTGroup.CONST)}

    import json as _json
    from rzilcompiler.Configuration import Conf, InputFile
    from vt import tree2ast
    with open(Conf.get_path(InputFile.HEXAGON_SUB_ROUTINES_JSON)) as f:
        rj = _json.load(f)["sub_routines"]
    subs = []
    for n, s in c.sub_routines.items():
        d = {"name": n, "ret": vt(s.value_type), "params": [vt(p.value_type) for p in s.ops],
             "pnames": [p.get_name() for p in s.ops], "body": s.body}
        if n in rj:
            d["code"] = rj[n]["code"]
            d["decl"] = {"return_type": rj[n]["return_type"], "params": rj[n]["params"]}
            try:
                d["ast"] = tree2ast.program(c.parser.parse(rj[n]["code"]))
            except Exception as e:
                d["ast_error"] = f"{type(e).__name__}: {e}"
        subs.append(d)
    macs = [{"name": n, "rz": m.rzil_macro, "ret": vt(m.return_type), "params": [vt(p) for p in m.param_types]}
            for n, m in c.transformer.macros.items()]
    return {"subs": subs, "macros": macs}


def run_history(job):
    """one history in THIS (fresh) process: up to two Compiler instances, steps through the public entry points"""
    from vt import tree2ast
    out = {"id": job["id"], "steps": []}
    try:
        with contextlib.redirect_stdout(io.StringIO()), contextlib.redirect_stderr(io.StringIO()):
            from rzilcompiler.ArchEnum import ArchEnum
            from rzilcompiler.Compiler import Compiler
            from rzilcompiler.Parser import ParsedInsn
            from rzilcompiler.Transformer.RZILTransformer import CodeFormat
            comps = {}
            for st in job["steps"]:
                ci = st.get("c", 0)
                if ci not in comps:
                    comps[ci] = Compiler(ArchEnum.HEXAGON, code_format=CodeFormat[st.get("fmt", "READ_STATEMENTS")])
                c = comps[ci]
                r = {"entry": st["entry"], "c": ci}
                try:
                    if st["entry"] == "stmt":
                        r.update(ok=True, text=c.compile_c_stmt(st["code"]))
                    elif st["entry"] == "insn":
                        try:
                            tree = c.parser.parse(st["code"])
                        except Exception as e:
                            r.update(ok=False, exc=type(e).__name__, stage="parse")
                            out["steps"].append(r)
                            continue
                        try:
                            r["ast"] = tree2ast.program(tree)
                        except Exception as e:
                            r["unmapped"] = str(e)
                        ri = c.transform_insn(st.get("name", "T_insn"), ParsedInsn(st.get("name", "T_insn"), [tree], [st["code"]]))
                        r.update(ok=True, text=ri.rzil[0], meta=list(ri.meta[0]))
                    elif st["entry"] == "sub":
                        c.add_sub_routine(st["name"], st["ret"], st["params"], st["code"])
                        r.update(ok=True, text=c.sub_routines[st["name"]].body)
                    else:
                        r.update(ok=False, exc="HARNESS:unknown entry")
                except Exception as e:
                    r.update(ok=False, **exc_info(e))
                out["steps"].append(r)
    except Exception as e:
        out["error"] = traceback.format_exc()[-600:]
    return out


def main():
    req = json.load(sys.stdin)
    jobs = req["jobs"]
    nproc = int(req.get("nproc", 16))
    out = {}
    if req.get("signatures"):
        with contextlib.redirect_stdout(io.StringIO()):
            out["signatures"] = signatures()
    if req.get("histories"):
        import multiprocessing as mp
        ctx = mp.get_context("fork")
        hs = req["histories"]
        with ctx.Pool(min(nproc, max(1, len(hs))), maxtasksperchild=1) as pool:
            out["histories"] = pool.map(run_history, hs, chunksize=1)
    if jobs:
        if nproc <= 1 or len(jobs) < 4:
            results = [run_job(j) for j in jobs]
        else:
            import multiprocessing as mp

            ctx = mp.get_context("fork")
            with ctx.Pool(min(nproc, len(jobs))) as pool:
                results = pool.map(run_job, jobs, chunksize=max(1, len(jobs) // (nproc * 8)))
        out["results"] = results
    else:
        out["results"] = []
    sys.stdout.write("\n@@RESULT@@" + json.dumps(out))


if __name__ == "__main__":
    main()
