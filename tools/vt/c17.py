"""C17 — the grammar parses with C structure, deterministically (G6 obligations + K7 against Lark)."""
from __future__ import annotations

import json
import random
import re
import time

from . import common, k2, tr_grammar
from .common import Broken, Result

LEVELS = [  # loosest to tightest binary levels: (tree2ast constructor names, spellings)
    [("BLOr", "||")], [("BLAnd", "&&")], [("BOr", "|")], [("BXor", "^")], [("BAnd", "&")], [("BEq", "=="), ("BNe", "!=")],
    [("BLt", "<"), ("BGt", ">"), ("BLe", "<="), ("BGe", ">=")], [("BShl", "<<"), ("BShr", ">>")], [("BAdd", "+"), ("BSub", "-")],
    [("BMul", "*"), ("BDiv", "/"), ("BMod", "%")],
]
PREC = {name: i for i, lvl in enumerate(LEVELS) for name, _ in lvl}
SPELL = {name: sp for lvl in LEVELS for name, sp in lvl}
LEAVES = [("RsV", '(EOp (OReg "R" "s"))'), ("RtV", '(EOp (OReg "R" "t"))'), ("a", '(EOp (OIdent "a"))'), ("5", '(EOp (ONum (5) false ""))'),
          ("siV", '(EOp (OImm "s"))'), ("0x1f", '(EOp (ONum (31) true ""))'), ("PuN", '(EOp (ONewReg "P" "u"))'), ("P0", '(EOp (OExplicit "P0" false))')]
UN = [("UNot", "~"), ("UMinus", "-"), ("ULNot", "!")]
T_COND, T_UN, T_LEAF = -1, 20, 30


class E:
    def __init__(self, kind, a=None, b=None, c=None, op=None):
        self.kind, self.a, self.b, self.c, self.op = kind, a, b, c, op

    def prec(self):
        return {"bin": PREC.get(self.op, 0), "cond": T_COND, "un": T_UN, "cast": T_UN, "post": T_LEAF, "leaf": T_LEAF}[self.kind]

    def term(self):
        k = self.kind
        if k == "leaf":
            return self.a[1]
        if k == "bin":
            return f"(EBin {self.op} {self.a.term()} {self.b.term()})"
        if k == "un":
            return f"(EUn {self.op} {self.a.term()})"
        if k == "cast":
            return f"(ECast [(TS_intN {self.op[0]} {self.op[1]})] {self.a.term()})"
        if k == "post":
            return f"(EPost true {self.a.term()})"
        if k == "cond":
            return f"(ECond {self.a.term()} {self.b.term()} {self.c.term()})"

    def text(self, rnd=None):
        """minimal parentheses according to C precedence and associativity"""
        def wrap(e, need):
            s = e.text(rnd)
            return f"({s})" if need else s
        k = self.kind
        if k == "leaf":
            return self.a[0]
        if k == "bin":
            p = self.prec()
            l = wrap(self.a, self.a.prec() < p)                      # left-assoc: equal precedence on the left needs none
            if l.endswith("++") and SPELL[self.op] in ("&", "*", "+", "-"):
                l = f"({l})"                                         # D26 is kept to its own witness (see STMTS)
            r = wrap(self.b, self.b.prec() <= p)
            sp = SPELL[self.op]
            return f"{l} {sp} {r}"
        if k == "un":
            s = wrap(self.a, self.a.prec() < T_UN)
            return f"{dict(UN)[self.op]}{s}" if not s.startswith(dict(UN)[self.op]) or self.op != "UMinus" else f"{dict(UN)[self.op]} {s}"
        if k == "cast":
            ty = ("int" if self.op[0] == "true" else "uint") + str(self.op[1]) + "_t"
            inner = wrap(self.a, self.a.prec() < T_UN)
            if inner[0] in "+-&*":
                inner = f"({inner})"                                 # D27 is kept to its own witnesses (see STMTS)
            return f"({ty}){inner}"
        if k == "post":
            return wrap(self.a, self.a.prec() < T_LEAF) + "++"
        if k == "cond":
            c = wrap(self.a, self.a.prec() <= T_COND)
            return f"{c} ? {self.b.text(rnd)} : {wrap(self.c, False)}"


def gen_expr(rnd, depth):
    if depth <= 0 or rnd.random() < 0.2:
        return E("leaf", rnd.choice(LEAVES))
    k = rnd.random()
    if k < 0.6:
        name = rnd.choice(rnd.choice(LEVELS))[0]
        return E("bin", gen_expr(rnd, depth - 1), gen_expr(rnd, depth - 1), op=name)
    if k < 0.75:
        return E("un", gen_expr(rnd, depth - 1), op=rnd.choice(UN)[0])
    if k < 0.85:
        return E("cast", gen_expr(rnd, depth - 1), op=(rnd.choice(["true", "false"]), rnd.choice([8, 16, 32, 64])))
    if k < 0.9:
        return E("post", E("leaf", LEAVES[2]))
    return E("cond", gen_expr(rnd, depth - 1), gen_expr(rnd, depth - 1), gen_expr(rnd, depth - 1))


def pair_cases():
    """every ordered pair of binary operators at the same or adjacent precedence levels, both groupings"""
    x, y, z = (E("leaf", LEAVES[i]) for i in (0, 1, 2))
    out = []
    for i, lvl in enumerate(LEVELS):
        for j in (i - 1, i, i + 1):
            if 0 <= j < len(LEVELS):
                for o1, _ in lvl:
                    for o2, _ in LEVELS[j]:
                        out.append(E("bin", E("bin", x, y, op=o1), z, op=o2))
                        out.append(E("bin", x, E("bin", y, z, op=o1), op=o2))
    for u, _ in UN:
        for o, _ in (l[0] for l in LEVELS):
            out.append(E("bin", E("un", x, op=u), y, op=o))
            out.append(E("un", E("bin", x, y, op=o), op=u))
    return out


STMTS = [  # (text, expected term of the statement list) ; dangling else must bind to the NEAREST if
    # prefix ++ / -- are ONE token (maximal munch), not two stacked unary + / -
    ("{ RdV = --RxV; }", '(SCons (SExpr (EAssign AAssign (EOp (OReg "R" "d")) (EUn UPreDec (EOp (OReg "R" "x"))))) SNil)'),
    ("{ RdV = ++RxV; }", '(SCons (SExpr (EAssign AAssign (EOp (OReg "R" "d")) (EUn UPreInc (EOp (OReg "R" "x"))))) SNil)'),
    ("{ RdV = RsV - --RxV; }", '(SCons (SExpr (EAssign AAssign (EOp (OReg "R" "d")) (EBin BSub (EOp (OReg "R" "s")) (EUn UPreDec (EOp (OReg "R" "x")))))) SNil)'),
    ("{ RdV = RsV * ++RxV; }", '(SCons (SExpr (EAssign AAssign (EOp (OReg "R" "d")) (EBin BMul (EOp (OReg "R" "s")) (EUn UPreInc (EOp (OReg "R" "x")))))) SNil)'),
    ("{ if (RsV) if (RtV) RdV = 1; else RdV = 2; }",
     '(SCons (SIf (EOp (OReg "R" "s")) (SIf (EOp (OReg "R" "t")) (SExpr (EAssign AAssign (EOp (OReg "R" "d")) (EOp (ONum (1) false "")))) '
     '(Some (SExpr (EAssign AAssign (EOp (OReg "R" "d")) (EOp (ONum (2) false "")))))) None) SNil)'),
    ("{ if (RsV) { if (RtV) RdV = 1; } else RdV = 2; }",
     '(SCons (SIf (EOp (OReg "R" "s")) (SIf (EOp (OReg "R" "t")) (SExpr (EAssign AAssign (EOp (OReg "R" "d")) (EOp (ONum (1) false "")))) None) '
     '(Some (SExpr (EAssign AAssign (EOp (OReg "R" "d")) (EOp (ONum (2) false "")))))) SNil)'),
    ("{ RdV = RsV = RtV; }", '(SCons (SExpr (EAssign AAssign (EOp (OReg "R" "d")) (EAssign AAssign (EOp (OReg "R" "s")) (EOp (OReg "R" "t"))))) SNil)'),
    ("{ RdV = RsV ? 1 : RtV ? 2 : 3; }",
     '(SCons (SExpr (EAssign AAssign (EOp (OReg "R" "d")) (ECond (EOp (OReg "R" "s")) (EOp (ONum (1) false "")) (ECond (EOp (OReg "R" "t")) (EOp (ONum (2) false "")) (EOp (ONum (3) false "")))))) SNil)'),
    ("{ RdV = (RsV) + 1; }", '(SCons (SExpr (EAssign AAssign (EOp (OReg "R" "d")) (EBin BAdd (EOp (OReg "R" "s")) (EOp (ONum (1) false ""))))) SNil)'),
    ("{ RdV = (int32_t) + 1; }", None),
    ("{ RdV = RsV & RtV && RuV; }",
     '(SCons (SExpr (EAssign AAssign (EOp (OReg "R" "d")) (EBin BLAnd (EBin BAnd (EOp (OReg "R" "s")) (EOp (OReg "R" "t"))) (EOp (OReg "R" "u"))))) SNil)'),
    ("{ RdV = RsV&RtV; }", '(SCons (SExpr (EAssign AAssign (EOp (OReg "R" "d")) (EBin BAnd (EOp (OReg "R" "s")) (EOp (OReg "R" "t"))))) SNil)'),
    ("{ RdV = ({ ReV = 1; RsV; }); }", '(SCons (SExpr (EAssign AAssign (EOp (OReg "R" "d")) (EStmtExpr (SCons (SExpr (EAssign AAssign (EOp (OReg "R" "e")) (EOp (ONum (1) false "")))) SNil) (SExpr (EOp (OReg "R" "s")))))) SNil)'),
    ("{ for (i = 0; i < 2; i++) { RdV = i; } }", None),
    ("{ RdV = siV - (int32_t)-5; }", '(SCons (SExpr (EAssign AAssign (EOp (OReg "R" "d")) (EBin BSub (EOp (OImm "s")) (ECast [(TS_intN true 32)] (EUn UMinus (EOp (ONum (5) false ""))))))) SNil)'),
    ("{ RdV = RtV + (int32_t)+RsV; }", '(SCons (SExpr (EAssign AAssign (EOp (OReg "R" "d")) (EBin BAdd (EOp (OReg "R" "t")) (ECast [(TS_intN true 32)] (EUn UPlus (EOp (OReg "R" "s"))))))) SNil)'),
    ("{ RdV = RtV + (int32_t)-RsV; }", '(SCons (SExpr (EAssign AAssign (EOp (OReg "R" "d")) (EBin BAdd (EOp (OReg "R" "t")) (ECast [(TS_intN true 32)] (EUn UMinus (EOp (OReg "R" "s"))))))) SNil)'),
    ("{ RdV = (int32_t) -RsV; }", '(SCons (SExpr (EAssign AAssign (EOp (OReg "R" "d")) (ECast [(TS_intN true 32)] (EUn UMinus (EOp (OReg "R" "s")))))) SNil)'),
    ("{ RdV = (int32_t)-5; }", '(SCons (SExpr (EAssign AAssign (EOp (OReg "R" "d")) (ECast [(TS_intN true 32)] (EUn UMinus (EOp (ONum (5) false "")))))) SNil)'),
    ("{ RdV = RtV * (int64_t)-RsV; }", '(SCons (SExpr (EAssign AAssign (EOp (OReg "R" "d")) (EBin BMul (EOp (OReg "R" "t")) (ECast [(TS_intN true 64)] (EUn UMinus (EOp (OReg "R" "s"))))))) SNil)'),
    ("{ RdV = RtV & (int64_t)-RsV; }", '(SCons (SExpr (EAssign AAssign (EOp (OReg "R" "d")) (EBin BAnd (EOp (OReg "R" "t")) (ECast [(TS_intN true 64)] (EUn UMinus (EOp (OReg "R" "s"))))))) SNil)'),
    ("{ RdV = RtV + (int32_t)~RsV; }", '(SCons (SExpr (EAssign AAssign (EOp (OReg "R" "d")) (EBin BAdd (EOp (OReg "R" "t")) (ECast [(TS_intN true 32)] (EUn UNot (EOp (OReg "R" "s"))))))) SNil)'),
    ("{ RdV = a++ & RtV; }", '(SCons (SExpr (EAssign AAssign (EOp (OReg "R" "d")) (EBin BAnd (EPost true (EOp (OIdent "a"))) (EOp (OReg "R" "t"))))) SNil)'),
    ("{ RdV = a++ - RtV; }", '(SCons (SExpr (EAssign AAssign (EOp (OReg "R" "d")) (EBin BSub (EPost true (EOp (OIdent "a"))) (EOp (OReg "R" "t"))))) SNil)'),
    ("{ { RdV = 1; { ReV = 2; } } }", '(SCons (SBlock (SCons (SExpr (EAssign AAssign (EOp (OReg "R" "d")) (EOp (ONum (1) false "")))) (SCons (SExpr (EAssign AAssign (EOp (OReg "R" "e")) (EOp (ONum (2) false "")))) SNil))) SNil)'),
]
CLASSIFY = [("RsV", 'OReg "R" "s"'), ("RddV", 'OReg "R" "dd"'), ("PtN", 'ONewReg "P" "t"'), ("NsN", 'ONewReg "N" "s"'), ("P0", 'OExplicit "P0" false'), ("P3_NEW", 'OExplicit "P3" true'),
            ("R31", 'OExplicit "R31" false'), ("R0", 'OExplicit "R0" false'), ("HEX_REG_ALIAS_USR", 'OAlias "USR" false'), ("HEX_REG_ALIAS_LR_NEW", 'OAlias "LR" true'),
            ("siV", 'OImm "s"'), ("UiV", 'OImm "U"'), ("foo", 'OIdent "foo"'), ("RsVx", 'OIdent "RsVx"'), ("EA", 'OIdent "EA"'), ("0x10", "ONum (16) true \"\""),
            ("7ULL", 'ONum (7) false "ULL"'), ("R29", 'OExplicit "R29" false'), ("C9", 'OExplicit "C9" false'), ("R15", 'OExplicit "R15" false')]


# ---------------------------------------------------------------- reference parser (lib/CParse.v, proved unambiguous)
TOKEN_RE = re.compile(r"[A-Za-z0-9_]+|<<|>>|<=|>=|==|!=|&&|\|\||[-+*/%<>&^|~!?:()=]")
BIN_SPELL = dict(SPELL)
UN_SPELL = dict(UN)
LEAF_TEXT = {t: s for s, t in LEAVES}
LEAF_TEXT['(EOp (OReg "R" "d"))'] = "RdV"


def coq_tokens(text):
    out = []
    for t in TOKEN_RE.findall(text):
        if t == "(":
            out.append("TLP")
        elif t == ")":
            out.append("TRP")
        elif t == "?":
            out.append("TQ")
        elif t == ":":
            out.append("TColon")
        elif re.match(r"[A-Za-z0-9_]", t):
            out.append(f'TLeaf (L{"Num" if t[0].isdigit() else "Id"} "{t}")')
        else:
            out.append(f'TOp "{t}"')
    return "[" + "; ".join(out) + "]"


def sexp(term):
    """tree2ast term text -> nested lists"""
    toks = re.findall(r'"[^"]*"|\(|\)|[^\s()]+', term)
    pos = 0

    def rd():
        nonlocal pos
        t = toks[pos]
        pos += 1
        if t == "(":
            l = []
            while toks[pos] != ")":
                l.append(rd())
            pos += 1
            return l
        return t
    return rd()


def unsexp(x):
    return x if isinstance(x, str) else "(" + " ".join(unsexp(y) for y in x) + ")"


def show_of(x):
    """the `show` text of lib/CParse.v for a Lark structure; None when outside the reference language"""
    if not isinstance(x, list):
        return None
    if x[0] == "EOp":
        return LEAF_TEXT.get(unsexp(x))
    if x[0] == "EBin" and x[1] in BIN_SPELL:
        a, b = show_of(x[2]), show_of(x[3])
        return a and b and f"({BIN_SPELL[x[1]]} {a} {b})"
    if x[0] == "EUn" and x[1] in UN_SPELL:
        a = show_of(x[2])
        return a and f"({UN_SPELL[x[1]]} {a})"
    if x[0] == "ECond":
        c, a, b = show_of(x[1]), show_of(x[2]), show_of(x[3])
        return c and a and b and f"(?: {c} {a} {b})"
    if x[0] == "EAssign" and x[1] == "AAssign":
        a, b = show_of(x[2]), show_of(x[3])
        return a and b and f"(= {a} {b})"
    return None


REF_HEAD = """From Coq Require Import List String NArith.
From RZ.lib Require Import CParse.
Import ListNotations.
Local Open Scope string_scope.
Fixpoint failing {A} (f : A -> bool) (l : list A) (i : N) : list N :=
  match l with [] => [] | x :: t => if f x then failing f t (i + 1) else i :: failing f t (i + 1) end.
Definition agree (c : list token * string) : bool :=
  match option_map show (parse_c11 (fst c)) with Some s => String.eqb s (snd c) | None => false end.
Definition cases : list (list token * string) := [
"""


def reference_compare(cases, base):
    """cases whose text lies in the reference language: tokens -> lib/CParse.parse_c11 (Coq) vs the structure Lark produced.
    Returns (number compared, list of failing case indices, error text)"""
    rows, idx = [], []
    for i, (text, exp, tag) in enumerate(cases):
        if tag not in ("pair", "random") or "_t)" in text or "++" in text:
            continue
        r = base.get(i, {})
        if not r.get("ok") or not r.get("ast"):
            continue
        try:
            prog = sexp(r["ast"])          # (SCons (SExpr e) SNil)
            sh = show_of(prog[1][1])
        except Exception:
            sh = None
        if sh is None:
            sh = "<outside the reference language: " + str(r.get("ast"))[:60].replace('"', "'") + ">"
        body = text.strip()[1:-1].strip().rstrip(";")
        rows.append(f'({coq_tokens(body)}, "{sh}")')
        idx.append(i)
    files = {}
    shard = max(50, -(-len(rows) // common.NPROC))
    for k in range(0, len(rows), shard):
        files[f"ref_{k // shard:03d}"] = REF_HEAD + ";\n".join(rows[k:k + shard]) + "\n].\nEval vm_compute in (failing agree cases 0).\n"
    ok, outs, err = common.run_case_files("C17", files)
    if not ok:
        return len(rows), [], err
    bad = []
    for name in sorted(outs):
        k = int(name.split("_")[1]) * shard
        vals = common.coq_printed_values(outs[name])
        bad += [idx[k + int(j)] for j in re.findall(r"\d+", vals[0].replace("%N", ""))]
    return len(rows), bad, ""


def run(tier):
    res = Result("C17", tier)
    rnd = random.Random(common.seed() + 17)
    broken = []
    known = {k["id"]: k for k in common.load_known("C17")}
    with common.Lock():
        meta = {}
        try:
            meta = tr_grammar.run()
        except Exception as e:
            broken.append(Broken("translator", "G6 tools/vt/tr_grammar.py", str(e)[:1500]))
        b2, binfo = common.build_property("C17")
        broken += b2
        model_ok = not any(x.kind in ("proof", "translator", "forbidden") for x in broken)
    cases = []   # (text, expected term or None, tag)
    for e in pair_cases():
        cases.append(("{ RdV = " + e.text() + "; }", '(SCons (SExpr (EAssign AAssign (EOp (OReg "R" "d")) ' + e.term() + ")) SNil)", "pair"))
    n = 150 if tier == "quick" else 4000
    for _ in range(n):
        e = gen_expr(rnd, rnd.randint(2, 6 if tier != "quick" else 4))
        cases.append(("{ RdV = " + e.text() + "; }", '(SCons (SExpr (EAssign AAssign (EOp (OReg "R" "d")) ' + e.term() + ")) SNil)", "random"))
    for t, exp in STMTS:
        cases.append((t, exp, "stmt"))
    for tok, cls in CLASSIFY:
        cases.append(("{ RxV = " + tok + "; }", '(SCons (SExpr (EAssign AAssign (EOp (OReg "R" "x")) (EOp (' + cls + ")))) SNil)", "classify:" + tok))
    if tier == "quick":
        pairs = [c for c in cases if c[2] == "pair"]
        keep = set(rnd.sample(range(len(pairs)), 160))
        cases = [c for i, c in enumerate(pairs) if i in keep] + [c for c in cases if c[2] != "pair"]
    t0 = time.time()
    jobs = [{"id": i, "op": "parse", "code": c[0]} for i, c in enumerate(cases)]
    runs = {}
    seeds = ["0", "1"] if tier == "quick" else ["0", "1", "2", "random"]
    for hs in seeds:
        req = {"jobs": jobs, "signatures": False, "nproc": common.NPROC}
        rc, out = common.sh([common.PY, str(common.VERIF / "tools/vt/pyside.py")], cwd=common.REPO, env={"PYTHONPATH": str(common.REPO), "PYTHONHASHSEED": hs},
                            input=json.dumps(req), timeout=3000)
        if "@@RESULT@@" not in out:
            broken.append(Broken("correspondence", "K7 harness", out[-1200:]))
            break
        runs[hs] = {r["id"]: r for r in json.loads(out.split("@@RESULT@@", 1)[1])["results"]}
    # the corpus path (Parser.parse_single: a fresh Lark object per instruction) on texts whose ambiguity resolution can tie,
    # and on shipped behaviours; compared across hash seeds and with the reused Compiler.parser
    from . import corpus
    tie_texts = [c[0] for c in cases if c[2] == "stmt"] + ["{ RdV = RsV---RtV; }", "{ RdV = RsV+++RtV; }", "{ { RdV = 1; }; { ReV = 2; }; }",
                                                            "{ { { RdV = 1; }; }; ; }", "{ if (RsV) { RdV = 1; }; else_ = 1; }", "{ RdV = RsV - -RtV; }", "{ RdV = -(-RsV); }"]
    cnames = corpus.names()
    csample = rnd.sample(cnames, 24 if tier == "quick" else 400)
    jobs2 = [{"id": i, "op": "parse_single", "code": t} for i, t in enumerate(tie_texts)]
    jobs2 += [{"id": len(tie_texts) + i, "op": "parse_single", "name": n} for i, n in enumerate(csample)]
    runs2 = {}
    for hs in seeds + (["5"] if tier == "quick" else ["3", "4", "5"]):
        req = {"jobs": jobs2, "signatures": False, "nproc": common.NPROC}
        rc, out = common.sh([common.PY, str(common.VERIF / "tools/vt/pyside.py")], cwd=common.REPO, env={"PYTHONPATH": str(common.REPO), "PYTHONHASHSEED": hs},
                            input=json.dumps(req), timeout=3000)
        if "@@RESULT@@" not in out:
            broken.append(Broken("correspondence", "K7 harness (parse_single path)", out[-1200:]))
            break
        runs2[hs] = {r["id"]: r for r in json.loads(out.split("@@RESULT@@", 1)[1])["results"]}
    # "independent of what was parsed before": the public corpus entry point Parser.parse called several times in ONE process with the
    # same instruction names and DIFFERENT texts (a corrected or patched shortcode re-parsed); every call is compared with a fresh
    # parse of the same text by the reused Compiler.parser
    hist_texts = [t for t in tie_texts[:12]] + ["{ RdV = RsV + RtV; }", "{ RdV = RsV - RtV; }", "{ RdV = RsV - RtV * RuV; }", "{ RdV = ; }", "{ RdV = (RsV - RtV) * RuV; }"]
    rnd.shuffle(hist_texts)
    hist_fail = parse_history(hist_texts, broken)
    wall = round(time.time() - t0, 1)
    fails, kn = [], {}
    fails += hist_fail
    hs0 = next(iter(runs2), None)
    for j in jobs2:
        what = j.get("code") or ("shipped behaviour " + j["name"])
        r0 = runs2.get(hs0, {}).get(j["id"], {})
        if r0.get("stage") == "harness":
            broken.append(Broken("correspondence", "K7 harness (parse_single path)", str(r0.get("msg"))[-600:]))
            break
        if r0.get("ok") and r0.get("tree") != r0.get("tree_reused_parser"):
            fails.append({"text": what, "why": "Parser.parse_single (fresh parser object, corpus path) and the reused Compiler.parser give different trees for the same text",
                          "expected": str(r0.get("tree_reused_parser"))[:600], "got": str(r0.get("tree"))[:600], "tag": "paths", "job": j})
        for hs, rr in runs2.items():
            r2 = rr.get(j["id"], {})
            if r2.get("ok") != r0.get("ok") or r2.get("tree") != r0.get("tree"):
                fails.append({"text": what, "why": f"Parser.parse_single gives different trees under PYTHONHASHSEED={hs0} and {hs}",
                              "expected": str(r0.get("tree"))[:600], "got": str(r2.get("tree"))[:600], "tag": "hashseed", "job": j, "seeds": [hs0, hs]})
                break
    base = runs.get(seeds[0], {})
    n_ok = 0
    for i, (text, exp, tag) in enumerate(cases):
        r = base.get(i, {})
        for hs in seeds[1:]:
            r2 = runs.get(hs, {}).get(i, {})
            if r2.get("tree") != r.get("tree") or r2.get("ok") != r.get("ok"):
                fails.append({"text": text, "why": f"the parse tree differs between hash seeds {seeds[0]} and {hs}"})
        if exp is None:
            continue
        got = r.get("ast")
        if not r.get("ok") or got != exp:
            f = {"text": text, "why": "the parse structure is not the one C prescribes" if r.get("ok") else f"well-formed text is rejected ({r.get('exc')})",
                 "expected": exp, "got": got or r.get("unmapped"), "tag": tag}
            kid = None
            if tag == "stmt" and "if (RsV) if (RtV)" in text:
                kid = "D11"
            if tag == "stmt" and "a++ " in text:
                kid = "D26"
            if tag == "stmt" and ("(int32_t)-5" in text or "(int32_t)+RsV" in text):
                kid = "D27"
            if tag.startswith("classify:") and tag.split(":")[1] in ("R29", "C9", "R15"):
                kid = "D25"
            if kid and kid in known:
                kn.setdefault(kid, text)
            else:
                fails.append(f)
        else:
            n_ok += 1
    n_ref, ref_bad, ref_err = (0, [], "")
    if base and model_ok:
        with common.Lock():
            n_ref, ref_bad, ref_err = reference_compare(cases, base)
        if ref_err:
            broken.append(Broken("correspondence", "K7 reference parser case files", ref_err[-1200:]))
        for i in ref_bad:
            fails.append({"text": cases[i][0], "why": "Lark's structure differs from the structure the proved reference parser (lib/CParse.v over the regenerated tower) assigns",
                          "expected": "parse_c11 of the token list", "got": base[i].get("ast"), "tag": cases[i][2]})
    for kid, text in kn.items():
        res.known(f"{kid}: {known[kid]['what']} -- witness {text}")
    for f in fails[:1]:
        res.violation({"what": f["why"], "input": f, "broken": [vars(x) for x in broken], "count": len(fails)})
    if broken and not fails:
        res.violation({"what": "a table obligation over grammar.lark or the K7 harness no longer checks; Lark still produced the C structure on all generated texts",
                       "broken": [vars(x) for x in broken]}, no_input=True)
    res.assumptions = ["Coq kernel", "Lark's Earley engine and its ambiguity resolution are not modelled (partial): tied by K7 only",
                       "tools/vt/tr_grammar.py, tree2ast.py; the reference structure is the generator's own AST printed with minimal parentheses by C precedence/associativity"]
    res.coverage = {"obligations": binfo["obligations"], "discharged": binfo["discharged"] if model_ok else 0, "checker_cmd": binfo["checker_cmd"],
                    "trusted_base": res.assumptions, "print_assumptions": binfo["assumptions"], "translated": meta,
                    "reference_parser_compared": n_ref, "theorems": ["C17_reference_roundtrip", "C17_reference_unambiguous", "C17_tower_matches_c11", "C17_else_rule_first", "C17_cast_and_unary_shapes", "C17_terminal_priorities", "C17_operand_terminals"],
                    "evaluations": len(cases) * len(seeds) + len(jobs2) * len(runs2), "distinct_nontrivial": n_ok,
                    "rule": "every ordered pair of binary operators at equal/adjacent precedence in both groupings (quick: 160 sampled), unary vs binary, random expression "
                            "trees (nesting <= 6) printed with minimal parentheses, statement shapes (dangling else, nesting, statement-expressions, & vs &&, cast vs "
                            "parenthesis), operand classification table; each text parsed under several PYTHONHASHSEED values; non-trivial = texts whose Lark tree maps to "
                            "exactly the generating AST",
                    "hash_seeds": seeds, "parse_single_path": {"texts": len(tie_texts), "shipped_behaviours": len(csample), "hash_seeds": list(runs2)}, "wall_s": wall, "samples": [{"text": cases[0][0], "expected": cases[0][1]}], "broken": [vars(x) for x in broken]}
    return res.finish()


PARSE_HIST = r"""
import json, sys, contextlib, io, multiprocessing
import rzilcompiler.Parser as PM
from rzilcompiler.Parser import Parser
from rzilcompiler.ArchEnum import ArchEnum
from rzilcompiler.Compiler import Compiler
req = json.load(sys.stdin)
PM.Pool = (lambda: multiprocessing.get_context("fork").Pool(2))
out = []
with contextlib.redirect_stdout(io.StringIO()), contextlib.redirect_stderr(io.StringIO()):
    c = Compiler(ArchEnum.HEXAGON)
    for k, text in enumerate(req["texts"]):
        names = ["T_a", "T_b"] if k % 2 == 0 else ["T_b", "T_a"]
        res = Parser.parse({names[0]: [text], names[1]: [req["texts"][(k + 1) % len(req["texts"])]]})
        for nm, tx in ((names[0], text), (names[1], req["texts"][(k + 1) % len(req["texts"])])):
            p = res.get(nm)
            try:
                ref = str(c.parser.parse(tx)); ref_ok = True
            except Exception as e:
                ref = type(e).__name__; ref_ok = False
            got_ok = p is not None and p.exception is None
            out.append({"call": k, "name": nm, "text": tx, "ok": got_ok, "ref_ok": ref_ok,
                        "same": (got_ok == ref_ok) and (not got_ok or (len(p.asts) == 1 and str(p.asts[0]) == ref)) and (p is None or list(p.behaviors) == [tx]),
                        "got": (str(p.asts[0])[:300] if got_ok and p.asts else (p.exception.name if p is not None and p.exception else None)), "ref": ref[:300]})
json.dump(out, sys.stdout)
"""


def parse_history(texts, broken):
    rc, out = common.sh([common.PY, "-c", PARSE_HIST], cwd=common.REPO, env=common.py_env(), input=json.dumps({"texts": texts}), timeout=1200)
    try:
        rows = json.loads(out[out.index("[{"):])
    except Exception:
        broken.append(Broken("correspondence", "K7 harness (Parser.parse history)", out[-1200:]))
        return []
    fails = []
    for r in rows:
        if not r["same"]:
            fails.append({"text": r["text"], "why": "Parser.parse (public corpus entry point) returns for this text, after earlier calls in the same process with the same "
                                                    "instruction name, a result that differs from a fresh parse of the text",
                          "expected": r["ref"], "got": r["got"], "tag": "parse-history", "history": texts[:r["call"] + 2], "name": r["name"]})
            break
    return fails


def replay(path):
    d = json.load(open(path))
    inp = d.get("input")
    if not inp:
        print(json.dumps(d.get("broken"), indent=1)[:3000])
        return 1
    if inp.get("job"):
        for hs in inp.get("seeds", ["0"]):
            req = {"jobs": [inp["job"]], "signatures": False, "nproc": 1}
            rc, out = common.sh([common.PY, str(common.VERIF / "tools/vt/pyside.py")], cwd=common.REPO, env={"PYTHONPATH": str(common.REPO), "PYTHONHASHSEED": hs},
                                input=json.dumps(req), timeout=600)
            r = json.loads(out.split("@@RESULT@@", 1)[1])["results"][0]
            print(f"PYTHONHASHSEED={hs} parse_single:", str(r.get("tree"))[:400])
            print(f"PYTHONHASHSEED={hs} reused parser:", str(r.get("tree_reused_parser"))[:400])
        print("recorded:", inp["why"])
        return 0
    r = k2.run_python([{"id": 0, "op": "parse", "code": inp["text"]}], want_sig=False)["results"][0]
    print("text:", inp["text"])
    print("now     :", r.get("ast") or r)
    print("expected:", inp.get("expected"))
    return 0
