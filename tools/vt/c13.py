"""C13 — reported attributes are exactly the instruction's own, for every compilation history."""
from __future__ import annotations

import json
import random
import re
import time

from . import common, k2, semprop, tr_meta
from .common import Broken, Result

PIECES = [
    "RdV = RsV;", "if (RsV) { RdV = 1; }", "if (PtN) { RdV = 2; }", "RdV = mem_load_u8(EA);", "mem_store_u16(EA, RsV);", "JUMP(RsV);", "PdV = PsV & PtV;",
    "P0 = 1;", "P1 = RsV;", "P2 = PsV;", "P3 = 0xff;", "RdV = P0_NEW;", "RdV = NsN;", "RdV = HEX_REG_ALIAS_USR_NEW;", "RdV = HEX_REG_ALIAS_USR;", "R31 = RsV;",
    "for (i = 0; i < 2; i++) { RxV += i; }", "RdV = RsV ? 1 : 2;", "P0 &= PsV;", "RdV = (1 ? RsV : mem_load_u8(EA));", "if (RsV) { P1 = 1; } else { P2 = 1; }",
    "{ P3 = 1; }", "RdV = ({ P0 = 1; RsV; });", "cancel_slot;", "PeV = PtN;", "RdV = P1;", "EA = RsV + siV;",
    # writes to register ALIASES, also ones whose name begins with P (they are not predicates), and reads of them
    "HEX_REG_ALIAS_PC = RsV;", "HEX_REG_ALIAS_PKTCOUNT = RtV;", "HEX_REG_ALIAS_LR = RsV;", "HEX_REG_ALIAS_USR = RsV;", "RdV = HEX_REG_ALIAS_PC;",
    "if (RsV) { HEX_REG_ALIAS_PC = RtV; }", "HEX_REG_ALIAS_SP = RsV + 8;",
]
FAILING = ["{ RdV = ; }", "{ while (RsV) { RdV = 1; } }", "{ a = 1; }", "{ RdV = foo(RsV); }", "{ P0 = 1; RdV = 4 / 2; }", "{ P1 = 1; RdV = RsV, 2; }",
           "{ if (RsV) { P2 = mem_load_u8(EA); goto x; } }", "{ JUMP(RsV); P3 = bar; }",
           # rejected (or degenerate) behaviours whose FIRST construct already sets an attribute flag while nothing else was registered yet
           "{ if (G0_NEW) { RdV = 1; } }", "{ (S1_NEW); RdV = RsV; }", "{ 1 ? bundle : P0_NEW; }", "{ RdV = OsN; }", "{ JUMP(foo); }",
           "{ mem_store_u8(foo, 1); }", "{ P0 = foo; }", "{ if (foo) { RdV = 1; } }", "{ RdV = mem_load_u8(foo); }", "{ P1 = G0_NEW; }",
           "{ if (1 ? bundle : P0_NEW) { JUMP(bar); } }"]

CHECK = """From Coq Require Import ZArith NArith List Bool String.
From RZ.model Require Import Ast Meta.
From RZ.gen Require Import MetaTables.
Import ListNotations.
Local Open Scope string_scope.
Definition subset (a b : list string) := forallb (fun x => existsb (String.eqb x) b) a.
Definition same_set (a b : list string) := subset a b && subset b a.
Definition cases : list (cstmts * list string) := [
{rows}
].
Eval vm_compute in (map (fun c => same_set (attrs (fst c)) (snd c)) cases).
"""


def gen_program(rnd):
    return "{ " + " ".join(rnd.choice(PIECES) for _ in range(rnd.randint(1, 4))) + " }"


def histories(tier, rnd):
    n = 40 if tier == "quick" else 400
    hs = []
    for i in range(n):
        steps = []
        for _ in range(rnd.randint(2, 10)):
            code = rnd.choice(FAILING) if rnd.random() < 0.3 else gen_program(rnd)
            steps.append({"c": rnd.choice([0, 0, 1]), "entry": rnd.choice(["insn", "insn", "insn", "stmt"]), "code": code})
        hs.append({"id": i, "steps": steps})
    # the history of the suite's formerly failing test and close relatives
    hs.append({"id": n, "steps": [{"c": 0, "entry": "insn", "code": "{ P0 = 1; }"}, {"c": 1, "entry": "insn", "code": "{ PdV = PsV & PtV & PuV; }"},
                                  {"c": 0, "entry": "insn", "code": "{ P1 = 1; }"}, {"c": 0, "entry": "stmt", "code": "{ P2 = 1; }"},
                                  {"c": 0, "entry": "insn", "code": "{ PdV = PsV; }"}]})
    return hs


def run(tier):
    res = Result("C13", tier)
    rnd = random.Random(common.seed() + 13)
    broken = []
    with common.Lock():
        meta = {}
        try:
            meta = tr_meta.run()
        except Exception as e:
            broken.append(Broken("translator", "G3/G4 tools/vt/tr_meta.py", str(e)[:1500]))
        b2, binfo = common.build_property("C13")
        broken += b2
        model_ok = not any(x.kind in ("proof", "translator", "forbidden") for x in broken)
        hs = histories(tier, rnd)
        t0 = time.time()
        hres = k2.run_histories(hs)
        wall_h = round(time.time() - t0, 1)
        rows, where = [], []
        n_steps = n_insn_ok = 0
        for h, hr in zip(hs, hres):
            for k, st in enumerate(hr.get("steps", [])):
                n_steps += 1
                if st.get("entry") == "insn" and st.get("ok") and "ast" in st:
                    n_insn_ok += 1
                    rows.append(f"({st['ast']}, [{'; '.join(common.coq_str(m) for m in st['meta'])}])")
                    where.append((h["id"], k))
        bad = []
        if model_ok and rows:
            files = {}
            shard = max(20, -(-len(rows) // common.NPROC))
            for k in range(0, len(rows), shard):
                files[f"m_{k // shard:03d}"] = CHECK.format(rows=";\n".join(rows[k:k + shard]))
            ok, outs, err = common.run_case_files("C13", files)
            if not ok:
                broken.append(Broken("correspondence", "K4 case files", err[-1500:]))
            else:
                for name in sorted(outs):
                    k = int(name.split("_")[1]) * shard
                    vals = re.findall(r"true|false", common.coq_printed_values(outs[name])[0])
                    bad += [where[k + j] for j, v in enumerate(vals) if v == "false"]
        if bad:
            broken.append(Broken("correspondence", "K4 model/Meta.v + gen/MetaTables.v vs reported attributes", f"{len(bad)} steps disagree"))
    # failing input search: the history-independent oracle needs no model: attributes of a step must equal the
    # attributes of the same behaviour compiled FIRST in a fresh process
    fails = []
    if broken:
        distinct = {}
        for h, hr in zip(hs, hres):
            for k, st in enumerate(hr.get("steps", [])):
                if st.get("entry") == "insn" and st.get("ok"):
                    distinct.setdefault(h["steps"][k]["code"], []).append((h, k, st))
        fresh = k2.run_histories([{"id": i, "steps": [{"c": 0, "entry": "insn", "code": c}]} for i, c in enumerate(distinct)])
        for (code, occ), fr in zip(distinct.items(), fresh):
            f0 = fr["steps"][0]
            for h, k, st in occ:
                if f0.get("ok") and set(f0["meta"]) != set(st["meta"]):
                    fails.append({"history": h["steps"][:k + 1], "step": k, "behaviour": code, "reported": st["meta"], "reported_when_compiled_first": f0["meta"]})
                    break
        # structural oracle on single behaviours (python re-statement of the property text)
        if not fails:
            for (code, occ), fr in zip(distinct.items(), fresh):
                f0 = fr["steps"][0]
                if f0.get("ok"):
                    exp = expected_attrs(code)
                    if exp is not None and exp != set(f0["meta"]):
                        fails.append({"history": [{"entry": "insn", "code": code}], "behaviour": code, "reported": f0["meta"], "expected_from_text": sorted(exp)})
                        break
    for f in fails[:1]:
        if "reported_when_compiled_first" in f and len(f.get("history", [])) > 1:
            try:
                want = set(f["reported_when_compiled_first"])
                small = k2.shrink_history(f["history"], lambda st: bool(st.get("ok")) and set(st.get("meta") or []) != want)
                if len(small) < len(f["history"]):
                    f["history_as_generated"] = f["history"]
                    f["history"] = small
                    f["step"] = len(small) - 1
            except Exception:
                pass
        res.violation({"what": "reported attributes differ from the behaviour's own", "input": f, "broken": [vars(x) for x in broken]})
    if broken and not fails:
        res.violation({"what": "a proof obligation, translator or correspondence no longer checks; no history with wrong attributes found",
                       "broken": [vars(x) for x in broken]}, no_input=True)
    res.assumptions = ["Coq kernel + vm_compute", "translator tools/vt/tr_meta.py (pattern specific, fail-closed)",
                       "model/Meta.v ties AST constructors to transformer callbacks (checked by K4 on this run)", "tree2ast.py"]
    res.coverage = {"obligations": binfo["obligations"], "discharged": binfo["discharged"] if model_ok else 0, "checker_cmd": binfo["checker_cmd"],
                    "trusted_base": res.assumptions, "print_assumptions": binfo["assumptions"], "translated": meta,
                    "theorems": ["C13_history_independent", "C13_reset_clears_everything_reported", "C13_source_obligations", "C13_only_expected_senders", "attrs_spec (proofs/MetaSpec.v when present)"],
                    "evaluations": n_steps, "distinct_nontrivial": len(set(rows)),
                    "rule": "random histories (2-10 steps, two Compiler instances, entry points transform_insn / compile_c_stmt, failing inputs "
                            "interleaved), each in a fresh process; non-trivial = distinct (behaviour, reported attributes) pairs compared with the model",
                    "histories": len(hs), "history_wall_s": wall_h, "insn_steps_compared": n_insn_ok,
                    "samples": [{"history": hs[0]["steps"], "result": [{k: v for k, v in s.items() if k not in ("text", "ast")} for s in hres[0].get("steps", [])]}],
                    "broken": [vars(x) for x in broken]}
    return res.finish()


def expected_attrs(code: str):
    """property text, syntactically, for programs built from PIECES (used only by the failing-input search)"""
    s = set()
    if re.search(r"\bif\s*\(", code):
        s.add("HEX_IL_INSN_ATTR_COND")
    if re.search(r"\b[A-Z][a-z]N\b|_NEW\b", code):
        s.add("HEX_IL_INSN_ATTR_NEW")
    if "mem_load_" in code:
        s.add("HEX_IL_INSN_ATTR_MEM_READ")
    if "mem_store_" in code:
        s.add("HEX_IL_INSN_ATTR_MEM_WRITE")
    if "JUMP(" in code:
        s.add("HEX_IL_INSN_ATTR_BRANCH")
    for m in re.finditer(r"\b(P[a-z]V|P[a-z]N|P[0-3])\s*(=|&=|\|=|\^=|\+=)[^=]", code):
        s.add("HEX_IL_INSN_ATTR_WPRED")
        if re.match(r"P[0-3]$", m.group(1)):
            s.add("HEX_IL_INSN_ATTR_WRITE_" + m.group(1))
    return s or {"HEX_IL_INSN_ATTR_NONE"}


def replay(path):
    d = json.load(open(path))
    inp = d.get("input")
    if not inp:
        print(json.dumps(d.get("broken"), indent=1)[:3000])
        return 1
    r = k2.run_histories([{"id": 0, "steps": inp["history"]}])
    print(json.dumps([{k: v for k, v in s.items() if k not in ("text", "ast")} for s in r[0]["steps"]], indent=1))
    print("recorded:", inp.get("reported"), "expected:", inp.get("reported_when_compiled_first") or inp.get("expected_from_text"))
    return 0
