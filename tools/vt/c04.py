"""C04 — common type / promotion are exactly the C11 table (gen/TypeRules.v + K1)."""
from __future__ import annotations

import json
import random

from . import common, tr_typerules
from .common import Broken, Result

# executed with the repository's interpreter, cwd = REPO
PY_SIDE = r"""
import json, sys
from rzilcompiler.Transformer.ValueType import ValueType, c11_cast, promoted_type
cases = json.load(sys.stdin)
out = []
for (sa, wa, sb, wb, alias) in cases:
    a = ValueType(bool(sa), wa)
    b = a if alias else ValueType(bool(sb), wb)
    try:
        ra, rb = c11_cast(a, b)
        r = {"ok": True, "ra": [ra.signed, ra.bit_width], "rb": [rb.signed, rb.bit_width],
             "ra_is_a": ra is a, "rb_is_b": rb is b, "ra_is_rb": ra is rb,
             "a_after": [a.signed, a.bit_width], "b_after": [b.signed, b.bit_width]}
        # history: results that are new objects are modified by the caller (as simplify_unary_expr does), then the
        # same question is asked again with fresh arguments: the answer must not depend on that
        for x in (ra, rb):
            if x is not a and x is not b:
                x.signed = not x.signed
                x.bit_width = 8 if x.bit_width != 8 else 16
        a2 = ValueType(bool(sa), wa)
        b2 = a2 if alias else ValueType(bool(sb), wb)
        r2a, r2b = c11_cast(a2, b2)
        r["r2a"] = [r2a.signed, r2a.bit_width]; r["r2b"] = [r2b.signed, r2b.bit_width]
    except Exception as e:
        r = {"ok": False, "exc": type(e).__name__}
    try:
        p = promoted_type(a)
        r["prom"] = [p.signed, p.bit_width]; r["prom_is_a"] = p is a
        r["a_after_prom"] = [a.signed, a.bit_width]
        if p is not a:
            p.signed = not p.signed
            p.bit_width = 8
        p2 = promoted_type(ValueType(bool(sa), wa))
        r["prom2"] = [p2.signed, p2.bit_width]
    except Exception as e:
        r["prom_exc"] = type(e).__name__
    out.append(r)
json.dump(out, sys.stdout)
"""


def gen_cases(tier: str, rnd: random.Random):
    base = [1, 8, 16, 31, 32, 33, 64, 128, 1024, 2048]
    widths = list(base)
    if tier == "thorough":
        widths += sorted({rnd.randint(1, 2048) for _ in range(60)})
    else:
        widths += sorted({rnd.randint(1, 2048) for _ in range(6)})
    cases = []
    for wa in widths:
        for wb in widths:
            for sa in (0, 1):
                for sb in (0, 1):
                    cases.append((sa, wa, sb, wb, 0))
        for sa in (0, 1):
            cases.append((sa, wa, sa, wa, 1))
    return cases, widths


def b(x):
    return "true" if x else "false"


def coq_case(c, r):
    sa, wa, sb, wb, alias = c
    if not r.get("ok") or "prom" not in r:
        return None
    f = lambda t: f"(mk {b(t[0])} {t[1]})"
    return (
        f"(({f((sa, wa))}, {f((sb, wb))}, {b(alias)}), ({f(r['ra'])}, {f(r['rb'])}, {b(r['ra_is_a'])}, {b(r['rb_is_b'])}),"
        f" ({f(r['a_after'])}, {f(r['b_after'])}), ({f(r['prom'])}, {b(r['prom_is_a'])}, {f(r['a_after_prom'])}), ({f(r['r2a'])}, {f(r['r2b'])}, {f(r['prom2'])}))"
    )


HEADER = """From Coq Require Import NArith List Bool.
From RZ.lib Require Import PyHeap.
From RZ.sem Require Import CTypesN.
{gen}
Import ListNotations.
Local Open Scope N_scope.
Definition mk (s : bool) (w : N) : vt := {{| vsigned := s; vbw := w |}}.
Definition case := ((vt * vt * bool) * (vt * vt * bool * bool) * (vt * vt) * (vt * bool * vt) * (vt * vt * vt))%type.
"""

MODEL_CHECK = """
(* correspondence: generated model vs what Python did (values, identity, mutation) *)
Definition agrees (c : case) : bool :=
  let '((A, B, alias), (RA, RB, ra_is_a, rb_is_b), (A', B'), (P, p_is_a, A''), (R2A, R2B, P2)) := c in
  let h := if alias then [A] else [A; B] in
  let bl := if alias then 0%nat else 1%nat in
  let '(h', (ra, rb)) := c11_cast h 0%nat bl in
  let '(hp, rp) := promoted_type h 0%nat in
  vt_eqb (rd h' ra) RA && vt_eqb (rd h' rb) RB && Bool.eqb (Nat.eqb ra 0) ra_is_a && Bool.eqb (Nat.eqb rb bl) rb_is_b
  && vt_eqb (rd h' 0%nat) A' && vt_eqb (rd h' bl) B'
  && vt_eqb (rd hp rp) P && Bool.eqb (Nat.eqb rp 0) p_is_a && vt_eqb (rd hp 0%nat) A''
  (* the model is a function of the heap it is given: asked again with fresh objects it gives the same answer *)
  && vt_eqb (rd h' ra) R2A && vt_eqb (rd h' rb) R2B && vt_eqb (rd hp rp) P2.
"""

SPEC_CHECK = """
(* oracle: what Python did vs the C11 table (used to find a failing input) *)
Definition meets_spec (c : case) : bool :=
  let '((A, B, alias), (RA, RB, ra_is_a, rb_is_b), (A', B'), (P, p_is_a, A''), (R2A, R2B, P2)) := c in
  let B0 := if alias then A else B in
  vt_eqb RA (uac A B0) && vt_eqb RB (uac A B0) && vt_eqb A' A && vt_eqb B' B0
  && vt_eqb P (promote A) && vt_eqb A'' A && (if 32 <=? vbw A then p_is_a else true)
  && vt_eqb R2A (uac A B0) && vt_eqb R2B (uac A B0) && vt_eqb P2 (promote A).
"""

TAIL = """
Fixpoint failing {{A}} (f : A -> bool) (l : list A) (i : N) : list N :=
  match l with [] => [] | x :: t => if f x then failing f t (i + 1) else i :: failing f t (i + 1) end.
Definition cases : list case := [
{cases}
].
{evals}
"""


def run_python(cases):
    rc, out = common.sh([common.PY, "-c", PY_SIDE], cwd=common.REPO, env=common.py_env(), input=json.dumps(cases), timeout=600)
    if rc != 0:
        return None, out
    return json.loads(out[out.index("[") :]), ""


def run(tier: str) -> int:
    res = Result("C04", tier)
    rnd = random.Random(common.seed())
    broken: list[Broken] = []
    with common.Lock():
        gen_ok = True
        meta = {}
        try:
            meta = tr_typerules.run()
        except Exception as e:  # translator fail-closed
            gen_ok = False
            broken.append(Broken("translator", "G1 tools/vt/tr_typerules.py", str(e)))
        binfo = {"assumptions": [], "obligations": 0, "discharged": 0, "checker_cmd": ""}
        if gen_ok:
            b2, binfo = common.build_property("C04")
            broken += b2
        model_ok = gen_ok and not any(x.kind == "proof" for x in broken)
        # python side
        cases, widths = gen_cases(tier, rnd)
        pyres, err = run_python(cases)
        spec_fail, model_fail, py_exc = [], [], []
        n_checked = 0
        if pyres is None:
            broken.append(Broken("correspondence", "K1 python side crashed", err[-2000:]))
        else:
            rows, idx = [], []
            for i, (c, r) in enumerate(zip(cases, pyres)):
                t = coq_case(c, r)
                if t is None:
                    py_exc.append((c, r))
                else:
                    rows.append(t)
                    idx.append(i)
            n_checked = len(rows)
            files = {}
            shard = 600
            for k in range(0, len(rows), shard):
                chunk = rows[k : k + shard]
                gen = "From RZ.gen Require Import TypeRules." if model_ok else ""
                evals = "Eval vm_compute in (failing meets_spec cases 0).\n"
                if model_ok:
                    evals += "Eval vm_compute in (failing agrees cases 0).\n"
                files[f"k1_{k // shard:03d}"] = (
                    HEADER.format(gen=gen)
                    + (MODEL_CHECK if model_ok else "")
                    + SPEC_CHECK
                    + TAIL.format(cases=";\n".join(chunk), evals=evals)
                )
            ok, outs, err = common.run_case_files("C04", files)
            if not ok:
                broken.append(Broken("correspondence", "K1 case files do not compile", err))
            else:
                for name in sorted(outs):
                    k = int(name.split("_")[1]) * shard
                    vals = common.coq_printed_values(outs[name])
                    def parse(v):
                        import re
                        return [int(x) for x in re.findall(r"\d+", v.replace("%N", ""))]
                    spec_fail += [idx[k + j] for j in parse(vals[0])]
                    if model_ok and len(vals) > 1:
                        model_fail += [idx[k + j] for j in parse(vals[1])]
        if model_fail:
            broken.append(Broken("correspondence", "K1 gen/TypeRules.v vs ValueType.py", f"{len(model_fail)} disagreeing cases, first {cases[model_fail[0]]}"))

    # --- verdict ------------------------------------------------------------------------
    def describe(i):
        c, r = cases[i], pyres[i]
        return {"input": {"a": {"signed": bool(c[0]), "width": c[1]}, "b": {"signed": bool(c[2]), "width": c[3]}, "aliased": bool(c[4])}, "python_result": r}

    for c, r in py_exc:
        res.violation({"what": "c11_cast/promoted_type raised (not total)", "input": c, "python_result": r,
                       "replay": "c04"})
    seen = 0
    for i in spec_fail[:1]:
        d = describe(i)
        d["what"] = "c11_cast / promoted_type result differs from the C11 table, or an argument was modified"
        d["expected"] = "uac/promote of sem/CTypesN.v; arguments unchanged; the same answer when asked again after the caller modified the first (fresh) results"
        d["broken"] = [vars(x) for x in broken]
        res.violation(d)
        seen += 1
    if broken and not seen and not py_exc:
        res.violation({"what": "proof obligation / correspondence no longer checks; enumerating the finite domain "
                               f"({len(cases)} pairs incl. aliased) against the C11 table found no failing input",
                       "broken": [vars(x) for x in broken]}, no_input=True)
    res.assumptions = [
        "Coq 8.16.1 kernel, vm_compute (no native_compute)",
        "G1 translator tools/vt/tr_typerules.py + pytr.py (validated by K1 on this run)",
        "ValueType objects are modelled as (signed, bit_width) records in a heap; group/format fields are not modelled "
        "(accessors' shape is checked by the translator)",
    ]
    res.coverage = {
        "obligations": binfo["obligations"],
        "discharged": binfo["discharged"] if not any(x.kind in ("proof", "translator", "forbidden") for x in broken) else 0,
        "checker_cmd": binfo["checker_cmd"],
        "trusted_base": res.assumptions,
        "print_assumptions": binfo["assumptions"],
        "theorems": ["C04_common_type", "C04_symmetric", "C04_spec_symmetric", "C04_promotion"],
        "unbounded": "all widths in N, all heaps, aliased or distinct arguments",
        "translated": meta,
        "evaluations": n_checked,
        "distinct_nontrivial": len({(c[0], c[1], c[2], c[3]) for c in cases if (c[0], c[1]) != (c[2], c[3])}),
        "rule": "K1: ordered pairs (signed,width)x(signed,width) over the listed widths plus aliased pairs; a case is "
                "non-trivial when the two types differ (c11_cast takes a copying path); compared: result values, identity "
                "of results with arguments, argument values after the call, promoted_type result/identity; history: the fresh result objects are "
                "modified by the caller and the same pair is asked again with fresh arguments",
        "widths": widths,
        "samples": [describe(i) for i in (0, len(cases) // 2, len(cases) - 1)] if pyres else [],
        "exhaustive": False,
        "broken": [vars(x) for x in broken],
    }
    return res.finish()


def replay(path: str) -> int:
    d = json.load(open(path))
    inp = d.get("input")
    if not inp or isinstance(inp, list):
        print("replay: no concrete input recorded:", json.dumps(d.get("broken"), indent=1))
        return 1
    c = (int(inp["a"]["signed"]), inp["a"]["width"], int(inp["b"]["signed"]), inp["b"]["width"], int(inp["aliased"]))
    r, err = run_python([c])
    print("input:", inp)
    print("python now:", r[0] if r else err)
    print("recorded:", d.get("python_result"))
    return 0
