"""C02 — integer operators follow C11 (model/Lower.v + K2 + differential oracle)."""
import random

from . import gen_prog, semprop


def programs(tier, rnd: random.Random):
    ops = list(gen_prog.op_matrix())
    step = 6 if tier == "quick" else 1
    off = rnd.randrange(step)
    progs = ops[off::step] + list(gen_prog.unop_matrix())
    # depth 2: an arithmetic result of narrow operands consumed by a sign-/width-sensitive operator
    narrow = ["int8_t", "uint8_t", "int16_t", "uint16_t"]
    consumers = ["(%s) >> 1", "(%s) >> b", "(%s) < 0", "(%s) >= c", "(int64_t)(%s)", "(uint64_t)(%s)", "(%s) * 2", "~(%s)", "-(%s)",
                 "(%s) == -1", "((%s) < 0) ? 1 : 2", "(%s) << 4", "(%s) & 0xffff0000", "(%s) + c"]
    fam = []
    for ta in narrow:
        for tb in narrow:
            for op in ("+", "-", "*", "&", "|", "^"):
                for cons in consumers:
                    fam.append(f"{{ {ta} a = RssV; {tb} b = RttV; int32_t c = RuV; RddV = {cons % ('a ' + op + ' b')}; }}")
    progs += fam if tier != "quick" else rnd.sample(fam, 90)
    g = gen_prog.Gen(rnd)
    n = 120 if tier == "quick" else 1500
    for _ in range(n):
        g.locals = {}
        g.pair_mode = True
        decls = []
        for v in "abc":
            t = rnd.choice(gen_prog.INT_TYPES)
            g.locals[v] = t
            decls.append(f"{t} {v} = {rnd.choice(['RssV', 'RttV', 'RuV', 'siV', 'PvV'])};")
        progs.append("{ " + " ".join(decls) + f" RddV = {g.expr(rnd.randint(2, 4), 0.0, ('loc', 'loc', 'lit', 'reg'))}; }}")
    return progs


SPEC = semprop.Spec(
    prop="C02",
    programs=programs,
    oracles=("diff",),
    theorems=["C02_fixed_shift_promotion", "C02_refuted_logical_not", "C02_fixed_compare_promotion", "C02_refuted", "C02_operators_correct_repaired", "C02_operators_correct_partial",
              "C02_repaired_witnesses", "C02_common_type_is_c11", "C02_operator_tables_are_the_compilers"],
    note="exhaustive depth-1 operator x type x type matrix (quick: every 6th), unary / ?: matrix, random trees depth <= 4",
)


def run(tier):
    return semprop.run(SPEC, tier)


def replay(path):
    return semprop.replay("C02", path)
