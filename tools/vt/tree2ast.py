"""Lark parse tree (as produced by /repo's grammar) -> term text of coq/model/Ast.v.

Purely syntactic.  A shape this file does not know raises Unmapped: the harness then reports the
program as outside the model instead of guessing."""
from __future__ import annotations

from lark import Token, Tree


class Unmapped(Exception):
    pass


def q(s) -> str:
    return '"' + str(s).replace('"', '""') + '"'


BINRULES = {
    "additive_expr", "multiplicative_expr", "shift_expr", "relational_expr", "equality_expr", "and_expr",
    "exclusive_or_expr", "inclusive_or_expr", "logical_and_expr", "logical_or_expr",
}
BINOPS = {"+": "BAdd", "-": "BSub", "*": "BMul", "/": "BDiv", "%": "BMod", "&": "BAnd", "|": "BOr", "^": "BXor",
          "<<": "BShl", ">>": "BShr", "<": "BLt", ">": "BGt", "<=": "BLe", ">=": "BGe", "==": "BEq", "!=": "BNe",
          "&&": "BLAnd", "||": "BLOr"}
ASGOPS = {"=": "AAssign", "+=": "AAdd", "-=": "ASub", "*=": "AMul", "/=": "ADiv", "%=": "AMod", "<<=": "AShl",
          ">>=": "AShr", "&=": "AAnd", "^=": "AXor", "|=": "AOr"}
UNOPS = {"~": "UNot", "-": "UMinus", "!": "ULNot", "+": "UPlus", "*": "UDeref", "++": "UPreInc", "--": "UPreDec",
         "sizeof": "USizeofE"}


def coq_list(xs, nil, cons):
    out = nil
    for x in reversed(xs):
        out = f"({cons} {x} {out})"
    return out


def tspecs(t) -> list[str]:
    """flatten a type tree into tspec constructors"""
    if isinstance(t, Token):
        v = str(t)
        if v == "int":
            return ["TS_int"]
        if v == "unsigned":
            return ["TS_unsigned"]
        if v == "const":
            return ["TS_const"]
        return [f"(TS_other {q(v)})"]
    if t.data == "type_specifier":
        c = t.children[0]
        if isinstance(c, Tree) and c.data == "c_int_type":
            return [f"(TS_intN {'true' if str(c.children[0]) == 'int' else 'false'} {int(c.children[1])})"]
        if isinstance(c, Tree) and c.data == "c_size_type":
            return [f"(TS_sizeN {int(c.children[0])} {'true' if str(c.children[1]) == 's' else 'false'})"]
        if isinstance(c, Token):
            return tspecs(c)
        return [f"(TS_other {q(c.data)})"]
    if t.data in ("declaration_specifiers", "specifier_qualifier_list"):
        out = []
        for c in t.children:
            out += tspecs(c)
        return out
    return [f"(TS_other {q(t.data)})"]


def ty(t) -> str:
    return "[" + "; ".join(tspecs(t)) + "]"


def is_type_tree(t) -> bool:
    return isinstance(t, Tree) and t.data in ("type_specifier", "declaration_specifiers", "specifier_qualifier_list")


def expr(t) -> str:
    if isinstance(t, Token):
        if t.type == "ESCAPED_STRING":
            return f"(EOp (OString {q(str(t)[1:-1])}))"
        raise Unmapped(f"token {t.type} in expression position")
    if t is None:
        raise Unmapped("None in expression position")
    d, ch = t.data, t.children
    if d == "reg" or d == "new_reg":
        cons = "OReg" if d == "reg" else "ONewReg"
        return f"(EOp ({cons} {q(ch[0])} {q(ch[1])}))"
    if d == "explicit_reg":
        return f"(EOp (OExplicit {q(ch[0])} {'true' if ch[1] is not None else 'false'}))"
    if d == "reg_alias":
        return f"(EOp (OAlias {q(ch[0])} {'true' if len(ch) > 1 and ch[1] is not None else 'false'}))"
    if d == "imm":
        return f"(EOp (OImm {q(ch[0])}))"
    if d == "number":
        tok = ch[0]
        suffix = str(ch[1]).upper() if len(ch) > 1 and ch[1] is not None else ""
        if tok.type == "HEX_NUMBER":
            txt = str(tok)
            if len(txt) <= 2:
                raise Unmapped("hex literal without digits")
            return f"(EOp (ONum ({int(txt, 16)}) true {q(suffix)}))"
        if tok.type == "DEC_NUMBER":
            txt = str(tok)
            if "_" in txt:
                raise Unmapped("decimal literal with underscore")
            return f"(EOp (ONum ({int(txt, 10)}) false {q(suffix)}))"
        raise Unmapped(f"number token {tok.type}")
    if d == "float_number":
        return f"(EOp (OFloat {q(ch[0])}))"
    if d == "identifier":
        return f"(EOp (OIdent {q(ch[0])}))"
    if d == "cast_expr":
        return f"(ECast {ty(ch[0])} {expr(ch[1])})"
    if d == "unary_expr":
        op = str(ch[0])
        if op not in UNOPS:
            return f"(EUn UAddr {expr(ch[1])})" if "&" in op else f'(EOther {q("unary " + op)})'
        if op == "sizeof" and is_type_tree(ch[1]):
            return f"(ESizeofT {ty(ch[1])})"
        return f"(EUn {UNOPS[op]} {expr(ch[1])})"
    if d in BINRULES:
        if len(ch) != 3 or str(ch[1]) not in BINOPS:
            raise Unmapped(f"{d} with {len(ch)} children")
        return f"(EBin {BINOPS[str(ch[1])]} {expr(ch[0])} {expr(ch[2])})"
    if d == "conditional_expr":
        return f"(ECond {expr(ch[0])} {expr(ch[1])} {expr(ch[2])})"
    if d == "assignment_expr":
        return f"(EAssign {ASGOPS[str(ch[1])]} {expr(ch[0])} {expr(ch[2])})"
    if d == "postfix_expr":
        if len(ch) == 2 and isinstance(ch[1], Token) and ch[1].type in ("INC_OP", "DEC_OP"):
            return f"(EPost {'true' if ch[1].type == 'INC_OP' else 'false'} {expr(ch[0])})"
        if len(ch) == 2 and isinstance(ch[1], Token) and ch[1].type == "IDENTIFIER":
            return f"(EMember {expr(ch[0])} {q(ch[1])})"
        if len(ch) == 3 and isinstance(ch[1], Token) and ch[1].type == "PTR_OP":
            return f"(EPtrMember {expr(ch[0])} {q(ch[2])})"
        if len(ch) == 2:
            return f"(EIndex {expr(ch[0])} {expr(ch[1])})"
        return f'(EOther "postfix_expr")'
    if d == "sub_routine":
        name = ch[0].children[0] if isinstance(ch[0], Tree) and ch[0].data == "identifier" else None
        if name is None:
            raise Unmapped("sub_routine without identifier")
        args = [expr(a) for a in ch[1:] if a is not None]
        return f"(ECall {q(name)} {coq_list(args, 'ENil', 'ECons')})"
    if d == "macro_expr":
        args = [expr(a) for a in ch[1:] if a is not None]
        return f"(EMacro {q(ch[0])} {coq_list(args, 'ENil', 'ECons')})"
    if d == "mem_load":
        args = [expr(a) for a in ch[3:]]
        return f"(ELoad {'true' if str(ch[1]) == 's' else 'false'} {int(ch[2])} {coq_list(args, 'ENil', 'ECons')})"
    if d == "gcc_extended_expr":
        items = ch[0]
        last = ch[1] if len(ch) > 1 else None
        its = stmts_of(items) if items is not None else []
        last_s = stmt(last) if last is not None else "SEmpty"
        return f"(EStmtExpr {coq_list(its, 'SNil', 'SCons')} {last_s})"
    if d == "expr":
        return f"(EComma {expr(ch[0])} {expr(ch[1])})"
    if d in ("jump", "nop"):
        raise Unmapped(f"{d} in expression position")
    return f"(EOther {q(d)})"


def stmts_of(t) -> list[str]:
    """a block_item_list / block_item / single statement -> list of statement terms"""
    if isinstance(t, Tree) and t.data == "block_item_list":
        out = []
        for c in t.children:
            out += stmts_of(c)
        return out
    return [stmt(t)]


STMT_RULES = {"declaration", "expr_stmt", "compound_stmt", "selection_stmt", "iteration_stmt", "mem_store", "jump_stmt",
              "cancel_slot_stmt", "labeled_stmt", "block_item", "block_item_list"}


def stmt(t) -> str:
    if isinstance(t, Tree):
        d, ch = t.data, t.children
        if d == "block_item":
            return stmt(ch[0])
        if d == "block_item_list":
            return f"(SBlock {coq_list(stmts_of(t), 'SNil', 'SCons')})"
        if d == "declaration":
            if len(ch) != 2:
                return f'(SDeclOther "declaration with {len(ch)} children")'
            tyt, x = ch
            if not is_type_tree(tyt):
                return f'(SDeclOther "declaration specifier shape")'
            if isinstance(x, Token):
                return f"(SDecl {ty(tyt)} {q(x)} None)"
            if isinstance(x, Tree) and x.data == "init_declarator" and len(x.children) == 2 and isinstance(x.children[0], Token):
                return f"(SDecl {ty(tyt)} {q(x.children[0])} (Some {expr(x.children[1])}))"
            return f'(SDeclOther "declarator shape")'
        if d == "expr_stmt":
            return "SEmpty"
        if d == "compound_stmt":
            return "(SBlock SNil)"
        if d == "selection_stmt":
            kw = str(ch[0])
            if kw == "if":
                if len(ch) == 3:
                    return f"(SIf {expr(ch[1])} {stmt(ch[2])} None)"
                if len(ch) == 5 and str(ch[3]) == "else":
                    return f"(SIf {expr(ch[1])} {stmt(ch[2])} (Some {stmt(ch[4])}))"
                raise Unmapped("if shape")
            if kw == "switch":
                return f"(SSwitch {expr(ch[1])} {stmt(ch[2])})"
            raise Unmapped("selection_stmt keyword")
        if d == "iteration_stmt":
            kw = str(ch[0])
            if kw == "for":
                if len(ch) == 5:
                    return f"(SFor {stmt(ch[1])} {stmt(ch[2])} (Some {expr(ch[3])}) {stmt(ch[4])})"
                if len(ch) == 4:
                    return f"(SFor {stmt(ch[1])} {stmt(ch[2])} None {stmt(ch[3])})"
                raise Unmapped("for shape")
            if kw == "while":
                return f"(SWhile {expr(ch[1])} {stmt(ch[2])})"
            if kw == "do":
                return f"(SDo {stmt(ch[1])} {expr(ch[3])})"
            raise Unmapped("iteration keyword")
        if d == "mem_store":
            args = [expr(a) for a in ch[3:]]
            return f"(SStore {'true' if str(ch[1]) == 's' else 'false'} {int(ch[2])} {coq_list(args, 'ENil', 'ECons')})"
        if d == "jump_stmt":
            c0 = ch[0]
            if isinstance(c0, Tree) and c0.data == "jump":
                j = c0.children
                if len(j) == 1 and isinstance(j[0], Tree) and j[0].data == "nop":
                    return "SNop"
                return f"(SJump {expr(j[1])})"
            kw = str(c0)
            if kw == "return":
                return f"(SReturn (Some {expr(ch[1])}))" if len(ch) > 1 else "(SReturn None)"
            if kw == "goto":
                return f"(SGoto {q(ch[1])})"
            if kw == "break":
                return "SBreak"
            if kw == "continue":
                return "SContinue"
            raise Unmapped("jump_stmt shape")
        if d == "cancel_slot_stmt":
            return "SCancel"
        if d == "labeled_stmt":
            kw = ch[0]
            if isinstance(kw, Token) and kw.type == "IDENTIFIER":
                return f"(SLabel {q(kw)} {stmt(ch[1])})"
            return f"(SCase {stmt(ch[-1])})"
    # an expression statement (expr ";" is inlined)
    return f"(SExpr {expr(t)})"


def program(tree: Tree) -> str:
    if tree.data != "fbody":
        raise Unmapped("root is not fbody")
    out = []
    for c in tree.children:
        out += stmts_of(c)
    return coq_list(out, "SNil", "SCons")
