"""C08 — sub-routine calls follow the C calling convention and isolate the callee."""
from __future__ import annotations

import random
import re

from . import diffrun, common, gen_prog, iltext, k2, semprop

T = gen_prog.INT_TYPES
SUBS = {"clz32": "uint32_t", "clz64": "uint64_t", "clo32": "uint32_t", "clo64": "uint64_t", "revbit16": "uint16_t", "revbit32": "uint32_t",
        "revbit64": "uint64_t", "fbrev": "uint32_t"}
SRC = ["RsV", "RtV", "RuV", "RssV", "RttV", "PvV", "siV", "UiV"]


def programs(tier, rnd: random.Random):
    progs = []
    # argument conversion: every source type into every routine; result into 32 and 64 bit targets
    for f in SUBS:
        for ta in T:
            progs += [f"{{ {ta} a = RssV; RddV = {f}(a); }}", f"{{ {ta} a = RssV; RdV = {f}(a); }}"]
        progs += [f"{{ RdV = {f}(RsV); ReV = RsV; }}", f"{{ RddV = {f}(RssV) + 1; }}"]
    # 1..4 calls per expression, nested calls, calls next to live temporaries
    fs = list(SUBS)
    n = 60 if tier == "quick" else 1500
    for _ in range(n):
        k = rnd.randint(1, 4)
        calls = [f"{rnd.choice(fs)}({rnd.choice(SRC)})" for _ in range(k)]
        if rnd.random() < 0.3:
            calls[0] = f"{rnd.choice(fs)}({calls[0]})"
        e = calls[0]
        for c in calls[1:]:
            e = f"({e} {rnd.choice(['+', '^', '|', '-'])} {c})"
        # (RvV / RwV: letters no call argument uses, so that no ISA letter occurs both as a single register and as a pair)
        pre = rnd.choice(["", "int32_t a = RvV; int32_t b = a++; ", "RxV++; ", "int32_t a = ({ int32_t q = RwV; q; }); "])
        post = rnd.choice(["", " ReV = RwV;", " EA = RvV;"])
        progs.append(f"{{ {pre}RddV = {e};{post} }}")
    progs += ["{ trap(0, 1); RdV = 1; }", "{ RdV = 1; trap(RsV, 2); }", "{ int32_t a = RsV; RdV = clz32(a); ReV = a; }", "{ int32_t a = RsV; int32_t b = clz32(a) + a; RdV = b; }",
              "{ RdV = conv_round(RsV, 2); }", "{ RdV = conv_round(RsV, 0); }", "{ RdV = clz32(RsV) + clz32(RtV); }", "{ RdV = clo32(RsV) + clo32(RtV); }",
              "{ for (i = 0; i < 2; i++) { RxV += clz32(i); } }", "{ if (clz32(RsV)) { RdV = clz32(RtV); } }", "{ RdV = clz32(RsV) ? clz32(RtV) : 3; }"]
    if tier == "quick":
        head = [p for i, p in enumerate(progs[:len(SUBS) * (2 * len(T) + 2)]) if i % 4 == rnd.randrange(4)]
        progs = head + progs[len(SUBS) * (2 * len(T) + 2):]
    # the argument is an explicit cast (same width / wider / narrower, same or other signedness) of a register or a local
    castargs = []
    for f in SUBS:
        for ta in T:
            castargs += [f"{{ RddV = {f}(({ta}) RsV); }}", f"{{ uint32_t v = RsV; RddV = {f}(({ta}) v); }}", f"{{ RddV = {f}(({ta}) RssV); }}",
                         f"{{ int16_t h = RsV; RddV = {f}(({ta}) h) + h; }}"]
    if tier == "quick":
        castargs = rnd.sample(castargs, 70)
    return progs + castargs


def callee_tmps(sig) -> dict:
    """h_tmp names each bundled sub-routine writes, transitively through the routines it calls"""
    own, calls = {}, {}
    for s in sig["subs"]:
        own[s["name"]] = set(re.findall(r'SETL\("(h_tmp\d+)"', s["body"]))
        calls[s["name"]] = set(re.findall(r"hex_(\w+)\(", s["body"]))
    changed = True
    while changed:
        changed = False
        for n in own:
            for c in calls[n]:
                if c in own and not own[c] <= own[n]:
                    own[n] |= own[c]
                    changed = True
    return own


def extra(ctx):
    """a failing program whose caller shares a temporary name with a callee it calls belongs to the listed finding D5"""
    k2r, fails, allp, res = ctx["k2r"], ctx["fails"], ctx["programs"], ctx["res"]
    tmps = callee_tmps(k2r.sig) if k2r.sig else {}
    keep, hit = [], None
    for jid, code, of, v in fails:
        text = (k2r.results.get(jid) or {}).get("text") or ""
        mine = set(re.findall(r'"(h_tmp\d+)"', text))
        called = set(re.findall(r"hex_(\w+)\(", text))
        shared = any(mine & tmps.get(c, set()) for c in called)
        if "diff" in of and shared:
            hit = hit or code
        else:
            keep.append((jid, code, of, v))
    fails[:] = keep
    ctx["stats"]["failing_programs_sharing_a_temporary_with_a_callee"] = hit is not None
    # sub-routines registered through the public API at any time (fresh and long-lived compilers): usable, well-formed, and ISOLATED:
    # the temporaries a callee writes (transitively) must be disjoint from the temporaries of a statement that calls it
    hs = []
    rnd = ctx["rnd"]
    for i in range(16 if ctx["tier"] == "quick" else 150):
        rt, pt = rnd.choice(T), rnd.choice(T)
        body = rnd.choice(["{ return x + 1; }", "{ PT y = x; y++; return y; }", "{ if (x == 0) { return 1; } else { return 2; } }",
                           "{ return clz32(x) + x; }", "{ return clz32(x) + clo32(x); }", "{ PT y = x; return revbit32(y++) + clz32(y); }",
                           "{ RT r = x; for (i = 0; i < 2; i++) { r += i; } return r; }"]).replace("PT", pt).replace("RT", rt)
        name = f"gen_sub_{i}"
        pre = [{"c": 0, "entry": "stmt", "code": rnd.choice(["{ RdV = RsV; }", "{ RdV = clz32(RsV) + clo32(RtV); }", "{ RxV++; }", "{ int32_t a = RsV; RdV = a++ + a++; }"])}
               for _ in range(rnd.randint(0, 4))]
        steps = pre + [{"c": 0, "entry": "sub", "name": name, "ret": rt, "params": [f"{pt} x"], "code": body},
                       {"c": 0, "entry": "stmt", "code": f"{{ RddV = {name}(RsV) + {name}(RtV); }}"},
                       {"c": 0, "entry": "stmt", "code": f"{{ RddV = clz32(RtV) + {name}(RsV); }}"},
                       {"c": 0, "entry": "stmt", "code": f"{{ int32_t a = RsV; RddV = a++ + {name}(a) + clo32(RtV); }}"},
                       {"c": 1, "entry": "stmt", "code": f"{{ RddV = {name}(RsV); }}"}]
        hs.append({"id": i, "steps": steps})
    # a routine that hands ITS OWN parameter on to another routine: the argument is converted to the callee's parameter type like any other
    # argument (C11 6.5.2.2p7); inner(T2 p) { return p; }, outer(T1 x) { return inner(x); } for type pairs of different width
    fwd = []
    pairs = [(a, b) for a in T for b in T if re.search(r"\d+", a).group() != re.search(r"\d+", b).group()]
    for j, (t1, t2) in enumerate(rnd.sample(pairs, 10 if ctx["tier"] == "quick" else len(pairs))):
        inner, outer = f"gen_inner_{j}", f"gen_outer_{j}"
        hs.append({"id": 1000 + j, "steps": [{"c": 0, "entry": "sub", "name": inner, "ret": t2, "params": [f"{t2} p"], "code": "{ return p; }"},
                                             {"c": 0, "entry": "sub", "name": outer, "ret": t2, "params": [f"{t1} x"], "code": f"{{ return {inner}(x); }}"},
                                             {"c": 0, "entry": "stmt", "code": f"{{ RddV = {outer}(RssV); }}"}]})
        fwd.append((1000 + j, inner, outer, t1, t2))
    # routines whose `return` sits in a branch / after statements while a nested call of the CONDITION (or of an earlier statement) is involved:
    # the compiled body must sequence the nested call before the branch that reads its result (oracle: TmpDef.tmp_def on the real body)
    rbodies = ["{ if (clz32(x) > 3) { return 1; } else { return 0; } }", "{ if (clz32(x) > 3) { return 1; } return 0; }",
               "{ if (x > 3) { return clz32(x); } else { return clo32(x); } }", "{ PT y = x + 1; return clz32(y); }",
               "{ if (clz32(x) > clo32(x)) { if (revbit32(x) > 7) { return 2; } return 1; } return 0; }",
               "{ PT y = clz32(x); if (y > 3) { return y; } else { return clo32(y); } }"]
    rsubs = []
    for j, body in enumerate(rbodies):
        pt = rnd.choice(["uint32_t", "int32_t", "uint64_t"])
        name = f"gen_ret_{j}"
        hs.append({"id": 2000 + j, "steps": [{"c": 0, "entry": "sub", "name": name, "ret": "uint32_t", "params": [f"{pt} x"], "code": body.replace("PT", pt)},
                                             {"c": 0, "entry": "stmt", "code": f"{{ RdV = {name}(RsV); }}"}]})
        rsubs.append((2000 + j, name, pt, body.replace("PT", pt)))
    hres = k2.run_histories(hs)
    bad = []
    byid = {h["id"]: (h, hr) for h, hr in zip(hs, hres)}
    tcases = []
    for hid, name, pt, body in rsubs:
        st = byid[hid][1].get("steps", [])
        if st and st[0].get("ok"):
            try:
                tcases.append(((hid, name, pt, body), iltext.parse_body(st[0]["text"], [("x", True)])))
            except iltext.ILParseError as e:
                bad.append((byid[hid][0]["steps"][0], "malformed", str(e)))
    try:
        with common.Lock():
            td = diffrun.tmpdef_bodies("C08", tcases)
        for (hid, name, pt, body), v in td.items():
            if v is False:
                bad.append((byid[hid][0]["steps"][0], "the compiled body reads a compiler temporary before it is written",
                            f"uint32_t {name}({pt} x) {body}: the result of a nested call is used (by a branch condition / a return) before the call is sequenced"))
        ctx["stats"]["generated_routine_bodies_checked_for_temporary_order"] = len(td)
    except Exception as e:
        ctx["broken"].append(common.Broken("correspondence", "tmp_def on generated sub-routine bodies", str(e)[-800:]))
    for hid, inner, outer, t1, t2 in fwd:
        h, hr = byid[hid]
        st = hr.get("steps", [])
        if len(st) >= 2 and st[1].get("ok"):
            m_ = re.search(r"hex_" + inner + r"\((.*?)\);", st[1]["text"].replace("\n", " "))
            w2 = re.search(r"\d+", t2).group()
            # the call's own argument list (the routine is called with the packet / instruction handles first when it needs them)
            if not m_ or f"CAST({w2}," not in m_.group(1):
                bad.append((h["steps"][1], "argument not converted to the parameter type",
                            f"{outer}({t1} x) passes x to {inner}({t2} p) as `{m_.group(1) if m_ else None}`: no CAST({w2}, ...)"))
    bundled = callee_tmps(k2r.sig) if k2r.sig else {}
    n_calls = 0
    for h, hr in zip(hs, hres):
        own = dict(bundled)          # temporaries each routine writes, transitively
        rets = {}
        for st_, r in zip(h["steps"], hr.get("steps", [])):
            if not r.get("ok"):
                bad.append((st_, r.get("exc"), r.get("msg")))
                continue
            if st_["entry"] == "sub":
                rets[st_["name"]] = (not st_["ret"].startswith("u"), int(re.search(r"\d+", st_["ret"]).group()))
                t = set(re.findall(r'SETL\("(h_tmp\d+)"', r["text"]))
                for c_ in set(re.findall(r"hex_(\w+)\(", r["text"])):
                    t |= own.get(c_, set())
                own[st_["name"]] = t
            elif st_["entry"] == "stmt":
                try:
                    iltext.parse_body(r["text"])
                except iltext.ILParseError as e:
                    bad.append((st_, "malformed", str(e)))
                    continue
                # "the caller receives the return value converted to the DECLARED return type": the read of ret_val that follows a call
                # of a registered routine must have that routine's width and signedness
                for m_ in re.finditer(r"hex_(gen_sub_\d+)\([^;]*;\s*(?://[^\n]*\n\s*)*RzILOpEffect \*\w+ = SETL\(\"h_tmp\d+\", (SIGNED|UNSIGNED)\((\d+), VARL\(\"ret_val\"\)\)", r["text"]):
                    decl = rets.get(m_.group(1))
                    if decl and (decl[0] != (m_.group(2) == "SIGNED") or decl[1] != int(m_.group(3))):
                        bad.append((st_, "return value not converted to the declared return type",
                                    f"{m_.group(1)} is declared {'int' if decl[0] else 'uint'}{decl[1]}_t but its result is read as {m_.group(2)}({m_.group(3)}, ret_val)"))
                mine = set(re.findall(r'"(h_tmp\d+)"', r["text"]))
                for c_ in set(re.findall(r"hex_(\w+)\(", r["text"])):
                    n_calls += 1
                    shared = mine & own.get(c_, set())
                    # D5 (listed): the callee numbers its temporaries from h_tmp0 and the caller's counter is still that low;
                    # any OTHER overlap (a callee whose numbering does not start at 0) is a different violation
                    if shared and min(int(x[5:]) for x in own[c_]) > 0:
                        bad.append((st_, "not isolated", f"callee {c_} writes {sorted(shared)}, which the calling statement also uses as its own temporaries "
                                                         f"(callee temporaries: {sorted(own[c_])}; history: {[x['code'] for x in h['steps']]})"))
    ctx["stats"]["api_registered_sub_routine_histories"] = len(hs)
    ctx["stats"]["calls_checked_for_isolation"] = n_calls
    if bad:
        ctx["fails"].append(("history", str(bad[0][0]), [f"sub-routine registered through the public API: {bad[0][1]} {bad[0][2]}"], {"flags": 0}))


SPEC = semprop.Spec(
    prop="C08", programs=programs, oracles=("diff",), extra=extra, mask=semprop.ALL & ~(1 << 19), fresh_counter=True,
    theorems=["C08_refuted_temporary_clobbered", "C08_depends_on_counter", "C08_refuted", "C08_refuted_early_return", "C08_positive_examples", "C08_arguments_converted_to_parameter_types", "C08_arguments_nonvacuous", "C08_return_value_read_at_declared_type"],
    note="arguments of all 8 types into the bundled routines, results into 32/64-bit targets, 1-4 calls per expression, nested calls, calls next to live "
         "temporaries; sub-routines registered through add_sub_routine at random points of a history and called from two Compiler instances",
)


def run(tier):
    return semprop.run(SPEC, tier)


def replay(path):
    return semprop.replay("C08", path)
