"""Fail-closed translator: loop-free Python functions over ValueType objects -> Gallina in
heap-passing style (DESIGN Appendix C).

A Python variable holding a ValueType is a `loc`; `x.signed` / `x.bit_width` read the heap;
`x.attr = e` writes it; `deepcopy(x)` and `ValueType(s, w)` allocate.  Control flow: `if` duplicates
the continuation, `return` ends a path.  Anything not recognised raises TranslatorError.
"""
from __future__ import annotations

import ast


class TranslatorError(Exception):
    def __init__(self, msg, node=None, file=""):
        line = getattr(node, "lineno", "?")
        super().__init__(f"{file}:{line}: {msg}" + (f" [{ast.dump(node)[:200]}]" if node is not None else ""))


ATTR = {"signed": ("vsigned", "bool", "set_signed"), "bit_width": ("vbw", "N", "set_bw")}


class FnTr:
    def __init__(self, fn: ast.FunctionDef, file: str, params: dict[str, str]):
        """params: python parameter name -> type ('loc' | 'bool' | 'N')"""
        self.fn = fn
        self.file = file
        self.params = params
        self.fresh = 0

    def err(self, msg, node=None):
        raise TranslatorError(msg, node, self.file)

    # -- expressions -------------------------------------------------------------------
    def expr(self, e, env) -> tuple[str, str]:
        """returns (coq text, type)"""
        if isinstance(e, ast.Constant):
            if isinstance(e.value, bool):
                return ("true" if e.value else "false"), "bool"
            if isinstance(e.value, int):
                return f"{e.value}%N", "N"
            self.err("constant", e)
        if isinstance(e, ast.Name):
            if e.id not in env:
                self.err(f"unbound name {e.id}", e)
            return env[e.id]
        if isinstance(e, ast.Attribute) and isinstance(e.value, ast.Name):
            v, t = self.expr(e.value, env)
            if t != "loc" or e.attr not in ATTR:
                self.err("attribute", e)
            f, ty, _ = ATTR[e.attr]
            return f"({f} (rd h {v}))", ty
        if isinstance(e, ast.Compare) and len(e.ops) == 1:
            a, ta = self.expr(e.left, env)
            b, tb = self.expr(e.comparators[0], env)
            if ta != tb:
                self.err("compare of different types", e)
            op = e.ops[0]
            if ta == "bool":
                if isinstance(op, ast.Eq):
                    return f"(Bool.eqb {a} {b})", "bool"
                if isinstance(op, ast.NotEq):
                    return f"(negb (Bool.eqb {a} {b}))", "bool"
                self.err("bool compare", e)
            if ta == "N":
                tbl = {ast.Eq: "{a} =? {b}", ast.NotEq: "negb ({a} =? {b})", ast.Lt: "{a} <? {b}", ast.LtE: "{a} <=? {b}",
                       ast.Gt: "{b} <? {a}", ast.GtE: "{b} <=? {a}"}
                for k, fmt in tbl.items():
                    if isinstance(op, k):
                        return "(" + fmt.format(a=a, b=b) + ")%N", "bool"
            self.err("compare", e)
        if isinstance(e, ast.BoolOp):
            parts = [self.expr(v, env) for v in e.values]
            if any(t != "bool" for _, t in parts):
                self.err("boolop on non-bool", e)
            op = " && " if isinstance(e.op, ast.And) else " || "
            return "(" + op.join(p for p, _ in parts) + ")", "bool"
        if isinstance(e, ast.UnaryOp) and isinstance(e.op, ast.Not):
            a, t = self.expr(e.operand, env)
            if t != "bool":
                self.err("not on non-bool", e)
            return f"(negb {a})", "bool"
        if isinstance(e, ast.Tuple):
            parts = [self.expr(x, env) for x in e.elts]
            return "(" + ", ".join(p for p, _ in parts) + ")", "(" + "*".join(t for _, t in parts) + ")"
        if isinstance(e, ast.IfExp):
            c, tc = self.expr(e.test, env)
            a, ta = self.expr(e.body, env)
            b, tb = self.expr(e.orelse, env)
            if tc != "bool" or ta != tb:
                self.err("ifexp", e)
            return f"(if {c} then {a} else {b})", ta
        self.err("unsupported expression", e)

    # -- statements --------------------------------------------------------------------
    def stmts(self, body, env, ind="  ") -> str:
        if not body:
            self.err("path falls off the end of the function (implicit None)", self.fn)
        s, rest = body[0], body[1:]
        if isinstance(s, ast.Expr) and isinstance(s.value, ast.Constant) and isinstance(s.value.value, str):
            return self.stmts(rest, env, ind)  # docstring
        if isinstance(s, ast.Return):
            v = s.value
            if isinstance(v, ast.Call):
                self.fresh += 1
                tmp = f"ret{self.fresh}"
                asg = ast.Assign(targets=[ast.Name(id=tmp, ctx=ast.Store())], value=v, lineno=s.lineno)
                ret = ast.Return(value=ast.Name(id=tmp, ctx=ast.Load()), lineno=s.lineno)
                return self.stmts([asg, ret], env, ind)
            p, _ = self.expr(v, env)
            return ind + f"(h, {p})"
        if isinstance(s, ast.Assign) and len(s.targets) == 1:
            tgt, val = s.targets[0], s.value
            if isinstance(tgt, ast.Name):
                name = tgt.id
                if isinstance(val, ast.Call) and isinstance(val.func, ast.Name) and val.func.id == "deepcopy" and len(val.args) == 1:
                    a, t = self.expr(val.args[0], env)
                    if t != "loc":
                        self.err("deepcopy of non-object", s)
                    env2 = dict(env)
                    env2[name] = (name, "loc")
                    return ind + f"let '(h, {name}) := deepcopy h {a} in\n" + self.stmts(rest, env2, ind)
                if isinstance(val, ast.Call) and isinstance(val.func, ast.Name) and val.func.id == "ValueType" and len(val.args) == 2 and not val.keywords:
                    a, ta = self.expr(val.args[0], env)
                    b, tb = self.expr(val.args[1], env)
                    if (ta, tb) != ("bool", "N"):
                        self.err("ValueType(...) arguments", s)
                    env2 = dict(env)
                    env2[name] = (name, "loc")
                    return ind + f"let '(h, {name}) := alloc h {{| vsigned := {a}; vbw := {b} |}} in\n" + self.stmts(rest, env2, ind)
                e, t = self.expr(val, env)
                env2 = dict(env)
                env2[name] = (name, t)
                return ind + f"let {name} := {e} in\n" + self.stmts(rest, env2, ind)
            if isinstance(tgt, ast.Attribute) and isinstance(tgt.value, ast.Name) and tgt.attr in ATTR:
                o, t = self.expr(tgt.value, env)
                if t != "loc":
                    self.err("attribute store on non-object", s)
                e, te = self.expr(val, env)
                f, ty, setter = ATTR[tgt.attr]
                if te != ty:
                    self.err("attribute store type", s)
                return ind + f"let h := {setter} h {o} {e} in\n" + self.stmts(rest, env, ind)
            self.err("assignment target", s)
        if isinstance(s, ast.If):
            c, t = self.expr(s.test, env)
            if t != "bool":
                self.err("if on non-bool", s)
            a = self.stmts(list(s.body) + rest, env, ind + "  ")
            b = self.stmts(list(s.orelse) + rest, env, ind + "  ")
            return ind + f"if {c} then\n{a}\n" + ind + f"else\n{b}"
        self.err("unsupported statement", s)

    def translate(self, coq_name: str, ret: str) -> str:
        args = [a.arg for a in self.fn.args.args]
        if set(args) != set(self.params):
            self.err(f"parameters {args} differ from expected {list(self.params)}", self.fn)
        env = {a: (a, self.params[a]) for a in args}
        sig = " ".join(f"({a} : {self.params[a]})" for a in args)
        body = self.stmts(list(self.fn.body), env)
        return f"Definition {coq_name} (h : heap) {sig} : heap * {ret} :=\n{body}.\n"


def find_function(tree: ast.Module, name: str, cls: str | None = None) -> ast.FunctionDef:
    scope = tree.body
    if cls:
        for n in tree.body:
            if isinstance(n, ast.ClassDef) and n.name == cls:
                scope = n.body
                break
        else:
            raise TranslatorError(f"class {cls} not found")
    found = [n for n in scope if isinstance(n, ast.FunctionDef) and n.name == name]
    if not found:
        raise TranslatorError(f"function {name} not found")
    return found


def segment(src: str, node) -> str:
    return ast.get_source_segment(src, node) or ""
