"""Shared driver of the properties decided through the tree-level model (C01-C03, C05, C06, C08-C12, C15, C16).

Per run:  regenerate gen/  ->  build props/<id>.vo  ->  K2 correspondence (model vs implementation)
on the property's program set  ->  oracle evaluation on the REAL outputs (inside Coq)  ->  known
findings replay  ->  verdict.

Oracles (all computed by Coq functions, see tools/vt/diffrun.py):
  diff    C semantics vs RzIL semantics of the real body over boundary/random states
  sorted  wf_effect on the denotation of the real body (every arm / loop body)
  wf      wf_body on the real body        linear  Own.linear on the real body
A program counts against the property only if it is IN THE GUARD of the property's theorem, i.e. its
guard flags (model/Guards.v) do not intersect `mask`.  Programs outside the guard belong to a listed
known-finding class; they are still compared by K2 (any change of behaviour is detected there).
"""
from __future__ import annotations

import json
import re
import random
import time
from dataclasses import dataclass, field

from . import common, diffrun, iltext, k2
from .common import Broken, Result

FLAG_NAMES = {0: "D3 cast fill", 1: "D1 shift promotion", 2: "D2 logical result as int", 3: "D13 compare/?: promotion",
              4: "D14 compound assignment", 5: "D6 literals", 6: "D19 div/mod", 7: "D20 address width", 16: "D4 leftover hybrid",
              17: "D7 dropped construct", 18: "D8 removed declaration", 19: "calls a sub-routine", 20: "model rejects"}
ALL = (1 << 21) - 1


def flag_text(f: int) -> str:
    return ", ".join(n for b, n in FLAG_NAMES.items() if f >> b & 1) or "none"


@dataclass
class Spec:
    prop: str
    programs: object  # callable(tier, rnd) -> list[str]
    oracles: tuple = ("diff",)
    mask: int = ALL  # guard bits that exclude a program from the oracle verdict
    formats: tuple = ("READ_STATEMENTS",)
    theorems: list = field(default_factory=list)
    trusted: list = field(default_factory=list)
    note: str = ""
    extra: object = None  # callable(ctx) -> None for property specific checks
    fresh_counter: bool = False  # compile every program with hybrid_op_count = 0 (needed to compare layouts)


def regenerate(broken):
    from . import tr_resources, tr_typerules
    meta = {}
    for name, mod in (("G1 tr_typerules", tr_typerules), ("G7 tr_resources", tr_resources)):
        try:
            meta[name] = mod.run()
        except Exception as e:
            broken.append(Broken("translator", name, str(e)[:1500]))
    try:
        from . import tr_optables
        meta["G2 tr_optables"] = tr_optables.run()
    except ImportError:
        pass
    except Exception as e:
        broken.append(Broken("translator", "G2 tr_optables", str(e)[:1500]))
    return meta


SUB_NAMES = ("clz32", "clz64", "clo32", "clo64", "revbit16", "revbit32", "revbit64", "fbrev", "conv_round", "fcirc_add", "trap", "set_usr_field", "get_usr_field")


def _sexp(term):
    toks = re.findall(r'"[^"]*"|\(|\)|[^\s()]+', term)
    pos = 0

    def rd():
        nonlocal pos
        t = toks[pos]
        pos += 1
        if t == "(":
            l = []
            while toks[pos] != ")":
                l.append(rd())
            pos += 1
            return l
        return t
    return rd()


def construct_present(name: str, ast_txt: str) -> bool:
    """syntactic classes of constructs used by class-level findings"""
    if name == "side-effect-in-cond-arm":
        # a ?: with a NON-constant condition one of whose arms contains a postfix ++/--, an assignment or a sub-routine call
        # that is not wrapped in a statement-expression
        try:
            tree = _sexp(ast_txt)
        except Exception:
            return False

        def has_effect(x):
            if not isinstance(x, list):
                return False
            if x and x[0] in ("EPost", "EAssign"):
                return True
            if x and x[0] == "ECall" and len(x) > 1 and x[1].strip('"') in SUB_NAMES:
                return True
            if x and x[0] == "EStmtExpr":
                return False
            return any(has_effect(y) for y in x)

        def walk(x):
            if not isinstance(x, list):
                return False
            if x and x[0] == "ECond" and len(x) == 4:
                const = isinstance(x[1], list) and x[1] and x[1][0] == "EOp" and isinstance(x[1][1], list) and x[1][1][0] == "ONum"
                if not const and (has_effect(x[2]) or has_effect(x[3])):
                    return True
            return any(walk(y) for y in x)
        return walk(tree)
    return False


def operands_consistent(code: str) -> bool:
    """an ISA operand letter names ONE operand of the instruction: a generated program that uses the same class and letter both as a
    single register and as a pair (RsV and RssV) is not a behaviour any instruction can have"""
    single = set(re.findall(r"\b([RCMPNVQ])([a-z])[VN]\b", code))
    pair = {(c, l[0]) for c, l in re.findall(r"\b([RCMPNVQ])([a-z]{2})[VN]\b", code) if l[0] == l[1]}
    return not (single & pair)


def sym_lookup(known_sym: dict, c: str):
    """exact symptom class, else a listed pattern with `*` (e.g. linear:DPure:*:raw=0)"""
    if c in known_sym:
        return c
    import fnmatch
    for pat in known_sym:
        if any(ch in pat for ch in "*?[") and fnmatch.fnmatchcase(c, pat):
            return pat
    return None


def cause_ok(kf: dict, code: str, ast_txt: str, flags: int) -> bool:
    """A symptom-class finding is recognised only where its recorded CAUSE is present in the source program: the same
    symptom with another cause is a different violation and is reported."""
    causes = kf.get("cause")
    if not causes:
        return True
    for c in causes:
        if c == "dead-arm" and flags >= 0 and (flags >> 18) & 1:          # the model removed a declaration with a dead ?: arm
            return True
        if c == "const-cond":
            num = r'\(EOp \(ONum \(-?\d+\) \w+ "[^"]*"\)\)'
            if re.search(r"\(ECond (" + num + r"|\(ECast \[[^\]]*\] " + num + r"\)|\(E(Bin|Un) \w+ " + num + ")", ast_txt):
                return True
            if re.search(r'\(ECond \((ECall "sizeof"|EUn USizeofE)', ast_txt):       # sizeof(..) is a compile-time constant as well
                return True
        if c == "discarded-value" and re.search(r"\(SExpr \((EBin|ELoad|ECast|EUn|EOp|ECond|EMacro) ", ast_txt):
            return True
        if c == "sizeof" and ("USizeofE" in ast_txt or "ECall \"sizeof\"" in ast_txt):
            return True
        if c == "stmt-expr" and "EStmtExpr" in ast_txt:
            return True
        if c == "rw-only-written":
            for m in set(re.findall(r"\b[RCPM][xyz]{1,2}V\b", code)):
                uses = len(re.findall(r"\b" + m + r"\b", code))
                writes = len(re.findall(r"\b" + m + r"\s*=(?!=)", code))
                if uses == writes:
                    return True
    return False


def oracle_fails(v: dict, oracles) -> list[str]:
    out = []
    if "diff" in oracles and v["bad"]:
        out.append("diff")
    if "sorted" in oracles and not v["sorted"]:
        out.append("sorted")
    if "tmpdef" in oracles and not v.get("tmpdef", True):
        out.append("tmpdef")
    if "wf" in oracles and not v["wf"]:
        out.append("wf")
    if "linear" in oracles and not v["linear"]:
        out.append("linear")
    return out


def run(spec: Spec, tier: str) -> int:
    res = Result(spec.prop, tier)
    rnd = random.Random(common.seed() * 1000 + int(spec.prop[1:]))
    broken: list[Broken] = []
    known = common.load_known(spec.prop)
    known_codes = {k["witness"]["code"]: k for k in known if "code" in k.get("witness", {})}
    with common.Lock():
        meta = regenerate(broken)
        b2, binfo = common.build_property(spec.prop, ["model/Guards.vo", "sem/Diff.vo", "proofs/SortSound.vo", "proofs/TmpDef.vo"])
        broken += b2
        model_ok = not any(x.kind in ("proof", "translator", "forbidden") for x in broken)
        progs = [c for c in dict.fromkeys(spec.programs(tier, rnd)) if operands_consistent(c)]
        witness_progs = [c for c in known_codes if c not in progs]
        allp = progs + witness_progs
        jobs = []
        for fmt in spec.formats:
            jobs += [{"id": f"{fmt}:{i}", "code": c, "fmt": fmt, "fresh_counter": spec.fresh_counter} for i, c in enumerate(allp)]
        t1 = time.time()
        stats = {"programs": len(progs), "formats": list(spec.formats)}
        violations = []
        k2r = None
        probes = {}
        excess_hits = {}
        dis = []
        try:
            if model_ok:
                k2r = k2.compare(spec.prop, [j for j in jobs if j["fmt"] == spec.formats[0]])
                if k2r.error:
                    broken.append(Broken("correspondence", "K2 case files", k2r.error[-1500:]))
            else:
                k2r = k2.K2Result()
                py = k2.run_python(jobs)
                k2r.sig = py["signatures"]
                for r in py["results"]:
                    k2r.results[r["id"]] = r
        except Exception as e:
            broken.append(Broken("correspondence", "K2 harness", str(e)[-1500:]))
            k2r = k2r or k2.K2Result()
        stats["k2_s"] = round(time.time() - t1, 1)
        # statuses
        st_count = {}
        dis = []
        for jid, st in k2r.statuses.items():
            st_count[str(st)] = st_count.get(str(st), 0) + 1
            if st in (2, 3, 4, 5, 6):
                dis.append(jid)
        stats["k2_status"] = st_count
        # a generated program the compiler ACCEPTS but whose parse tree the AST reader cannot map is outside everything decided below:
        # never skip it silently (C15 turns it into a failing input of its own; elsewhere the generators stay inside the reader's dialect)
        unm_ok = [jid for jid, st in k2r.statuses.items() if st == "unmapped" and k2r.results.get(jid, {}).get("ok")]
        if unm_ok and spec.prop != "C15":
            broken.append(Broken("correspondence", "tools/vt/tree2ast.py cannot map the parse tree of a program the compiler accepts",
                                 f"{len(unm_ok)} programs; first: {allp[int(unm_ok[0].split(':')[1])]} ({k2r.unmapped.get(unm_ok[0])})"))
        if dis:
            idx = int(dis[0].split(":")[1])
            broken.append(Broken("correspondence", "K2 model/Lower.v vs RZILTransformer",
                                 f"{len(dis)} disagreeing programs; first (status {k2r.statuses[dis[0]]}): {allp[idx]}"))
        # other formats: run python for them too (needed by C11/C12/C16)
        if len(spec.formats) > 1 and model_ok:
            py = k2.run_python([j for j in jobs if j["fmt"] != spec.formats[0]], want_sig=False)
            for r in py["results"]:
                k2r.results[r["id"]] = r
        # oracle on real outputs
        t2 = time.time()
        cases = []
        malformed = {}
        for jid, r in k2r.results.items():
            if r.get("ok") and "ast" in r:
                try:
                    body = k2r.bodies.get(jid) or iltext.parse_body(r["text"])
                    k2r.bodies[jid] = body
                    cases.append((jid, r["ast"], body))
                except iltext.ILParseError as e:
                    malformed[jid] = str(e)
        try:
            if set(spec.oracles) <= {"wf", "linear"}:
                probes = diffrun.probe_light(spec.prop, cases)
            else:
                probes = diffrun.probe(spec.prop, cases, diffrun.seeds_for(tier, common.seed()))
        except Exception as e:
            broken.append(Broken("correspondence", "oracle evaluation (sem/Diff.v on real bodies)", str(e)[-1500:]))
        stats["oracle_s"] = round(time.time() - t2, 1)

        # K2 disagreements: look for a state on which the REAL output is wrong while the model (known defects included) is not
        excess_hits = {}
        xs = [(jid, 0 if spec.fresh_counter else (k2r.results[jid].get("hpre") or 0), k2r.results[jid]["ast"], k2r.bodies[jid])
              for jid in dis if k2r.statuses.get(jid) in (2, 3, 4) and jid in k2r.bodies and "ast" in k2r.results.get(jid, {})][:40]
        if xs and model_ok:
            try:
                excess_hits = diffrun.excess(spec.prop, xs)
            except Exception as e:
                broken.append(Broken("correspondence", "excess oracle on K2-disagreeing programs", str(e)[-800:]))
        stats["k2_disagreeing_programs_with_a_wrong_state"] = len(excess_hits)

    # ---- verdict -----------------------------------------------------------------------------
    in_guard = defined = 0
    klass = {}
    fails = []
    for jid, (sd, kind) in list(excess_hits.items())[:3]:
        code = allp[int(jid.split(":")[1])]
        if code not in known_codes:
            fails.append((jid, code, ["diff (the real output is wrong on a state on which the model of the current tree is right; K2 disagrees on this program)"],
                          {"flags": 0, "bad": (sd, kind)}))
    for jid, v in probes.items():
        fmt, i = jid.split(":")
        code = allp[int(i)]
        if v is None:
            if code in known_codes:
                continue
            fails.append((jid, code, ["does-not-denote"], {"flags": -1}))
            continue
        f = v["flags"] & spec.mask
        klass[flag_text(v["flags"])] = klass.get(flag_text(v["flags"]), 0) + 1
        of = oracle_fails(v, spec.oracles)
        if code in known_codes:
            continue
        if f == 0:
            in_guard += 1
            if v["defined"] > 0:
                defined += 1
            if of:
                fails.append((jid, code, of, v))
    for jid, msg in malformed.items():
        code = allp[int(jid.split(":")[1])]
        if "wf" in spec.oracles and code not in known_codes:
            fails.append((jid, code, ["malformed-text: " + msg], {"flags": 0}))
    # invalid C identifiers in an otherwise readable body
    if "wf" in spec.oracles:
        for jid, b in k2r.bodies.items():
            if getattr(b, "invalid_names", None) and allp[int(jid.split(":")[1])] not in known_codes:
                fails.append((jid, allp[int(jid.split(":")[1])], ["malformed-text: invalid C identifiers " + ", ".join(b.invalid_names)], {"flags": 0}))
    # construct classes: a differential failure of a program that contains the construct a listed finding names (and whose
    # witness still fails) belongs to that finding; any other failing program is reported
    klass_known = [k for k in known if k.get("construct_class")]
    if klass_known and fails:
        keep = []
        for jid, code, of, v in fails:
            ast_txt = (k2r.results.get(jid) or {}).get("ast") or ""
            hit = next((k for k in klass_known if set(of) <= {"diff"} and construct_present(k["construct_class"], ast_txt)), None) if ast_txt else None
            if hit:
                res.known(f"{hit['id']}: {hit['what']} -- construct class {hit['construct_class']}, e.g. {hit['witness'].get('code', code)}")
            else:
                keep.append((jid, code, of, v))
        fails[:] = keep
    # symptom classes: a wf / linear failure whose symptoms are all listed (known_findings 'symptom') is a known finding
    known_syml = [k for k in known if "symptom" in k]
    known_sym = {k["id"]: k for k in known_syml}

    def find_known(c, code, ast_txt, flags):
        """the listed finding (id) whose symptom (exact or pattern) matches c and whose recorded cause is present, else None"""
        import fnmatch
        for k in known_syml:
            pat = k["symptom"]
            if (pat == c or (any(ch in pat for ch in "*?[") and fnmatch.fnmatchcase(c, pat))) and cause_ok(k, code, ast_txt, flags):
                return k["id"]
        return None
    if known_sym and fails:
        items = [(jid, k2r.bodies[jid]) for jid, _, of, _ in fails if jid in k2r.bodies and any(o in ("wf", "linear") for o in of)]
        offs = {}
        try:
            offs = diffrun.offenders(spec.prop, list(dict(items).items()))
        except Exception as e:
            broken.append(Broken("correspondence", "symptom classification", str(e)[-800:]))
        keep, seen_sym = [], {}
        for jid, code, of, v in fails:
            classes = set()
            if jid in offs:
                oc = diffrun.symptom_classes(offs[jid])
                classes |= {c for c in oc if c.split(":")[0] in of}
            for o in of:
                if o.startswith("malformed-text"):
                    classes.add("malformed:" + ("invalid-identifier" if "invalid C identifiers" in o else "float-literal" if ".0" in o or "bad token" in o else "other"))
                elif o not in ("wf", "linear"):
                    classes.add("other:" + o)
            ast_txt = (k2r.results.get(jid) or {}).get("ast") or ""
            matched = {c: find_known(c, code, ast_txt, v.get("flags", 0)) for c in classes}
            if classes and all(matched[c] is not None for c in classes):
                for c in classes:
                    seen_sym.setdefault(matched[c], code)
            else:
                v = dict(v)
                v["symptoms"] = sorted(classes)
                keep.append((jid, code, of, v))
        fails[:] = keep
        for c, code in seen_sym.items():
            kf = known_sym[c]
            res.known(f"{kf['id']}: {kf['what']} -- symptom {kf['symptom']}, e.g. {kf['witness'].get('code', code)}")
        stats["known_symptom_classes_seen"] = sorted(seen_sym)
    # known findings: still failing?
    for code, kf in known_codes.items():
        still = False
        for fmt in spec.formats:
            jid = f"{fmt}:{allp.index(code)}"
            r = k2r.results.get(jid, {})
            v = probes.get(jid)
            kind = kf.get("oracle", "diff")
            if kind == "accepted-but-unsupported":
                still |= bool(r.get("ok"))
            elif kind == "rejected":
                still |= not r.get("ok", False)
            elif kind == "malformed-text":
                still |= jid in malformed
            elif kind == "invalid-identifier":
                still |= bool(getattr(k2r.bodies.get(jid), "invalid_names", None))
            elif kind == "layout-accept":
                oks = {bool(k2r.results.get(f"{f2}:{allp.index(code)}", {}).get("ok")) for f2 in spec.formats}
                still |= len(oks) > 1
            elif v is None:
                still |= bool(r.get("ok")) and kind in ("wf", "denote")
            else:
                still |= bool(oracle_fails(v, (kind,)))
        if still:
            res.known(f"{kf['id']}: {kf['what']} -- witness {code}")
    if spec.extra:
        try:
            spec.extra({"res": res, "k2r": k2r, "probes": probes, "programs": allp, "broken": broken, "fails": fails,
                        "known_codes": known_codes, "malformed": malformed, "tier": tier, "rnd": rnd, "stats": stats})
        except Exception as e:
            broken.append(Broken("correspondence", "property specific check", repr(e)[-1500:]))
    for jid, code, of, v in fails[:1]:
        r = k2r.results.get(jid, {})
        res.violation({"what": f"oracle(s) {of} fail on the real output of a program inside the guard of {spec.prop}",
                       "input": code, "layout": jid.split(":")[0], "failing_state_seed_and_kind": v.get("bad"),
                       "guard_flags": v.get("flags"), "emitted": r.get("text"), "broken": [vars(x) for x in broken],
                       "all_failing_inputs": [c for _, c, _, _ in fails[:20]]})
    if broken and not fails:
        res.violation({"what": "a proof obligation, translator or correspondence no longer checks; the oracle search over "
                               f"{in_guard} in-guard programs ({defined} with defined C behaviour) found no failing input",
                       "broken": [vars(x) for x in broken]}, no_input=True)
    res.assumptions = spec.trusted + [
        "Coq 8.16.1 kernel + vm_compute; no axioms beyond those listed under print_assumptions",
        "sem/RzIL.v (RzIL meaning, plugin macro contract T3/T4), sem/CSem.v (C11 + QEMU conventions, T5)",
        "tools/vt/iltext.py + tree2ast.py (parsers of emitted text / Lark trees), tools/vt/pytr.py translators",
        "model/Lower.v is hand-written and tied to RZILTransformer.py by the K2 correspondence of this run",
    ]
    samples = [{"program": allp[int(j.split(":")[1])], "k2_status": k2r.statuses.get(j), "probe": probes.get(j)}
               for j in list(k2r.results)[:3]]
    nontriv = len({allp[int(j.split(":")[1])] for j, s in k2r.statuses.items() if s == 0})
    res.coverage = {
        "obligations": binfo["obligations"], "discharged": binfo["discharged"] if model_ok else 0,
        "checker_cmd": binfo["checker_cmd"], "trusted_base": res.assumptions, "print_assumptions": binfo["assumptions"],
        "theorems": spec.theorems, "translated": meta,
        "evaluations": len(k2r.results), "distinct_nontrivial": nontriv,
        "rule": "programs from the property's seeded generators; non-trivial = accepted by the implementation and compared "
                "tree-for-tree with the model (K2 status 0); oracle verdicts counted only inside the guard",
        "k2": stats, "in_guard_programs": in_guard, "in_guard_with_defined_C_behaviour": defined,
        "guard_classes": klass, "oracles": list(spec.oracles), "samples": samples, "broken": [vars(x) for x in broken],
        "note": spec.note,
    }
    return res.finish()


def replay(prop: str, path: str) -> int:
    d = json.load(open(path))
    code = d.get("input")
    if not code:
        print("no concrete input recorded; broken obligations:", json.dumps(d.get("broken"), indent=1)[:3000])
        return 1
    py = k2.run_python([{"id": "x:0", "code": code, "fmt": d.get("layout", "READ_STATEMENTS")}], want_sig=False)
    r = py["results"][0]
    print("input:", code)
    print("emitted now:\n", r.get("text") or r)
    if r.get("ok") and "ast" in r:
        pr = diffrun.probe(prop + "_replay", [("x:0", r["ast"], iltext.parse_body(r["text"]))], diffrun.seeds_for("thorough", common.seed()))
        print("oracle now:", pr.get("x:0"))
    print("recorded:", d.get("failing_state_seed_and_kind"), d.get("what"))
    return 0
