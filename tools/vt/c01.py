"""C01 — shipped behaviours are translated faithfully end to end (whole bundled corpus + sub-routines)."""
from __future__ import annotations

import json
import random
import time

from . import common, corpus, diffrun, iltext, k2, semprop
from .common import Broken, Result

FLOAT_HEADS = {"BV2F", "F2BV", "FADD", "FSUB", "FMUL", "FDIV", "FEQ", "FLT", "FGT", "FLE", "FGE", "HEX_INT_TO_D", "HEX_INT_TO_F",
               "HEX_SINT_TO_D", "HEX_SINT_TO_F", "HEX_D_TO_INT", "HEX_F_TO_INT", "HEX_D_TO_SINT", "HEX_F_TO_SINT", "IS_INF", "HEX_SETROUND"}


def sub_routine_checks(prop: str, seeds):
    """K2 for the 13 bundled sub-routines (model with the routine's parameters/return type vs the real
    compiled body) and the differential oracle through a wrapper call where all parameters are values."""
    hdr = corpus.HEADER + """
Definition sub_status (x : string * (body * config * cstmts)) : N :=
  let '(_, (b, c, p)) := x in
  match tlower_checked c p, denote b with
  | OK (e, _), Some e' => if effect_eqb (canon e) (canon e') then 0 else 4
  | OK _, None => 5
  | Err _, _ => 3
  end%N.
Eval vm_compute in (map sub_status sub_bodies).
Eval vm_compute in (map (fun x => wf_body (fst (fst (snd x))) && linear (fst (fst (snd x)))) sub_bodies).
"""
    ok, outs, err = common.run_case_files(prop + "_subs", {"subs": hdr}, timeout=600)
    if not ok:
        raise RuntimeError(err[-2000:])
    vals = common.coq_printed_values(outs["subs"])
    import re
    st = [int(x) for x in re.findall(r"\d+", vals[0].replace("%N", ""))]
    wl = [x == "true" for x in re.findall(r"true|false", vals[1])]
    return st, wl


def run(tier: str) -> int:
    res = Result("C01", tier)
    rnd = random.Random(common.seed() + 1)
    broken: list[Broken] = []
    known = common.load_known("C01")
    known_sites = {k["witness"]["insn"]: k for k in known if "insn" in k.get("witness", {})}
    stats = {}
    with common.Lock():
        meta = semprop.regenerate(broken)
        b2, binfo = common.build_property("C01", ["model/Guards.vo", "sem/Diff.vo", "proofs/SortSound.vo", "proofs/TmpDef.vo", "proofs/FragCheck.vo"])
        broken += b2
        model_ok = not any(x.kind in ("proof", "translator", "forbidden") for x in broken)
        t0 = time.time()
        all_names = corpus.names()
        noped = corpus.noped_list()
        if tier == "quick":
            # a sample that COVERS every (operand class, operator, operand class) triple / called routine / cast type of the corpus
            from . import featcover
            cov, nfeat = featcover.cover(set(all_names))
            stats["feature_cover"] = {"features": nfeat, "instructions": len(cov)}
            sample = sorted(set(cov) | set(rnd.sample(all_names, 50)) | {n for n in known_sites if n in all_names})
            sample = list(dict.fromkeys(sample))
        else:
            sample = all_names
        results = corpus.compile_insns(sample)
        stats["compile_s"] = round(time.time() - t0, 1)
        t1 = time.time()
        out, info, bodies = {}, {}, {}
        substat, subwl = [], []
        try:
            out, info, bodies = corpus.evaluate("C01", results, diffrun.seeds_for(tier, common.seed()), noped)
            substat, subwl = sub_routine_checks("C01", None)
        except Exception as e:
            broken.append(Broken("correspondence", "corpus evaluation (K2 + oracles in Coq)", str(e)[-1500:]))
        stats["evaluate_s"] = round(time.time() - t1, 1)
    byid = {r["id"]: r for r in results}
    k2_bad, fails = [], []
    n_parts = n_acc = n_rej = in_guard = in_guard_def = 0
    klass = {}
    known_hit = set()
    for i, parts in out.items():
        r = byid[i]
        for j, p in enumerate(parts):
            n_parts += 1
            if p["k2"] not in (0, 1):
                k2_bad.append((r["name"], j, p["k2"]))
                # the differential oracle judges the REAL output against the C semantics: its verdict stands without the model
                if p.get("bad") and r["name"] not in known_sites:
                    fails.append((r["name"], j, p))
                continue
            if p["k2"] == 1:
                n_rej += 1
                continue
            n_acc += 1
            ft = semprop.flag_text(p["flags"] & ~(1 << 19))
            klass[ft] = klass.get(ft, 0) + 1
            if p["bad"]:
                if r["name"] in known_sites:
                    known_hit.add(r["name"])
                elif (p["flags"] & ~(1 << 19)) == 0 or True:
                    # every accepted corpus part counts: a part that fails and is not a listed call site is a violation
                    fails.append((r["name"], j, p))
            if (p["flags"] & ~(1 << 19)) == 0:
                in_guard += 1
                in_guard_def += p["defined"] > 0
    # parts on which model and code disagree and the 24/96 standard states show nothing: many more states for just those parts
    retry = [(r_name, j) for r_name, j, st in k2_bad if st in (2, 3, 4) and not any(f[0] == r_name and f[1] == j for f in fails) and r_name not in known_sites][:24]
    if retry:
        byname = {r["name"]: r for r in results}
        cases = []
        for r_name, j in retry:
            r = byname[r_name]
            if (r["id"], j) in bodies and r.get("asts") and r["asts"][j]:
                cases.append((f"{r_name}#{j}", r["asts"][j], bodies[(r["id"], j)]))
        try:
            with common.Lock():
                more = diffrun.probe("C01_retry", cases, [(common.seed() * 17 + i * 13 + 5) % 100003 for i in range(200)])
            for cid, v in more.items():
                if v and v.get("bad"):
                    n_, j_ = cid.rsplit("#", 1)
                    fails.append((n_, int(j_), v))
            stats["k2_disagreeing_parts_retried_with_200_states"] = len(cases)
        except Exception as e:
            broken.append(Broken("correspondence", "retry of the oracle on K2-disagreeing parts", str(e)[-800:]))
    # the sample shows a disagreement between model and code but no wrong result: SEARCH the rest of the corpus for a failing part
    if tier == "quick" and k2_bad and not fails:
        rest = [n for n in all_names if n not in set(sample)]
        try:
            with common.Lock():
                res2 = corpus.compile_insns(rest)
                out2, info2, bodies2 = corpus.evaluate("C01_search", res2, diffrun.seeds_for("thorough", common.seed()), noped)
            byid2 = {r["id"]: r for r in res2}
            for i, parts in out2.items():
                for j, p in enumerate(parts):
                    if p.get("bad") and byid2[i]["name"] not in known_sites:
                        fails.append((byid2[i]["name"], j, p))
                        results.append(byid2[i])
            stats["searched_rest_of_corpus_for_a_failing_part"] = len(rest)
        except Exception as e:
            broken.append(Broken("correspondence", "search of the rest of the corpus", str(e)[-800:]))
    # counter sweep: the instructions that use SEVERAL compiler temporaries, compiled as a Compiler would whose temporary counter stands just
    # below a digit-length boundary (h_tmp9 / h_tmp10, h_tmp99 / h_tmp100): the translation must be the same up to the numbering
    # (model: proofs/HShift.v), in particular the order in which the pending operations are sequenced
    try:
        multi = [r["name"] for r in results if r.get("ok") and (r.get("hpost") or 0) - (r.get("hpre") or 0) >= 2]
        if multi:
            starts = [9] * len(multi) + ([8] * len(multi) + [99] * len(multi) if tier != "quick" else [99] * min(8, len(multi)))
            names_sw = multi + (multi + multi if tier != "quick" else rnd.sample(multi, min(8, len(multi))))
            with common.Lock():
                res_sw = corpus.compile_insns(names_sw, hstart=starts)
                out_sw, _, _ = corpus.evaluate("C01_sweep", res_sw, diffrun.seeds_for("quick", common.seed()), noped)
            by_sw = {r["id"]: r for r in res_sw}
            n_sw = 0
            for i, parts in out_sw.items():
                r = by_sw[i]
                for j, p in enumerate(parts):
                    n_sw += 1
                    if r["name"] in known_sites:
                        continue
                    if p["k2"] not in (0, 1):
                        k2_bad.append((r["name"] + f"@h_tmp{r.get('hpre')}", j, p["k2"]))
                    if p.get("bad"):
                        fails.append((r["name"], j, dict(p, counter_at_entry=r.get("hpre"))))
                        results.append(dict(r, id=-1 - len(results)))
            # parts on which the code at this counter and the model disagree: does the real effect read a temporary before writing it?
            # (sem/TmpCheck.tdefS, sound by proofs/TmpCheckProofs.v: the C value of such a run is then the value of a stale temporary)
            dis_sw = [(i, j) for i, parts in out_sw.items() for j, p in enumerate(parts) if p["k2"] in (2, 3, 4) and by_sw[i]["name"] not in known_sites]
            if dis_sw:
                _, _, bodies_sw = corpus.evaluate("C01_sweep_b", [by_sw[i] for i, _ in dis_sw], [], noped)
                cases_sw = [(f"{i}#{j}", by_sw[i]["asts"][j], bodies_sw[(i, j)]) for i, j in dis_sw if (i, j) in bodies_sw and by_sw[i].get("asts") and by_sw[i]["asts"][j]]
                with common.Lock():
                    pr = diffrun.probe("C01_sweep_t", cases_sw, diffrun.seeds_for("quick", common.seed()))
                for cid, v in pr.items():
                    if v and (not v.get("tmpdef") or v.get("bad")):
                        i_, j_ = cid.split("#")
                        r = by_sw[int(i_)]
                        fails.append((r["name"], int(j_), {"bad": v.get("bad"), "flags": v.get("flags"), "counter_at_entry": r.get("hpre"),
                                                           "what": "compiled at this value of the temporary counter the emitted effect reads a compiler temporary before "
                                                                   "it is written (the pending operations are sequenced in another order than at counter 0)",
                                                           "emitted_at_that_counter": r["texts"][int(j_)]}))
            stats["counter_sweep"] = {"instructions_with_several_temporaries": len(multi), "compilations": len(names_sw), "parts": n_sw}
    except Exception as e:
        broken.append(Broken("correspondence", "counter sweep of multi-temporary instructions", str(e)[-800:]))
    # which accepted parts are covered by the END-TO-END THEOREM (FragCheck.covered_correct: statement fragment + the real
    # configuration translates like the repaired one)?  For those, correctness is a theorem instance + the K2 equality of this run.
    covered_names = []
    try:
        cc = []
        for i, parts in out.items():
            r = byid[i]
            # every part of an instruction, the temporary counter chained from part to part as the compiler does (FragCheck.covered_parts)
            if r.get("asts") and all(p["k2"] == 0 for p in parts) and all(r["asts"]) and len(parts) == len(r["asts"]):
                cc.append((r["name"], r.get("hpre") or 0, r["asts"]))
        with common.Lock():
            cv_parts = diffrun.covered_parts("C01", cc)
        cv = {n: all(v) for n, v in cv_parts.items() if v}
        stats["parts_covered_by_theorem"] = sum(sum(1 for x in v if x) for v in cv_parts.values())
        stats["parts_checked_for_theorem_coverage"] = sum(len(v) for v in cv_parts.values())
        covered_names = sorted(n for n, v in cv.items() if v)
    except Exception as e:
        broken.append(Broken("correspondence", "evaluation of FragCheck.covered", str(e)[-800:]))
    for name, kf in known_sites.items():
        if name in known_hit:
            res.known(f"{kf['id']}: {kf['what']} -- call site {name}")
    # nothing of the corpus may be skipped silently: an accepted instruction whose parse tree the AST reader cannot map, or whose emitted text
    # the body reader cannot parse, is outside everything this check decides
    if info.get("unmapped"):
        broken.append(Broken("correspondence", "tools/vt/tree2ast.py cannot map the parse tree of shipped instructions", f"{info['unmapped']} instruction(s) skipped"))
    if info.get("malformed"):
        k_, v_ = next(iter(info["malformed"].items()))
        if not k_.split("#")[0] in known_sites:
            fails.append((k_.split("#")[0], int(k_.split("#")[1]), {"bad": None, "flags": 0, "what": "the emitted text of a shipped instruction is not a well-formed body: " + str(v_)[:300]}))
    if "noped_wrong" in info:
        fails.append((info["noped_wrong"][0], 0, {"bad": None, "flags": 0, "what": "instruction on the no-op list is not translated to NOP"}))
    if substat and any(s != 0 for s in substat):
        broken.append(Broken("correspondence", "K2 on the bundled sub-routines", f"statuses {substat}"))
    if k2_bad:
        broken.append(Broken("correspondence", "K2 model/Lower.v vs RZILTransformer on the corpus",
                             f"{len(k2_bad)} disagreeing parts; first {k2_bad[0]} : {byid_name(results, k2_bad[0][0])}"))
    for name, j, p in fails[:1]:
        r = next(x for x in results if x["name"] == name)
        res.violation({"what": "the emitted effect of a bundled instruction part disagrees with the C semantics of its behaviour text "
                               "(differential oracle) and the part is not a listed call site",
                       "insn": name, "part": j, "input": r["behaviors"][j] if "behaviors" in r else None,
                       "failing_state_seed_and_kind": p.get("bad"), "guard_flags": p.get("flags"), "temporary_counter_at_entry": p.get("counter_at_entry", 0),
                       "emitted": p.get("emitted_at_that_counter") or (r["texts"][j] if r.get("ok") else None), "detail": p.get("what"), "broken": [vars(x) for x in broken],
                       "all_failing": [(n, jj) for n, jj, _ in fails[:30]]})
    if broken and not fails:
        res.violation({"what": "a proof obligation, translator or correspondence no longer checks; the differential oracle over "
                               f"{n_acc} accepted corpus parts found no failing part outside the listed call sites",
                       "broken": [vars(x) for x in broken]}, no_input=True)
    res.assumptions = [
        "Coq 8.16.1 kernel + vm_compute", "sem/RzIL.v, sem/CSem.v (T3-T5); float operations and HEX_REGFIELD / HEX_GET_CORRESPONDING_CS are opaque: "
        "behaviours using them have no prescribed C value here and are only compared structurally (K2)",
        "model/Lower.v tied by K2 on every corpus part of this run; parsers iltext.py / tree2ast.py",
    ]
    samples = []
    for i, parts in list(out.items())[:3]:
        samples.append({"insn": byid[i]["name"], "behavior": byid[i]["behaviors"], "parts": parts})
    res.coverage = {
        "obligations": binfo["obligations"], "discharged": binfo["discharged"] if model_ok else 0, "checker_cmd": binfo["checker_cmd"],
        "trusted_base": res.assumptions, "print_assumptions": binfo["assumptions"], "translated": meta,
        "evaluations": n_parts, "distinct_nontrivial": n_acc,
        "covered_by_end_to_end_theorem": {"count": len(covered_names), "instructions": covered_names[:400],
                                          "meaning": "FragCheck.covered 0 <ast> = true (vm_compute): by FragCheck.covered_correct the model's effect for the REAL configuration simulates "
                                                     "the C semantics of the behaviour from every related state; K2 of this run shows the real emitted text denotes exactly that effect"},
        "rule": "instruction definitions drawn from the bundled corpus (quick: a greedy cover of every operand-class/operator/operand-class triple, called routine and cast type of the corpus (~310 instructions) + 50 random + known call sites; thorough: all 2181); "
                "each behaviour part compiled through load_insn_behavior/parse/transform_insn; non-trivial = accepted part whose real body "
                "denotes the same tree as the model (K2 status 0)",
        "exhaustive": tier == "thorough",
        "instructions": len(sample), "parts": n_parts, "accepted_parts": n_acc, "rejected_parts": n_rej, "corpus_info": {k: (v if not isinstance(v, dict) else len(v)) for k, v in info.items()},
        "in_guard_parts": in_guard, "in_guard_with_defined_C_behaviour": in_guard_def, "guard_classes": klass,
        "sub_routines_k2": substat, "sub_routines_wf_linear": subwl, "timing": stats, "samples": samples, "broken": [vars(x) for x in broken],
    }
    return res.finish()


def byid_name(results, name):
    for r in results:
        if r["name"] == name:
            return (r.get("behaviors") or [""])[0][:200]
    return ""


def replay(path):
    d = json.load(open(path))
    name = d.get("insn")
    if not name:
        print("no concrete input recorded:", json.dumps(d.get("broken"), indent=1)[:3000])
        return 1
    r = corpus.compile_insns([name])[0]
    print(name, r.get("behaviors"))
    print("emitted now:", (r.get("texts") or [r.get("exc")]))
    out, info, _ = corpus.evaluate("C01_replay", [r], diffrun.seeds_for("thorough", common.seed()), corpus.noped_list())
    print("oracle now:", out)
    print("recorded:", d.get("failing_state_seed_and_kind"))
    return 0
