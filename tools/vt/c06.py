"""C06 — value-producing side effects: once, in order, only when selected."""
import random

from . import gen_prog, semprop

PLACEMENTS = [
    "{ int32_t a = RsV; RdV = a++ + a; }", "{ int32_t a = RsV; int32_t b = a--; RdV = b + a; }",
    "{ int32_t a = RsV; a++; RdV = a; }", "{ int32_t a = RsV; { a++; } RdV = a; }", "{ RxV++; RdV = RxV; }",
    "{ RdV = clz32(RsV); }", "{ RdV = clz32(RsV) + clo32(RtV); }", "{ RdV = clz32(clo32(RsV)); }", "{ clz32(RsV); RdV = 1; }",
    "{ RdV = ({ int32_t a = RsV + RtV; a; }); }", "{ RdV = RsV ? ({ ReV = 1; RtV; }) : 2; }",
    "{ RdV = RsV ? ({ ReV = 1; RtV; }) : ({ ReV = 2; RuV; }); }", "{ RdV = RsV ? 1 : ({ ReV = 2; RuV; }); }",
    "{ int32_t a = RsV; if (a++) { RdV = a; } }", "{ int32_t a = 0; for (i = 0; i < 3; i++) { a += i; } RdV = a; }",
    "{ int32_t a = RsV; for (i = 0; i < 3; a++) { i = i + 1; } RdV = a; }", "{ int32_t a = RsV; mem_store_u32(EA, a++); RdV = a; }",
    "{ int32_t a = RsV; JUMP(a++); }", "{ int32_t a = RsV; RdV = (a++ < 3) ? a : 0; }", "{ int32_t a = RsV; RdV = fbrev(a++); ReV = a; }",
    "{ int32_t a = RsV; RdV = a++ + a++; ReV = a; }", "{ trap(0, 1); RdV = 1; }", "{ RdV = 1; trap(0, 1); }",
]


def const_cond_family():
    """a ?: with a CONSTANT condition whose dead and live arms are value-producing operations, followed by a further one in the
    same full expression (temporary numbering must not collide; the dead arm's operation must not happen)"""
    hyb = {"post": ("n++", "m++", "k++"), "call": ("clz32(n)", "clo32(m)", "revbit32(k)"), "stmt": ("({ n = n + 1; n; })", "({ m = m + 2; m; })", "({ k = k + 3; k; })")}
    out = []
    for c in ("0", "1", "0x0LL", "7u"):
        for a in hyb:
            for b in hyb:
                for d in hyb:
                    out.append(f"{{ int32_t n = RsV; int32_t m = RtV; int32_t k = RuV; RdV = ({c} ? {hyb[a][0]} : {hyb[b][1]}) + {hyb[d][2]}; ReV = n + m + k; }}")
    return out


def programs(tier, rnd: random.Random):
    progs = list(PLACEMENTS)
    fam = const_cond_family()
    progs += fam if tier != "quick" else rnd.sample(fam, 36)
    g = gen_prog.Gen(rnd)
    n = 200 if tier == "quick" else 3000
    for _ in range(n):
        progs.append(g.program(nstmts=rnd.randint(1, 4), depth=rnd.randint(1, 2), hybrids=rnd.choice([0.3, 0.5, 0.7])))
    return progs


SPEC = semprop.Spec(
    prop="C06", programs=programs, oracles=("diff", "tmpdef"),
    theorems=["C06_temporaries_written_before_read", "C06_stale_temporaries_are_irrelevant", "C06_refuted_hoisted", "C06_hoisted_is_leftover", "C06_refuted", "C06_positive_examples", "C06_postfix_new_value_is_the_compilers"],
    note="0..4 hybrids (postfix ++/--, calls, statement-expressions) in initialisers, assignments, conditions, loop steps, call "
         "arguments, ?: arms and as expression statements",
)


def run(tier):
    return semprop.run(SPEC, tier)


def replay(path):
    return semprop.replay("C06", path)
