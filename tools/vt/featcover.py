"""Feature-covering sample of the bundled behaviours: every (operand class, operator, operand class) triple, every called
function / macro and every cast type that occurs anywhere in the corpus occurs in the sample (greedy set cover), so that a
change which affects only one operator/operand-kind combination cannot hide behind random sampling."""
import re

from . import common

TOK = re.compile(r"[A-Za-z_]\w*|0x[0-9a-fA-F]+|\d+\w*|<<=|>>=|<<|>>|<=|>=|==|!=|&&|\|\||\+\+|--|[-+*/%<>&^|~!?:=()]")
OPS = {"<<", ">>", "<=", ">=", "==", "!=", "&&", "||", "+", "-", "*", "/", "%", "<", ">", "&", "^", "|", "=", "<<=", ">>=", "?"}


def behaviours():
    path = next((common.REPO / "Resources").rglob("shortcode_resolved.h"))
    beh = {}
    for l in open(path):
        m = re.search(r"insn\((\w+), (.+)\)$", l)
        if m:
            beh[m.group(1)] = m.group(2)
    return beh


def cls(t, nxt):
    if re.fullmatch(r"[RCPMNVQ][a-z]{1,2}V", t):
        return t[0] + ("2" if len(t) == 4 else "1")
    if re.fullmatch(r"[RCPMNVQ][a-z]{1,2}N", t):
        return "new"
    if re.fullmatch(r"[a-zA-Z]iV", t):
        return "I" + t[0]
    if re.fullmatch(r"0x[0-9a-fA-F]+|\d+\w*", t):
        return "n" + re.sub(r"[\dxa-fA-F]", "", t)[:3]
    if re.fullmatch(r"u?int\d+_t|size\d+[us]_t", t):
        return "T:" + t
    if nxt == "(":
        return "f:" + t
    return "v"


def features(body):
    ts = TOK.findall(body)
    f = set()
    for i, t in enumerate(ts):
        nxt = ts[i + 1] if i + 1 < len(ts) else ""
        if t in OPS:
            a = i - 1
            while a >= 0 and ts[a] in "()":
                a -= 1
            b = i + 1
            while b < len(ts) and ts[b] in "()~!-":
                b += 1
            if a >= 0 and b < len(ts) and ts[a] not in OPS:
                f.add((cls(ts[a], ""), t, cls(ts[b], ts[b + 1] if b + 1 < len(ts) else "")))
        elif t not in "()~!:" and t not in ("++", "--"):
            c = cls(t, nxt)
            if c[:2] in ("f:", "T:"):
                f.add(c)
            if c[:2] == "f:":
                # the kind of the first argument (its outermost cast type / operand class): JUMP((int64_t) ..) vs JUMP(RsV) vs JUMP(riV + ..)
                j = i + 1
                while j < len(ts) and ts[j] in "(~!-":
                    j += 1
                if j < len(ts):
                    f.add(("arg", t, cls(ts[j], ts[j + 1] if j + 1 < len(ts) else "")))
    # chains of casts: (A)(B)x with A != B, and (A)(B)(C)x -- conversions compose, a change to one link shows only in the chain
    chain = []
    for t in ts:
        if re.fullmatch(r"u?int\d+_t|size\d+[us]_t", t):
            if not chain or chain[-1] != t:
                chain.append(t)
            if len(chain) >= 2:
                f.add(("chain", chain[-2], chain[-1]))
            if len(chain) >= 3:
                f.add(("chain", chain[-3], chain[-2], chain[-1]))
        elif t not in "()":
            chain = []
    return f


def cover(names=None):
    beh = behaviours()
    F = {n: features(b) for n, b in beh.items() if names is None or n in names}
    left = set().union(*F.values()) if F else set()
    total = len(left)
    chosen = []
    for n in sorted(F):            # deterministic
        pass
    while left:
        n = max(sorted(F), key=lambda k: len(F[k] & left))
        if not F[n] & left:
            break
        chosen.append(n)
        left -= F[n]
    return chosen, total
