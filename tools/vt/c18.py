"""C18 — pooled parsing equals sequential parsing and isolates failures."""
from __future__ import annotations

import ast
import json
import random
import time

from . import common
from .common import Broken, Result

PARSE_SHAPE = """with Pool() as pool:
    for res in tqdm(pool.imap(parse_single, args), total=len(args), desc='Parse shortcode'):
        result.update(res)"""
SINGLE_SHAPE = """try:
    asts = list()
    for b in behaviors:
        asts.append(parser.parse(b))
    pinsn = ParsedInsn(name, asts, behaviors)
except Exception as e:
    pinsn = ParsedInsn(name, [], behaviors, ParserException(e))"""

K6 = r"""
import json, sys, time, random, multiprocessing, contextlib, io
import rzilcompiler.Parser as PM
from rzilcompiler.Parser import Parser, InsnParsingBundle
from rzilcompiler.Configuration import Conf, InputFile
req = json.load(sys.stdin)
orig_single = PM.parse_single
delays = {}
def delayed(bundle):
    d = delays.get(bundle.name, 0)
    if d:
        time.sleep(d)
    return orig_single(bundle)
def canon(p):
    return {"name": p.name, "asts": [str(t) for t in p.asts], "behaviors": list(p.behaviors), "exc": p.exception.name if p.exception else None}
out = []
with open(Conf.get_path(InputFile.GRAMMAR, "Hexagon")) as f:
    grammar = "".join(f.readlines())
# reference for "reported with the error's name": the class name of what the parser itself raises for the text (independent of the wrapper)
from lark import Lark
ref_parser = Lark(grammar, start="fbody", parser="earley")
def ref_error_name(parts):
    for b in parts:
        try:
            ref_parser.parse(b)
        except Exception as e:
            return type(e).__name__
    return None
for run in req["runs"]:
    beh = {k: v for k, v in run["behaviors"]}
    delays.clear(); delays.update(run.get("delays", {}))
    # sequential in-process reference
    seq = {}
    for k, v in beh.items():
        seq.update(orig_single(InsnParsingBundle(grammar, k, v)))
    PM.parse_single = delayed
    size = run["pool"]
    PM.Pool = (lambda size=size: multiprocessing.get_context("fork").Pool(size))
    t0 = time.time()
    with contextlib.redirect_stdout(io.StringIO()), contextlib.redirect_stderr(io.StringIO()):
        try:
            res = Parser.parse(beh)
            err = None
        except Exception as e:
            res, err = {}, type(e).__name__ + ": " + str(e)[:200]
    PM.parse_single = orig_single
    r = {"pool": size, "n": len(beh), "wall": round(time.time() - t0, 2), "error": err,
         "keys_equal": list(res.keys()) == list(seq.keys()),
         "entries_equal": all(k in res and canon(res[k]) == canon(seq[k]) for k in seq) and len(res) == len(seq),
         "failed_entries": [k for k in res if res[k].exception], "expected_failed": run.get("broken", []),
         "failed_have_no_trees": all(res[k].asts == [] for k in res if res[k].exception),
         "parts_ok": all(len(res[k].asts) == len(beh[k]) for k in res if not res[k].exception)}
    wrong = [(k, res[k].exception.name, ref_error_name(beh[k])) for k in res if res[k].exception and res[k].exception.name != ref_error_name(beh[k])]
    r["error_names_ok"] = not wrong
    r["first_wrong_name"] = wrong[:1]
    if not r["entries_equal"]:
        bad = [k for k in seq if k not in res or canon(res[k]) != canon(seq[k])]
        r["first_difference"] = bad[:3]
    out.append(r)
json.dump(out, sys.stdout)
"""


def shape_ok():
    src = (common.REPO / "rzilcompiler/Parser.py").read_text()
    tree = ast.parse(src)
    found = {}
    for n in ast.walk(tree):
        if isinstance(n, ast.FunctionDef) and n.name == "parse":
            for st in n.body:
                if isinstance(st, ast.With):
                    found["parse"] = ast.unparse(st)
        if isinstance(n, ast.FunctionDef) and n.name == "parse_single":
            for st in n.body:
                if isinstance(st, ast.Try):
                    found["single"] = ast.unparse(st)
            found["single_ret"] = ast.unparse(n.body[-1])
    problems = []
    if found.get("parse") != PARSE_SHAPE:
        problems.append("Parser.parse is no longer `for res in pool.imap(parse_single, args): result.update(res)`: " + str(found.get("parse"))[:400])
    if found.get("single") != SINGLE_SHAPE or found.get("single_ret") != "return {name: pinsn}":
        problems.append("parse_single no longer catches every exception into a ParsedInsn without trees: " + str(found.get("single"))[:400])
    return problems


def run(tier):
    res = Result("C18", tier)
    rnd = random.Random(common.seed() + 18)
    broken = []
    with common.Lock():
        for p in shape_ok():
            broken.append(Broken("translator", "shape of Parser.parse / parse_single (the model's premises)", p))
        b2, binfo = common.build_property("C18")
        broken += b2
        model_ok = not any(x.kind in ("proof", "translator", "forbidden") for x in broken)
    lines = [l for l in (common.REPO / "Resources/Hexagon/Preprocessor/shortcode_resolved.h").read_text().split("\n") if l and not l.startswith("#")]
    import re
    pairs = []
    for l in lines:
        m = re.search(r"insn\((\w+), (.+)\)$", l)
        if m and len(m.group(2)) < 400:
            pairs.append((m.group(1), m.group(2)))
    nruns = 8 if tier == "quick" else 60
    runs = []
    for i in range(nruns):
        k = rnd.randint(6, 30) if tier == "quick" else rnd.randint(10, 120)
        sample = rnd.sample(pairs, k)
        beh, brokenb = [], []
        for j, (n, b) in enumerate(sample):
            if "__COMPOUND_PART1__" in b:
                continue
            if rnd.random() < 0.2:
                b2_ = rnd.choice([b[:-3], b + " }", "{ RdV = ; }", "{ ??? }", b.replace(";", " ; ; (", 1)])
                beh.append((n, [b2_]))
                brokenb.append(n)
            elif rnd.random() < 0.12:
                beh.append((n, [b, rnd.choice(["{ RdV = ; }", "{ ??? }", b[:-3]])]))      # two parts, the LATER one broken
                brokenb.append(n)
            elif rnd.random() < 0.06:
                beh.append((n, ["{ RdV = ; }", b]))          # two parts, the first one broken
                brokenb.append(n)
            elif rnd.random() < 0.15:
                beh.append((n, [b, "{ RdV = RsV; }"]))      # two parts
            else:
                beh.append((n, [b]))
        # two entries whose parts CONCATENATE to the same text but are split differently (one of them syntactically broken), and exact duplicates
        for n_, b_ in rnd.sample(sample, min(3, len(sample))):
            if "__COMPOUND_PART1__" in b_:
                continue
            k_ = rnd.randint(3, max(4, len(b_) - 3))
            beh.append((n_ + "_whole", [b_]))
            beh.append((n_ + "_split", [b_[:k_], b_[k_:]]))
            brokenb.append(n_ + "_split")
            beh.append((n_ + "_dup", [b_]))
        rnd.shuffle(beh)
        delays = {n: rnd.choice([0, 0, 0.05, 0.2, 0.4]) for n, _ in beh}
        runs.append({"behaviors": beh, "pool": rnd.choice([1, 2, 3, 4, 8, 16]) if i else 1, "delays": delays, "broken": brokenb})
    t0 = time.time()
    rc, out = common.sh([common.PY, "-c", K6], cwd=common.REPO, env=common.py_env(), input=json.dumps({"runs": runs}), timeout=3000)
    results = []
    try:
        results = json.loads(out[out.index("[{"):])
    except Exception:
        broken.append(Broken("correspondence", "K6 harness", out[-1500:]))
    wall = round(time.time() - t0, 1)
    fails = []
    for run_, r in zip(runs, results):
        why = None
        if r["error"]:
            why = "the pooled run aborted: " + r["error"]
        elif not r["keys_equal"] or not r["entries_equal"]:
            why = "pooled result differs from sequential in-process parsing: " + str(r.get("first_difference"))
        elif not r["failed_have_no_trees"] or not r["parts_ok"]:
            why = "a failed entry carries trees / a successful entry has not one tree per part"
        elif not r.get("error_names_ok", True):
            why = "a failed entry is not reported with the name of the error the parser raises for it: " + str(r.get("first_wrong_name"))
        if why:
            fails.append({"why": why, "pool": r["pool"], "behaviors": run_["behaviors"][:6], "delays": run_["delays"]})
    for f in fails[:1]:
        res.violation({"what": f["why"], "input": f, "broken": [vars(x) for x in broken]})
    if broken and not fails:
        res.violation({"what": "a proof obligation or the shape of the pooled loop no longer checks; the real pool agreed with sequential parsing on all runs",
                       "broken": [vars(x) for x in broken]}, no_input=True)
    res.assumptions = ["Coq kernel", "model/Pool.v as a model of multiprocessing.Pool.imap (in-order delivery, arbitrary completion order) and of the consumer loop; "
                       "parse_single is assumed pure and total (justified by its catch-all except, shape-checked)", "OS scheduling, worker death, pickling failures are "
                       "runtime behaviour the model cannot exhibit (partial)"]
    res.coverage = {"obligations": binfo["obligations"], "discharged": binfo["discharged"] if model_ok else 0, "checker_cmd": binfo["checker_cmd"],
                    "trusted_base": res.assumptions, "print_assumptions": binfo["assumptions"],
                    "theorems": ["pool_sequential", "pool_progress", "failure_isolated", "one_entry_per_task"],
                    "evaluations": sum(len(r["behaviors"]) for r in runs), "distinct_nontrivial": len(runs),
                    "rule": "random subsets/orderings of corpus behaviours with syntactically broken behaviours, two-part behaviours and two-part behaviours whose first or later part is broken injected, pool sizes 1-16 (Parser.Pool "
                            "rebound in the harness process, fork start method), random per-task delays so that completion order differs from submission order; each pooled "
                            "result compared entry by entry (name, trees, behaviours, exception name, key order) with sequential in-process parsing",
                    "runs": len(runs), "wall_s": wall, "pool_sizes": sorted({r["pool"] for r in runs}),
                    "samples": [{k: v for k, v in r.items()} for r in results[:2]], "broken": [vars(x) for x in broken]}
    return res.finish()


def replay(path):
    d = json.load(open(path))
    print(json.dumps(d.get("input"), indent=1)[:3000])
    return 0
