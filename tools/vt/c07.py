"""C07 — operands are bound to the right architectural resource, width and .new flag."""
import random

from . import semprop

CLASSES = ["R", "P", "C", "M"]
SRC = ["s", "t", "u", "v", "w"]
DST = ["d", "e"]
RW = ["x", "y", "z"]
SRC_P = ["ss", "tt", "uu", "vv"]
RW_P = ["xx", "yy"]
EXPLICIT = ["R0", "R1", "R2", "R3", "R10", "R13", "R31", "R30", "P0", "P1", "P2", "P3", "C0", "C1", "C3", "M0", "M1", "R33"]
ALIASES = ["USR", "PC", "SP", "LR", "GP", "FP", "LC0", "LC1", "SA0", "SA1", "P3_0", "M0", "M1", "CS0", "CS1", "UPCYCLE", "PKTCOUNT", "UTIMER", "UGP", "FRAMELIMIT", "FRAMEKEY"]
IMMS = ["r", "R", "s", "S", "u", "U", "m", "n"]
WIDTHS = [8, 16, 32, 64]


def programs(tier, rnd: random.Random):
    progs = []
    for c in CLASSES:
        for l in SRC:
            progs += [f"{{ ReV = {c}{l}V; }}", f"{{ RddV = {c}{l}V; }}", f"{{ {c}{l}V = RtV; ReV = {c}{l}V; }}"]          # read, widen, read-after-write
        for l in SRC_P:
            progs += [f"{{ RddV = {c}{l}V; }}", f"{{ RdV = {c}{l}V; }}"]
        for l in DST:
            progs += [f"{{ {c}{l}V = RsV; }}", f"{{ {c}{l}V = RssV; }}", f"{{ {c}{l}V = RsV; RxV = {c}{l}V; }}"]            # write, write narrowed, write then read
        progs += [f"{{ {c}ddV = RssV; }}", f"{{ {c}ddV = RsV; }}"]
        for l in RW:
            progs += [f"{{ {c}{l}V = {c}{l}V + RsV; }}", f"{{ ReV = {c}{l}V; {c}{l}V = RsV; }}"]
        for l in RW_P:
            progs += [f"{{ {c}{l}V = {c}{l}V + RssV; }}"]
        for l in SRC:
            progs += [f"{{ ReV = {c}{l}N; }}", f"{{ RddV = {c}{l}N; }}"]                                                   # .new operands
    for l in SRC:
        progs += [f"{{ ReV = N{l}N; }}"]
    for e in EXPLICIT:
        progs += [f"{{ ReV = {e}; }}", f"{{ {e} = RsV; }}", f"{{ {e} = RsV; ReV = {e}; }}", f"{{ ReV = {e}_NEW; }}", f"{{ RddV = {e}; }}"]
    for a in ALIASES:
        progs += [f"{{ ReV = HEX_REG_ALIAS_{a}; }}", f"{{ RddV = HEX_REG_ALIAS_{a}; }}", f"{{ HEX_REG_ALIAS_{a} = RsV; }}", f"{{ ReV = HEX_REG_ALIAS_{a}_NEW; }}",
                  f"{{ HEX_REG_ALIAS_{a} = HEX_REG_ALIAS_{a} + 1; }}"]
    for i in IMMS:
        progs += [f"{{ RddV = {i}iV; }}", f"{{ ReV = {i}iV + RsV; }}", f"{{ {i}iV = {i}iV & ~3; ReV = {i}iV; }}", f"{{ RddV = {i}iV >> 1; }}"]
    for sg in "su":
        for w in WIDTHS:
            progs += [f"{{ EA = RsV; RddV = mem_load_{sg}{w}(EA); }}", f"{{ EA = RsV + siV; RddV = mem_load_{sg}{w}(EA); }}", f"{{ EA = RtV; mem_store_{sg}{w}(EA, RssV); }}",
                      f"{{ EA = RsV; mem_store_{sg}{w}(EA, RtV); RddV = mem_load_{sg}{w}(EA); }}", f"{{ mem_store_{sg}{w}(RsV + 4, RtV); }}"]
        for w in (1, 2, 4):
            progs += [f"{{ EA = RsV; RddV = mem_load_{sg}{w}(EA); }}"]
    progs += ["{ JUMP(RsV); }", "{ JUMP(riV); }", "{ JUMP(HEX_REG_ALIAS_PC + riV); }", "{ JUMP(RssV); }", "{ if (PuV) { JUMP(riV); } }", "{ ReV = HEX_REG_ALIAS_PC; }",
              "{ JUMP(PsV); }", "{ HEX_REG_ALIAS_LR = HEX_REG_ALIAS_PC + 4; }", "{ RdV = P0; P0 = 1; }", "{ P0 = 1; RdV = P0; }"]
    # the PC alias is read-only in the property ("reads the packet address"); writing it is outside C07
    progs = [p for p in progs if "HEX_REG_ALIAS_PC =" not in p]
    progs += [f"{{ RddV = HEX_REG_ALIAS_{a}{n} + RsV; }}" for a in ALIASES for n in ("", "_NEW")]
    if tier == "quick":
        keep = [p for i, p in enumerate(progs) if i % 2 == rnd.randrange(2)]
        # every alias in every access form in every run (21 x 5 programs: a table keyed on the spelling is wrong for single entries only),
        # widened where the width of the alias matters
        wide = [f"{{ RddV = HEX_REG_ALIAS_{a}{n} + RsV; }}" for a in ALIASES for n in ("", "_NEW")]
        return list(dict.fromkeys(keep + [p for p in progs if "JUMP" in p or "ALIAS_" in p] + wide))
    return progs


SPEC = semprop.Spec(
    prop="C07", programs=programs, oracles=("diff", "sorted"),
    theorems=["C07_operand_binding", "C07_reg_num_min", "C07_examples", "C07_width_tables_are_the_compilers"],
    note="every operand spelling class (register class x access letter x single/pair, .new, explicit numbers with and without _NEW, aliases, immediate "
         "letters, load/store widths and signs, jump, PC alias) as read, written and read-after-write; the C side binds operands through its own table (sem/CSem.v)",
)


def run(tier):
    return semprop.run(SPEC, tier)


def replay(path):
    return semprop.replay("C07", path)
