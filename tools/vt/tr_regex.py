"""G5: every regular-expression literal used by the preprocessor (and the sub-routine prologue / needs_hi checks)
-> coq/gen/Regexes.v, as terms of lib/Regex.v.  Patterns are parsed with CPython's own `re._parser`; an opcode
outside the modelled subset raises."""
from __future__ import annotations

import ast
import re
import re._parser as sre_parse
from re import _constants as C

from . import common
from .pytr import TranslatorError

FILES = ["rzilcompiler/Preprocessor/Hexagon/PreprocessorHexagon.py", "rzilcompiler/Compiler.py", "rzilcompiler/Transformer/Hybrids/SubRoutine.py"]


def ch(n: int) -> str:
    return f'"{n:03d}"%char'


def cclass_of(op, av) -> str:
    if op == C.ANY:
        return "CAny"
    if op == C.LITERAL:
        return f"(CLit {ch(av)})"
    if op == C.NOT_LITERAL:
        return f"(CSet [{ch(av)}] [] [] true)"
    if op == C.IN:
        neg = False
        chars, ranges, classes = [], [], []
        for o, a in av:
            if o == C.NEGATE:
                neg = True
            elif o == C.LITERAL:
                chars.append(ch(a))
            elif o == C.RANGE:
                ranges.append(f"({ch(a[0])}, {ch(a[1])})")
            elif o == C.CATEGORY:
                classes.append(category(a))
            else:
                raise TranslatorError(f"regex set item {o}")
        if not neg and not chars and not ranges and len(classes) == 1:
            return classes[0]
        return f"(CSet [{'; '.join(chars)}] [{'; '.join(ranges)}] [{'; '.join(classes)}] {'true' if neg else 'false'})"
    raise TranslatorError(f"not a single-character item: {op}")


def category(a) -> str:
    m = {C.CATEGORY_WORD: "CWord", C.CATEGORY_SPACE: "CSpace", C.CATEGORY_DIGIT: "CDigit",
         C.CATEGORY_NOT_WORD: "(CSet [] [] [CWord] true)", C.CATEGORY_NOT_SPACE: "(CSet [] [] [CSpace] true)",
         C.CATEGORY_NOT_DIGIT: "(CSet [] [] [CDigit] true)"}
    if a not in m:
        raise TranslatorError(f"regex category {a}")
    return m[a]


def seq_of(items) -> str:
    parts = []
    lit = []

    def flush():
        if lit:
            parts.append("(RLit [" + "; ".join(ch(x) for x in lit) + "])")
            lit.clear()

    for op, av in items:
        if op == C.LITERAL:
            lit.append(av)
            continue
        flush()
        if op in (C.ANY, C.IN, C.NOT_LITERAL):
            parts.append(f"(RCls {cclass_of(op, av)})")
        elif op in (C.MAX_REPEAT, C.MIN_REPEAT):
            lo, hi, sub = av
            greedy = "true" if op == C.MAX_REPEAT else "false"
            sub = list(sub)
            if len(sub) != 1:
                raise TranslatorError("repetition of something that is not a single character class")
            cl = cclass_of(*sub[0])
            if (lo, hi) == (0, C.MAXREPEAT):
                parts.append(f"(RStar {greedy} {cl})")
            elif (lo, hi) == (1, C.MAXREPEAT):
                parts.append(f"(RPlus {greedy} {cl})")
            elif (lo, hi) == (0, 1):
                parts.append(f"(ROpt {greedy} {cl})")
            else:
                raise TranslatorError(f"repetition bounds {lo},{hi}")
        elif op == C.SUBPATTERN:
            grp, add, dele, sub = av
            if add or dele:
                raise TranslatorError("inline flags")
            inner = seq_of(list(sub))
            parts.append(f"(RGrp {grp} {inner})" if grp is not None else inner)
        elif op == C.BRANCH:
            alts = [seq_of(list(a)) for a in av[1]]
            e = alts[-1]
            for a in reversed(alts[:-1]):
                e = f"(RAlt {a} {e})"
            parts.append(e)
        elif op == C.AT:
            if av == C.AT_BEGINNING:
                parts.append("RBol")
            elif av == C.AT_END:
                parts.append("REol")
            else:
                raise TranslatorError(f"regex anchor {av}")
        else:
            raise TranslatorError(f"regex opcode {op}")
    flush()
    if not parts:
        return "REps"
    e = parts[-1]
    for p in reversed(parts[:-1]):
        e = f"(RCat {p} {e})"
    return e


def translate(pattern: str, flags: int = 0) -> str:
    p = sre_parse.parse(pattern, flags)
    return seq_of(list(p))


def collect(path: str):
    """(function name, ordinal within function, call kind, pattern, flags text) for every literal pattern"""
    src = (common.REPO / path).read_text()
    tree = ast.parse(src)
    out = []
    for fn in ast.walk(tree):
        if isinstance(fn, ast.FunctionDef):
            n = 0
            for node in ast.walk(fn):
                if isinstance(node, ast.Call) and isinstance(node.func, ast.Attribute) and isinstance(node.func.value, ast.Name) \
                        and node.func.value.id == "re" and node.func.attr in ("search", "match", "sub", "findall", "fullmatch"):
                    a0 = node.args[0]
                    pat = None
                    if isinstance(a0, ast.Constant) and isinstance(a0.value, str):
                        pat = a0.value
                    elif isinstance(a0, ast.JoinedStr) and all(isinstance(v, ast.Constant) for v in a0.values):
                        pat = "".join(v.value for v in a0.values)
                    if pat is None:
                        out.append((fn.name, n, node.func.attr, None, ast.unparse(a0)))
                        n += 1
                        continue
                    flags = [ast.unparse(x) for x in node.args[2:3]] + [ast.unparse(k.value) for k in node.keywords if k.arg == "flags"]
                    if node.func.attr == "sub":
                        flags = [ast.unparse(x) for x in node.args[4:5]] + [ast.unparse(k.value) for k in node.keywords if k.arg == "flags"]
                    out.append((fn.name, n, node.func.attr, pat, flags[0] if flags else ""))
                    n += 1
    return out


def generate():
    out = ["(* GENERATED by tools/vt/tr_regex.py -- every regex literal of the preprocessor / entry points, parsed by CPython's re._parser *)",
           "From Coq Require Import List Ascii String.", "From RZ.lib Require Import Regex.", "Import ListNotations.", "Local Open Scope char_scope.", ""]
    meta = {}
    table = []
    failed = {}
    for path in FILES:
        for fn, n, kind, pat, flags in collect(path):
            if pat is None:
                # not a literal: the function can no longer be modelled; a placeholder keeps the OTHER functions checkable
                name = f"re_{fn}_{n}"
                out.append(f"(* UNTRANSLATABLE {path} {fn}: non-literal pattern *)")
                out.append(f"Definition {name} : re := REps.")
                failed[fn] = f"{path}: non-literal regex in {fn}: {flags[:120]}"
                continue
            fl = 0
            if "ASCII" in flags:
                fl |= re.ASCII
            if flags and "ASCII" not in flags:
                raise TranslatorError(f"{path}: regex flags {flags} in {fn}")
            name = f"re_{fn}_{n}"
            if any(t[0] == name for t in table):
                name = f"re_{path.split('/')[-1].split('.')[0]}_{fn}_{n}"
            term = translate(pat, fl)
            shown = repr(pat).replace("*)", "* )").replace("(*", "( *")
            out.append(f"(* {path} {fn}: re.{kind}({shown}{', ' + flags if flags else ''}) *)")
            out.append(f"Definition {name} : re := {term}.")
            table.append((name, kind, pat))
            meta[name] = {"file": path, "kind": kind, "pattern": pat, "flags": flags}
    out.append("")
    return "\n".join(out) + "\n", meta, failed


def run(needed=()):
    """needed: names of the Python functions whose regexes the calling check relies on"""
    txt, meta, failed = generate()
    common.write_if_changed(common.GEN / "Regexes.v", txt)
    bad = [failed[f] for f in failed if f in needed]
    if bad:
        raise TranslatorError("; ".join(bad))
    return meta


if __name__ == "__main__":
    print(generate()[0])
