"""The bundled corpus (2181 instruction definitions, 72 two-part ones, 13 sub-routines) through the
public path (load_insn_behavior -> parse -> transform_insn), K2 against the model with the hybrid
counter chained over the parts of an instruction, guard flags and oracles per accepted part."""
from __future__ import annotations

import json
import re

from . import common, iltext, k2

HEADER = k2.HEADER.replace("From RZ.model Require Import Ast Types OpTables Lower.",
                           "From RZ.model Require Import Ast Types OpTables Lower Guards.\nFrom RZ.sem Require Import CSem Diff.\nFrom RZ.gen Require Import Resources.")

CHECK = """
(* one instruction: hybrid counter at entry, its parts (AST, real body if the implementation accepted the
   instruction), noped flag.  Result per part: (K2 status, guard flags, #defined states, first failing state,
   well-sorted, wf_body, linear). K2 status as in tools/vt/k2.py; 7 = noped and the text is `return NOP();` *)
Definition part_result := (N * N * nat * option (Z * N) * bool * bool * bool)%type.
Definition seeds : list Z := {seeds}.
Definition special_sorts : lenv := [("EA", SBv 32); ("i", SBv 32); ("j", SBv 32); ("k", SBv 32); ("ret_val", SBv 64)]%N.

Definition probe_part (p : cstmts) (b : body) : (nat * option (Z * N) * bool * bool * bool) :=
  match denote b with
  | None => (0%nat, None, false, wf_body b, linear b)
  | Some e => (count_defined xi csub_table ilsub_table {fuel} p e seeds, first_bad xi csub_table ilsub_table {fuel} p e seeds,
               match wf_effect (rw_of (regs_ss xi p)) special_sorts e with Some _ => true | None => false end, wf_body b, linear b)
  end.

Fixpoint run_parts (h : N) (ps : list (cstmts * option body)) : list part_result :=
  match ps with
  | [] => []
  | (p, ob) :: t =>
      let m := tlower_checked (cfg_insn h) p in
      let flags := guard_flags_cfg (cfg_insn h) p in
      let h' := match m with OK (_, hc) => hc | Err _ => h end in
      let st := match m, ob with
                | Err _, None => 1 | OK _, None => 2 | Err _, Some _ => 3
                | OK (e, _), Some b => match denote b with None => 5 | Some e' => if effect_eqb (canon e) (canon e') then 0 else 4 end
                end%N in
      let '(nd, bad, srt, wf, lin) := match ob with Some b => probe_part p b | None => (0%nat, None, true, true, true) end in
      (st, flags, nd, bad, srt, wf, lin) :: run_parts h' t
  end.
"""


def names() -> list[str]:
    return k2.run_python([{"id": 0, "op": "names"}], want_sig=False, nproc=1)["results"][0]["names"]


def compile_insns(insn_names: list[str], fmt="READ_STATEMENTS", hstart=None) -> list[dict]:
    """hstart: None = every instruction at temporary counter 0; a number, or a list with one number per instruction = counter at entry"""
    hs = hstart if isinstance(hstart, list) else [hstart] * len(insn_names)
    jobs = [{"id": i, "op": "insn", "name": n, "fmt": fmt, "hstart": h} for i, (n, h) in enumerate(zip(insn_names, hs))]
    return k2.run_python(jobs, want_sig=False)["results"]


def evaluate(prop: str, results: list[dict], seeds: list[int], noped: list[str], fuel=300, shard=40, timeout=1500):
    """returns ({insn id: [per-part dict]}, info)"""
    rows, ids = [], []
    info = {"parse_error": 0, "unmapped": 0, "accepted_insns": 0, "rejected_insns": 0, "noped": 0, "malformed": {}}
    bodies = {}
    for r in results:
        if r.get("stage") in ("parse", "load", "harness"):
            info["parse_error"] += 1
            continue
        if any(a is None for a in r.get("asts", [])):
            info["unmapped"] += 1
            continue
        if r.get("name") in noped or r.get("insn") in noped:
            info["noped"] += 1
            if r.get("ok") and any(t.strip() != "return NOP();" for t in r["texts"]):
                info.setdefault("noped_wrong", []).append(r["name"])
            continue
        parts = []
        okk = bool(r.get("ok"))
        info["accepted_insns" if okk else "rejected_insns"] += 1
        bad_text = False
        for i, a in enumerate(r["asts"]):
            if okk:
                try:
                    b = iltext.parse_body(r["texts"][i])
                    bodies[(r["id"], i)] = b
                    if b.invalid_names:
                        info["malformed"][f"{r['name']}#{i}"] = "invalid C identifiers: " + ", ".join(b.invalid_names)
                    parts.append(f"({a}, Some {b.coq()})")
                except iltext.ILParseError as e:
                    info["malformed"][f"{r['name']}#{i}"] = str(e)
                    bad_text = True
            else:
                parts.append(f"({a}, None)")
        if bad_text:
            continue
        rows.append(f"({r.get('hpre', 0)}%N, [{'; '.join(parts)}])")
        ids.append(r["id"])
    shard = max(4, min(shard, -(-len(rows) // common.NPROC)))
    files = {}
    for k in range(0, len(rows), shard):
        files[f"c_{k // shard:04d}"] = (
            HEADER + CHECK.format(seeds="[" + "; ".join(str(s) for s in seeds) + "]", fuel=fuel)
            + "Definition cases : list (N * list (cstmts * option body)) := [\n" + ";\n".join(rows[k : k + shard]) + "\n].\n"
            + "Eval vm_compute in (map (fun c => run_parts (fst c) (snd c)) cases).\n")
    ok, outs, err = common.run_case_files(prop + "_corpus", files, timeout=timeout)
    if not ok:
        raise RuntimeError("corpus case files failed: " + err[-2500:])
    out = {}
    for name in sorted(outs):
        k = int(name.split("_")[1]) * shard
        v = common.coq_printed_values(outs[name])[0]
        for j, lst in enumerate(split_top(v)):
            out[ids[k + j]] = [parse_part(p) for p in split_top(lst)]
    return out, info, bodies


def split_top(v: str) -> list[str]:
    v = v.strip()
    assert v.startswith("[") and v.endswith("]"), v[:100]
    body = v[1:-1].strip()
    if not body:
        return []
    parts, depth, cur = [], 0, ""
    for ch in body:
        if ch in "([":
            depth += 1
        elif ch in ")]":
            depth -= 1
        if ch == ";" and depth == 0:
            parts.append(cur.strip())
            cur = ""
        else:
            cur += ch
    parts.append(cur.strip())
    return parts


def parse_part(p: str) -> dict:
    q = p.replace("%N", "").replace("%nat", "").replace("%Z", "")
    bools = [x == "true" for x in re.findall(r"\b(true|false)\b", q)]
    nums = [int(x) for x in re.findall(r"-?\d+", q)]
    bad = (nums[3], nums[4]) if "Some (" in q else None
    return {"k2": nums[0], "flags": nums[1], "defined": nums[2], "bad": bad, "sorted": bools[-3], "wf": bools[-2], "linear": bools[-1]}


def noped_list() -> list[str]:
    return json.load(open(common.REPO / "Resources/Hexagon/noped_insns.json"))["noped"]
