"""C19 — loading and splitting resolved shortcode loses nothing (G5 + lib/Regex + K5)."""
from __future__ import annotations

import ast
import json
import random
import re
import time

from . import common, pre5, tr_regex
from .common import Broken, Result

M = "__COMPOUND_PART1__"
ALPHA = ["RdV", "RsV", "=", "+", ";", " ", "(", ")", "{", "}", ",", "0x10", "if", "JUMP", "mem_load_u8", "insn(", ")", "a_b", "?", ":", "&&", "  ", "\t"]
LOAD_SHAPE = """for line in f.readlines():
    if line[0] == '#':
        continue
    insn_name, insn_beh = self.split_resolved_shortcode(line)
    if '__COMPOUND_PART1__' not in insn_beh:
        self.behaviors[insn_name] = [insn_beh]
        continue
    ib1, ib2 = self.split_compounds(insn_beh)
    self.behaviors[insn_name] = [ib1, ib2]"""


def gen_body(rnd, depth=0):
    n = rnd.randint(1, 8)
    out = ""
    for _ in range(n):
        c = rnd.random()
        if c < 0.15 and depth < 3:
            out += "(" + gen_body(rnd, depth + 1) + ")"
        elif c < 0.3 and depth < 3:
            out += "{" + gen_body(rnd, depth + 1) + "}"
        else:
            out += rnd.choice(ALPHA)
    return out


def gen_name(rnd):
    if rnd.random() < 0.08:
        return rnd.choice(["sys_trap0", "nop", "insn", "insn_insn", "s", "n_i_s", "_", "isync", "nsi(".strip("("), "Insn"])
    return "".join(rnd.choice("ABCJLSabcxyzins019_") for _ in range(rnd.randint(1, 12)))


def load_shape_ok():
    src = (common.REPO / "rzilcompiler/Preprocessor/Hexagon/PreprocessorHexagon.py").read_text()
    tree = ast.parse(src)
    for n in ast.walk(tree):
        if isinstance(n, ast.FunctionDef) and n.name == "load_insn_behavior":
            for st in ast.walk(n):
                if isinstance(st, ast.For):
                    return ast.unparse(st) == LOAD_SHAPE, ast.unparse(st)
    return False, "load_insn_behavior not found"


def run(tier):
    res = Result("C19", tier)
    rnd = random.Random(common.seed() + 19)
    broken = []
    known = {k["id"]: k for k in common.load_known("C19")}
    with common.Lock():
        meta = {}
        try:
            meta = tr_regex.run(("split_resolved_shortcode", "split_compounds"))
        except Exception as e:
            broken.append(Broken("translator", "G5 tools/vt/tr_regex.py", str(e)[:1500]))
        ok_shape, shape = load_shape_ok()
        if not ok_shape:
            broken.append(Broken("translator", "shape of the load_insn_behavior loop changed", shape[:800]))
        b2, binfo = common.build_property("C19")
        broken += b2
        model_ok = not any(x.kind in ("proof", "translator", "forbidden") for x in broken)
        lines = [l for l in (common.REPO / "Resources/Hexagon/Preprocessor/shortcode_resolved.h").read_text().split("\n") if l and not l.startswith("#")]
        use = lines if tier == "thorough" else rnd.sample(lines, 500)
        cases, expect = [], []          # expect: None = no opinion, ("ok", (a, b)), ("reject",)
        for l in use:
            cases.append(("split", l + rnd.choice(["", "\n"])))
            expect.append(None)
        n = 400 if tier == "quick" else 20000
        for _ in range(n):
            name, body = gen_name(rnd), gen_body(rnd)
            k = rnd.random()
            if k < 0.7:
                cases.append(("split", f"insn({name}, {body}){rnd.choice(['', chr(10)])}"))
                expect.append(None)
            elif k < 0.8:
                bad = rnd.choice([f"insn({name},{body})", f"insn({name}, {body}", f"{name}, {body})", f"insn(, {body})", f"insn({name}, {body}) ", "x",
                                  f"ins({name}, {body})", f"  insn({name}, {body})", f"//insn({name}, {body})", f"insn({name}, {body});"])
                cases.append(("split", bad))
                expect.append(None)
            else:
                pre = rnd.choice(["", "", "", " ", gen_body(rnd)])
                p1, p2 = gen_body(rnd), gen_body(rnd)
                if M in pre + p1 + p2:
                    continue
                cases.append(("compound", "{" + pre + M + "{" + p1 + "}" + M + p2 + "}"))
                expect.append(("ok", ["{" + p1 + "}", "{" + p2 + "}"]) if pre.strip() == "" else ("lossy-known", pre))
        comp = []
        for l in lines:
            if M in l:
                comp.append(l)
        t0 = time.time()
        bad, py = [], []
        try:
            # compounds of the bundled file go through split first
            first = pre5.run_real([("split", l) for l in comp])
            for r in first:
                if r["ok"]:
                    cases.append(("compound", r["r"][1]))
                    expect.append(None)
            bad, py = pre5.compare("C19", cases) if model_ok else ([], pre5.run_real(cases))
        except Exception as e:
            broken.append(Broken("correspondence", "K5 harness", str(e)[-1500:]))
        wall = round(time.time() - t0, 1)
        if bad:
            broken.append(Broken("correspondence", "K5 model/Pre.v + gen/Regexes.v vs PreprocessorHexagon", f"{len(bad)} disagreeing inputs; first {cases[bad[0]]!r}"))
    # property oracle on the real results
    fails = []
    n_round = n_rej = n_comp = n_prefix = 0
    import re as _re
    SPEC = _re.compile(r"insn\((\w+), ([^\n]+)\)\n?", _re.ASCII)      # the property: the WHOLE line is insn(NAME, BODY)
    for (kind, s), exp, r in zip(cases, expect, py):
        if kind == "split":
            sm = SPEC.fullmatch(s)
            if sm:
                n_round += 1
                if not r.get("ok") or r["r"] != [sm.group(1), sm.group(2)]:
                    fails.append({"kind": kind, "input": s, "returned": r, "expected": [sm.group(1), sm.group(2)]})
            else:
                n_rej += 1
                if r.get("ok"):
                    # accepted although the line is not of the form insn(NAME, BODY): the listed finding D12a covers exactly
                    # "well-formed item preceded by garbage"; anything else is new
                    tail = s[s.find("insn("):] if "insn(" in s else ""
                    if "D12a" in known and SPEC.fullmatch(tail) and r["r"] == [SPEC.fullmatch(tail).group(1), SPEC.fullmatch(tail).group(2)]:
                        n_prefix += 1
                    else:
                        fails.append({"kind": kind, "input": s, "returned": r, "expected": "an exception"})
            continue
        if exp is None:
            continue
        if exp[0] == "ok":
            n_comp += 1
            if not r.get("ok") or r["r"] != exp[1]:
                fails.append({"kind": kind, "input": s, "returned": r, "expected": exp[1]})
        elif exp[0] == "lossy-known":
            # text before the first marker: listed finding D12b as long as the two parts themselves are right
            pre = exp[1]
            if "D12b" not in known or not r.get("ok"):
                fails.append({"kind": kind, "input": s, "returned": r, "expected": "parts including the text before the first marker, or an exception"})
    # the LOADER itself, executed: generated resolved-shortcode files (well-formed lines only; line markers `#...` in between) are loaded by
    # load_insn_behavior, rewritten with the same names and other bodies, and loaded again (same object, then a new object): after each load
    # every insn(NAME, BODY) line of the CURRENT file must be recovered exactly; a file with one malformed line must be rejected
    try:
        lf = loader_history(rnd)
        fails += lf
    except Exception as e:
        broken.append(Broken("correspondence", "K5 loader history harness", str(e)[-800:]))
    # known findings (specific witnesses)
    wit = pre5.run_real([("split", "xinsn(A, {})"), ("compound", "{RdV = 1; " + M + "{ P0 = 1; }" + M + " RdV = 2; }")])
    if "D12a" in known and wit[0].get("ok"):
        res.known(f"D12a: {known['D12a']['what']} -- witness 'xinsn(A, {{}})'")
    if "D12b" in known and wit[1].get("ok") and "RdV = 1" not in "".join(wit[1]["r"]):
        res.known(f"D12b: {known['D12b']['what']} -- witness text before the first part marker")
    for f in fails[:1]:
        res.violation({"what": "splitting a resolved shortcode line / compound body does not return exactly NAME and BODY / the two parts", "input": f,
                       "broken": [vars(x) for x in broken]})
    if broken and not fails:
        res.violation({"what": "a proof obligation, translator or correspondence no longer checks; no line that is split wrongly was found",
                       "broken": [vars(x) for x in broken]}, no_input=True)
    res.assumptions = ["Coq kernel + vm_compute", "lib/Regex.v as a model of CPython's re on the used subset (validated by K5 on every input of this run)",
                       "tools/vt/tr_regex.py + CPython's re._parser"]
    res.coverage = {"obligations": binfo["obligations"], "discharged": binfo["discharged"] if model_ok else 0, "checker_cmd": binfo["checker_cmd"],
                    "trusted_base": res.assumptions, "print_assumptions": binfo["assumptions"], "translated": {k: v["pattern"] for k, v in meta.items()},
                    "theorems": ["split_line_roundtrip", "split_compounds_spec", "load_line_spec (proofs/PreProofs.v when present)", "C19_refuted_prefix_garbage_accepted",
                                 "C19_refuted_compound_prefix_dropped", "C19_bundled_shape"],
                    "evaluations": len(cases), "distinct_nontrivial": len({c for c in cases}),
                    "rule": "bundled lines (quick: 500 sampled, thorough: all 2181) + generated lines (names over \\w+, bodies over the dialect's token alphabet with nested "
                            "parentheses/braces, commas, optional newline), malformed lines, compounds with text before/between/after the markers; all 72 bundled compounds",
                    "well_formed_lines_checked": n_round, "malformed_lines_checked": n_rej, "accepted_with_prefix_garbage_known": n_prefix, "generated_compounds_checked": n_comp, "bundled_compounds": len(comp), "k5_wall_s": wall,
                    "samples": [{"input": cases[i][1][:200], "result": py[i]} for i in (0, len(cases) // 2, len(cases) - 1)] if py else [],
                    "broken": [vars(x) for x in broken]}
    return res.finish()


LOADER = r"""
import json, sys, tempfile, contextlib, io
from pathlib import Path
from rzilcompiler.Configuration import Conf, InputFile
from rzilcompiler.Preprocessor.Hexagon.PreprocessorHexagon import PreprocessorHexagon
req = json.load(sys.stdin)
tmp = tempfile.NamedTemporaryFile("w", suffix=".h", delete=False); tmp.close()
orig = Conf.get_path
def gp(f, *a, **k):
    if f == InputFile.HEXAGON_PP_SHORTCODE_RESOLVED_H:
        return Path(tmp.name)
    return orig(f, *a, **k)
Conf.get_path = staticmethod(gp)
out, p = [], None
for g in req["generations"]:
    open(tmp.name, "w").write(g["text"])
    if p is None or g.get("new_object"):
        p = PreprocessorHexagon(Path(tmp.name))
    try:
        with contextlib.redirect_stdout(io.StringIO()):
            p.load_insn_behavior()
        out.append({"ok": True, "behaviors": {k: list(v) for k, v in p.behaviors.items()}})
    except Exception as e:
        out.append({"ok": False, "exc": type(e).__name__})
json.dump(out, sys.stdout)
"""


def loader_history(rnd):
    names = list(dict.fromkeys(gen_name(rnd) for _ in range(14)))
    names = [n for n in names if re.fullmatch(r"\w+", n)][:10]

    def gen_file(k):
        lines, exp = ['# 1 "x.h"'], {}
        for j, n in enumerate(names):
            if (j + k) % 4 == 0:
                p1, p2 = "{ P0 = %d; }" % (j + k), " RdV = %d; " % (j * 3 + k)
                body = "{" + M + p1 + M + p2 + "}"
                exp[n] = [p1, "{" + p2 + "}"]
            else:
                body = "{ RdV = (RsV + %d); if (RtV) { f(x, (y)); } }" % (j * 7 + k)
                exp[n] = [body]
            lines.append(f"insn({n}, {body})")
            if j % 3 == 0:
                lines.append('# 2 "y.h"')
        return "\n".join(lines) + "\n", exp
    gens = [gen_file(0), gen_file(1), gen_file(2)]
    bad_text = gens[2][0].replace("insn(" + names[3] + ",", "  nsn(" + names[3] + ",", 1)
    req = {"generations": [{"text": gens[0][0]}, {"text": gens[1][0]}, {"text": gens[2][0], "new_object": True}, {"text": bad_text, "new_object": True}]}
    rc, out = common.sh([common.PY, "-c", LOADER], cwd=common.REPO, env=common.py_env(), input=json.dumps(req), timeout=300)
    rows = json.loads(out[out.index("[{"):])
    fails = []
    for k, (r, (text, exp)) in enumerate(zip(rows[:3], gens)):
        if not r.get("ok"):
            fails.append({"kind": "load", "input": text, "returned": r, "expected": "every line loaded", "history": [g[0] for g in gens[:k]]})
            break
        wrong = {n: r["behaviors"].get(n) for n in exp if r["behaviors"].get(n) != exp[n]}
        if wrong:
            n0 = next(iter(wrong))
            fails.append({"kind": "load", "input": text, "returned": {n0: wrong[n0]}, "expected": {n0: exp[n0]},
                          "history": [g[0] for g in gens[:k]], "note": "load number %d in one process" % (k + 1)})
            break
    if not fails and len(rows) > 3 and rows[3].get("ok"):
        fails.append({"kind": "load", "input": bad_text, "returned": "loaded without an exception", "expected": "an exception: one line is not of the form insn(NAME, BODY)"})
    return fails


def replay(path):
    d = json.load(open(path))
    inp = d.get("input")
    if not inp:
        print(json.dumps(d.get("broken"), indent=1)[:3000])
        return 1
    print("input:", inp["input"])
    print("now:", pre5.run_real([(inp["kind"], inp["input"])]))
    print("recorded:", inp.get("returned"), "expected:", inp.get("expected"))
    return 0
