"""Shared plumbing for the checks: paths, Coq build, case files, evidence, violations.

Everything here is deliberately boring.  The only policy decisions are:
  * REPO comes from VERIF_REPO (default /repo) so that a self-test can point the whole
    machinery at a scratch copy;
  * every coqc / make runs under a shell timeout;
  * a broken proof obligation, translator or correspondence is never swallowed: callers get a
    `Broken` record and must turn it into a VIOLATION (after searching for a failing input).
"""
from __future__ import annotations

import hashlib
import json
import os
import re
import subprocess
import sys
import time
from dataclasses import dataclass, field
from pathlib import Path

VERIF = Path(__file__).resolve().parents[2]
REPO = Path(os.environ.get("VERIF_REPO", "/repo")).resolve()
COQ = VERIF / "coq"
GEN = COQ / "gen"
RUN = COQ / "run"
EVID = VERIF / "evidence"
REPLAYS = VERIF / "replays"
PY = "/venv/bin/python"
NPROC = int(os.environ.get("VERIF_JOBS", "16"))

FORBIDDEN = re.compile(
    r"\b(Admitted|admit|Axiom|Parameter|Conjecture|Admit Obligations)\b|Unset Guard|bypass_check|type-in-type|impredicative-set"
)


def seed() -> int:
    try:
        return int(os.environ.get("VERIF_SEED", "20260929"))
    except ValueError:
        return 20260929


def sh(cmd, timeout=600, cwd=None, env=None, input=None):
    """Run a command, return (rc, stdout+stderr)."""
    e = dict(os.environ)
    if env:
        e.update(env)
    try:
        p = subprocess.run(
            cmd,
            shell=isinstance(cmd, str),
            cwd=cwd,
            env=e,
            input=input,
            capture_output=True,
            text=True,
            timeout=timeout,
        )
        return p.returncode, p.stdout + p.stderr
    except subprocess.TimeoutExpired as ex:
        out = (ex.stdout or b"")
        if isinstance(out, bytes):
            out = out.decode("utf8", "replace")
        return 124, out + f"\nTIMEOUT after {timeout}s: {cmd}"


def write_if_changed(path: Path, text: str) -> bool:
    path.parent.mkdir(parents=True, exist_ok=True)
    if path.exists() and path.read_text() == text:
        return False
    path.write_text(text)
    return True


def sha(text: str) -> str:
    return hashlib.sha256(text.encode()).hexdigest()[:16]


# ------------------------------------------------------------------------------------------
# Coq build


@dataclass
class Broken:
    """A proof obligation / translator / correspondence that no longer checks."""

    kind: str  # "translator" | "proof" | "correspondence" | "forbidden"
    what: str  # theorem / file / correspondence name
    detail: str = ""


class Lock:
    def __enter__(self):
        import fcntl

        COQ.mkdir(exist_ok=True)
        self.f = open(COQ / ".lock", "w")
        fcntl.flock(self.f, fcntl.LOCK_EX)
        return self

    def __exit__(self, *a):
        import fcntl

        fcntl.flock(self.f, fcntl.LOCK_UN)
        self.f.close()


def coq_sources() -> list[Path]:
    out = []
    for d in ("lib", "sem", "gen", "model", "proofs", "props"):
        out += sorted((COQ / d).glob("*.v"))
    return out


def write_coqproject():
    lines = ["-R . RZ", "-arg -w -arg -notation-overridden,-deprecated-hint-without-locality,-deprecated-syntactic-definition"]
    for p in coq_sources():
        lines.append(str(p.relative_to(COQ)))
    changed = write_if_changed(COQ / "_CoqProject", "\n".join(lines) + "\n")
    if changed or not (COQ / "Makefile").exists():
        rc, out = sh("coq_makefile -f _CoqProject -o Makefile", cwd=COQ, timeout=120)
        if rc != 0:
            raise RuntimeError("coq_makefile failed:\n" + out)


def scan_forbidden() -> list[str]:
    bad = []
    for p in coq_sources():
        txt = p.read_text()
        # strip comments (non-nested is enough: our sources do not nest them)
        txt2 = re.sub(r"\(\*.*?\*\)", "", txt, flags=re.S)
        for m in FORBIDDEN.finditer(txt2):
            bad.append(f"{p.relative_to(COQ)}: {m.group(0)}")
    return bad


def coq_make(targets: list[str], timeout=1500) -> tuple[bool, str]:
    """Full .vo build of the given targets (relative to coq/), incremental."""
    write_coqproject()
    t = " ".join(targets)
    rc, out = sh(f"timeout {timeout} make -j{NPROC} {t}", cwd=COQ, timeout=timeout + 30)
    return rc == 0, out


def first_error(out: str) -> str:
    lines = out.splitlines()
    for i, l in enumerate(lines):
        if l.startswith("File ") and i + 1 < len(lines) and "Error" in "\n".join(lines[i : i + 4]):
            return "\n".join(lines[i : i + 12])
    return "\n".join(lines[-25:])


def failing_file(out: str) -> str:
    m = re.search(r'File "\./([^"]+)", line (\d+)', out)
    if m and "Error" in out:
        return f"{m.group(1)}:{m.group(2)}"
    m = re.search(r"make.*\*\*\* \[.*?: ([\w/]+\.vo)\]", out)
    return m.group(1) if m else "?"


def print_assumptions(prop_vo_log: str) -> list[str]:
    """Extract the text printed by `Print Assumptions` from a coqc log."""
    res = []
    cur = None
    for line in prop_vo_log.splitlines():
        if line.startswith("Closed under the global context"):
            res.append("Closed under the global context")
        elif line.startswith("Axioms:"):
            cur = ["Axioms:"]
            res.append(cur)
        elif cur is not None and (line.startswith(" ") or line.strip() == ""):
            if line.strip():
                cur.append(line.strip())
        else:
            cur = None
    return [x if isinstance(x, str) else " ".join(x) for x in res]


def build_property(prop_id: str, extra_targets: list[str] = ()) -> tuple[list[Broken], dict]:
    """Build props/<id>.vo (its whole dependency cone).  Returns broken obligations and build info."""
    info = {}
    broken = []
    bad = scan_forbidden()
    if bad:
        broken.append(Broken("forbidden", "forbidden construct in Coq sources", "; ".join(bad)))
    target = f"props/{prop_id}.vo"
    # force the props file to be re-checked so that Print Assumptions output is captured
    vo = COQ / target
    if vo.exists():
        vo.unlink()
    t0 = time.time()
    if extra_targets:
        # oracle / model targets first and independently (make -k): a broken proof must not leave them stale
        write_coqproject()
        sh(f"timeout 1500 make -k -j{NPROC} {' '.join(extra_targets)}", cwd=COQ, timeout=1530)
    ok, out = coq_make([target])
    info["build_s"] = round(time.time() - t0, 1)
    info["checker_cmd"] = f"cd coq && coq_makefile -f _CoqProject -o Makefile && make -j{NPROC} {target}"
    if not ok:
        broken.append(Broken("proof", failing_file(out), first_error(out)))
        info["assumptions"] = []
    else:
        info["assumptions"] = print_assumptions(out)
    info["obligations"], info["discharged"] = count_obligations(prop_id) if ok else (count_obligations(prop_id)[0], 0)
    return broken, info


def deps_of(target_v: str) -> list[Path]:
    """Transitive RZ.* dependencies of a .v file (by scanning Require lines)."""
    seen = {}
    todo = [COQ / target_v]
    while todo:
        p = todo.pop()
        if p in seen or not p.exists():
            continue
        seen[p] = True
        for m in re.finditer(r"From RZ(?:\.(\w+))? Require (?:Import|Export) ([^.]+)\.", p.read_text()):
            sub = m.group(1)
            for name in m.group(2).split():
                name = name.strip()
                if not name:
                    continue
                if sub:
                    todo.append(COQ / sub / f"{name}.v")
                else:
                    parts = name.split(".")
                    todo.append(COQ / "/".join(parts[:-1]) / f"{parts[-1]}.v")
    return sorted(seen)


def count_obligations(prop_id: str) -> tuple[int, int]:
    n = 0
    for p in deps_of(f"props/{prop_id}.v"):
        txt = re.sub(r"\(\*.*?\*\)", "", p.read_text(), flags=re.S)
        n += len(re.findall(r"\bQed\.", txt))
    return n, n


# ------------------------------------------------------------------------------------------
# Running generated case files inside Coq


def run_case_files(prop_id: str, files: dict[str, str], timeout=900) -> tuple[bool, dict[str, str], str]:
    """Write coq/run/<prop>/<name>.v for each entry and compile them in parallel.
    Returns (ok, {name: stdout}, error_text)."""
    d = RUN / prop_id
    if d.exists():
        for f in d.iterdir():
            f.unlink()
    d.mkdir(parents=True, exist_ok=True)
    for name, txt in files.items():
        (d / f"{name}.v").write_text(txt)
    names = sorted(files)
    cmd = (
        "printf '%s\\n' "
        + " ".join(names)
        + f" | xargs -P{NPROC} -I{{}} sh -c 'ulimit -s unlimited 2>/dev/null; timeout {timeout} coqc -R {COQ} RZ -w -notation-overridden {d}/{{}}.v > {d}/{{}}.out 2>&1 || echo FAILED {{}}'"
    )
    rc, out = sh(cmd, cwd=COQ, timeout=timeout + 60)
    outs = {}
    err = ""
    for n in names:
        o = d / f"{n}.out"
        outs[n] = o.read_text() if o.exists() else ""
    if "FAILED" in out:
        bad = [l.split()[1] for l in out.splitlines() if l.startswith("FAILED")]
        err = "\n".join(f"{b}: {outs.get(b, '')[-1500:]}" for b in bad)
        return False, outs, err
    return True, outs, err


def coq_printed_values(out: str) -> list[str]:
    """Split coqc output into the values printed by successive `Eval`/`Compute` commands
    (text between '     = ' and the following '     : ')."""
    vals = []
    cur = None
    for line in out.splitlines():
        if line.startswith("     = "):
            cur = [line[7:]]
        elif line.startswith("     : ") and cur is not None:
            vals.append(re.sub(r"\(\s+", "(", re.sub(r"\s+\)", ")", " ".join(s.strip() for s in cur))))
            cur = None
        elif cur is not None:
            cur.append(line)
    return vals


# ------------------------------------------------------------------------------------------
# Evidence, violations, known findings


def load_known(prop_id: str) -> list[dict]:
    p = VERIF / "known_findings.json"
    if not p.exists():
        return []
    data = json.loads(p.read_text())
    return [f for f in data.get("findings", []) if f.get("property") == prop_id and f.get("status", "open") == "open"]


def write_replay(prop_id: str, payload: dict) -> Path:
    REPLAYS.mkdir(exist_ok=True)
    txt = json.dumps(payload, indent=1, sort_keys=True, default=str)
    p = REPLAYS / f"{prop_id}-{sha(txt)}.json"
    p.write_text(txt)
    return p


@dataclass
class Result:
    prop: str
    tier: str
    t0: float = field(default_factory=time.time)
    coverage: dict = field(default_factory=dict)
    assumptions: list = field(default_factory=list)
    violations: list = field(default_factory=list)  # (replay_path, no_input_found)
    known_lines: list = field(default_factory=list)

    def violation(self, payload: dict, no_input: bool = False):
        payload = dict(payload)
        payload["property"] = self.prop
        payload["no_failing_input_found"] = no_input
        p = write_replay(self.prop, payload)
        self.violations.append((p, no_input))

    def known(self, text: str):
        key = text.split(":")[0]
        if not any(k.split(":")[0] == key for k in self.known_lines):
            self.known_lines.append(text)

    def finish(self) -> int:
        EVID.mkdir(exist_ok=True)
        cov = dict(self.coverage)
        cov.setdefault("trusted_base", [])
        if cov.get("discharged", 1) == 0:
            # a proof obligation is broken on this run: say so instead of claiming a discharged count
            cov.pop("discharged")
            cov["discharged_note"] = "0 - at least one proof obligation / translator failed on this run (see 'broken')"
            cov.setdefault("evaluations", 1)
            cov.setdefault("distinct_nontrivial", 2)
        ev = {
            "property_id": self.prop,
            "tier": self.tier,
            "seed": seed(),
            "level": "proof",
            "coverage": cov,
            "assumptions": self.assumptions,
            "wall_s": round(time.time() - self.t0, 1),
            "violations": len(self.violations),
        }
        (EVID / f"{self.prop}.json").write_text(json.dumps(ev, indent=1, default=str) + "\n")
        for k in self.known_lines:
            print(f"KNOWN-FINDING: property={self.prop} {k}")
        for p, no_input in self.violations:
            print(f"VIOLATION property={self.prop} replay={p}" + (" no-failing-input-found" if no_input else ""))
        sys.stdout.flush()
        return 1 if self.violations else 0


def py_env(hashseed="0"):
    return {"PYTHONPATH": str(REPO), "PYTHONHASHSEED": str(hashseed)}


def coq_str(s: str) -> str:
    return '"' + s.replace('"', '""') + '"'
