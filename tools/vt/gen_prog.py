"""Seeded generators of shortcode programs (text).  Structured and mostly valid; a separate stream
injects unsupported / malformed constructs.  Every random choice comes from the Random passed in."""
from __future__ import annotations

import itertools
import random

INT_TYPES = ["int8_t", "uint8_t", "int16_t", "uint16_t", "int32_t", "uint32_t", "int64_t", "uint64_t"]
SRC_REGS = ["RsV", "RtV", "RuV", "RvV"]
SRC_PAIRS = ["RssV", "RttV"]
DST_REGS = ["RdV", "ReV"]
DST_PAIRS = ["RddV"]
RW_REGS = ["RxV", "RyV"]
RW_PAIRS = ["RxxV"]
PRED_SRC = ["PsV", "PtV", "PuV", "PvV"]
PRED_DST = ["PdV", "PeV"]
PRED_NEW = ["PtN", "PuN", "PvN"]
NREGS = ["NsN", "NtN"]
EXPLICIT = ["P0", "P1", "P2", "P3", "R31", "R0", "P3_NEW", "P0_NEW", "R31_NEW"]
ALIASES = ["HEX_REG_ALIAS_USR", "HEX_REG_ALIAS_PC", "HEX_REG_ALIAS_SP", "HEX_REG_ALIAS_LR", "HEX_REG_ALIAS_GP",
           "HEX_REG_ALIAS_LC0", "HEX_REG_ALIAS_SA0", "HEX_REG_ALIAS_UPCYCLE", "HEX_REG_ALIAS_P3_0_NEW", "HEX_REG_ALIAS_USR_NEW"]
IMMS = ["siV", "riV", "uiV", "UiV", "SiV", "RiV", "miV", "niV"]
ARITH = ["+", "-", "*"]
BITS = ["&", "|", "^"]
SHIFTS = ["<<", ">>"]
CMPS = ["<", ">", "<=", ">=", "==", "!="]
LOGIC = ["&&", "||"]
BINOPS = ARITH + BITS + SHIFTS + CMPS + LOGIC
UNOPS = ["~", "-", "!"]
ASGOPS = ["=", "+=", "-=", "*=", "<<=", ">>=", "&=", "^=", "|="]
LITS = ["0", "1", "2", "3", "7", "8", "31", "32", "63", "0x7f", "0x80", "0xff", "0x100", "0x7fff", "0x8000", "0xffff",
        "0x7fffffff", "0x80000000", "0xffffffff", "0x100000000", "0x7fffffffffffffff", "0xffffffffffffffff", "255", "256", "65535",
        "2147483647", "2147483648", "4294967295", "4294967296"]
SUFFIXES = ["", "", "", "U", "LL", "ULL", "u", "ull", "ll"]
SUBS_1 = [("clz32", 1), ("clz64", 1), ("clo32", 1), ("clo64", 1), ("revbit16", 1), ("revbit32", 1), ("revbit64", 1), ("fbrev", 1)]
MACROS = [("extract32", 3), ("extract64", 3), ("sextract64", 3), ("deposit32", 4), ("deposit64", 4), ("bswap16", 1), ("bswap32", 1), ("bswap64", 1)]


class Gen:
    def __init__(self, rnd: random.Random):
        self.r = rnd
        self.locals: dict[str, str] = {}

    # ---- leaves
    def lit(self):
        return self.r.choice(LITS) + self.r.choice(SUFFIXES)

    def small_lit(self):
        return self.r.choice(["0", "1", "2", "3", "4", "7", "8", "15", "16", "31"])

    def leaf(self, kinds=("loc", "reg", "lit", "imm")):
        k = self.r.choice(kinds)
        if k == "loc" and self.locals:
            return self.r.choice(list(self.locals))
        if k == "reg":
            pm = getattr(self, "pair_mode", False)
            return self.r.choice((["RssV", "RttV"] * 3 + ["RuV", "RvV"] + PRED_SRC + RW_PAIRS) if pm else (SRC_REGS * 3 + PRED_SRC + RW_REGS))
        if k == "imm":
            return self.r.choice(IMMS)
        if k == "special":
            return self.r.choice(PRED_NEW + NREGS + EXPLICIT + ALIASES)
        return self.lit()

    # ---- expressions (pure, no side effects unless hybrids requested)
    def expr(self, depth, hybrids=0.0, kinds=("loc", "reg", "lit", "imm")):
        r = self.r
        if depth <= 0 or r.random() < 0.25:
            return self.leaf(kinds)
        c = r.random()
        if hybrids and c < hybrids:
            return self.hybrid(depth - 1)
        c = r.random()
        if c < 0.50:
            op = r.choice(BINOPS)
            rhs = self.small_lit() if op in SHIFTS and r.random() < 0.7 else self.expr(depth - 1, hybrids, kinds)
            return f"({self.expr(depth - 1, hybrids, kinds)} {op} {rhs})"
        if c < 0.62:
            return f"({r.choice(UNOPS)}{self.expr(depth - 1, hybrids, kinds)})"
        if c < 0.78:
            return f"(({r.choice(INT_TYPES)}){self.expr(depth - 1, hybrids, kinds)})"
        if c < 0.88:
            return f"({self.expr(depth - 1, hybrids, kinds)} ? {self.expr(depth - 1, hybrids, kinds)} : {self.expr(depth - 1, hybrids, kinds)})"
        if c < 0.93:
            m, n = r.choice(MACROS)
            args = [self.expr(depth - 1, hybrids, kinds)] + [self.small_lit() for _ in range(n - 1)]
            if n == 4:
                args[3] = self.expr(depth - 1, hybrids, kinds)
            return f"{m}({', '.join(args)})"
        if c < 0.97:
            return f"mem_load_{r.choice('su')}{r.choice([8, 16, 32, 64])}({self.expr(depth - 1, hybrids, kinds)})"
        return f"sizeof({self.leaf(('reg', 'loc'))})"

    def hybrid(self, depth):
        r = self.r
        c = r.random()
        if c < 0.4:
            rw = RW_PAIRS if getattr(self, "pair_mode", False) else RW_REGS
            tgt = r.choice(list(self.locals) + rw) if self.locals else r.choice(rw)
            return f"{tgt}{r.choice(['++', '--'])}"
        if c < 0.8:
            f, _ = r.choice(SUBS_1)
            return f"{f}({self.expr(depth, 0.0)})"
        v = self.fresh_local(declare=False)
        t = r.choice(INT_TYPES)
        e = self.expr(depth, 0.0)
        # the scope of a local declared inside a statement-expression ends with it: later expressions must not mention it (that would
        # not be C), and no later declaration re-uses the name (re-declaration is the listed finding D29)
        self.locals.pop(v, None)
        self.reserved = getattr(self, "reserved", set()) | {v}
        return f"({{ {t} {v} = {e}; {v}; }})"

    def fresh_local(self, declare=True, ty=None):
        for n in "abcdefghlmnopq":
            if n not in self.locals and n not in getattr(self, "reserved", set()):
                if declare:
                    self.locals[n] = ty or self.r.choice(INT_TYPES)
                else:
                    self.locals[n] = "?"
                return n
        return "a"

    # ---- statements
    def dest(self):
        r = self.r
        c = r.random()
        pm = getattr(self, "pair_mode", False)
        if c < 0.45:
            return r.choice(DST_PAIRS) if pm else r.choice(DST_REGS)
        if c < 0.6:
            return r.choice(RW_PAIRS) if pm else r.choice(RW_REGS)
        if c < 0.7:
            return r.choice(PRED_DST + ["P0", "P1"])
        if self.locals and c < 0.95:
            return r.choice(list(self.locals))
        return "EA"

    def stmt(self, depth, hybrids=0.0):
        r = self.r
        c = r.random()
        if c < 0.22:
            t = r.choice(INT_TYPES)
            e = self.expr(2, hybrids)
            n = self.fresh_local(ty=t)
            return f"{t} {n} = {e};"
        if c < 0.55:
            op = r.choice(ASGOPS) if r.random() < 0.4 else "="
            return f"{self.dest()} {op} {self.expr(3, hybrids)};"
        if c < 0.68 and depth > 0:
            s = f"if ({self.expr(2, hybrids)}) {self.block(depth - 1, hybrids)}"
            if r.random() < 0.5:
                s += f" else {self.block(depth - 1, hybrids)}"
            return s
        if c < 0.76 and depth > 0:
            v = r.choice(["i", "j", "k"])
            n = r.choice(["2", "4", "RsV", "uiV"])
            return f"for ({v} = 0; {v} < {n}; {v}++) {self.block(depth - 1, hybrids)}"
        if c < 0.82:
            return f"mem_store_{r.choice('su')}{r.choice([8, 16, 32, 64])}({self.expr(1)}, {self.expr(2, hybrids)});"
        if c < 0.86:
            return f"JUMP({self.expr(1)});"
        if c < 0.89:
            return r.choice([";", "{}", "cancel_slot;"])
        if c < 0.93 and hybrids:
            return self.hybrid(1) + ";"
        if c < 0.96:
            t = r.choice(INT_TYPES)
            n = self.fresh_local(ty=t)
            return f"{t} {n};"
        return f"{self.dest()} = {self.expr(2, hybrids, ('special', 'reg'))};"

    def block(self, depth, hybrids=0.0):
        n = self.r.randint(1, 3)
        saved = dict(self.locals)
        body = " ".join(self.stmt(depth, hybrids) for _ in range(n))
        # C scoping is not modelled by the compiler (one flat namespace); keep generated names unique.
        # (KNOWN LIMITATION, see DESIGN 13.9: a later statement may therefore mention a local that was declared inside this block -- text that
        # is not C; on such text the model and the compiler occasionally differ (seen once: VERIF_SEED=4, C05). Ending the scope here was tried
        # at the end of the round: it reshuffles every random program and surfaced another model inaccuracy in the D8 class (dead ?: arm removes
        # a live declaration, inside loops), which could not be repaired in the time left; the change was taken back.)
        for k in self.locals:
            saved.setdefault(k, self.locals[k])
        self.locals = saved
        return "{ " + body + " }"

    def program(self, nstmts=None, depth=2, hybrids=0.0):
        self.locals = {}
        self.reserved = set()
        self.pair_mode = self.r.random() < 0.3   # an instruction never names Rd and Rdd (same operand letter) together
        n = nstmts or self.r.randint(1, 5)
        return "{ " + " ".join(self.stmt(depth, hybrids) for _ in range(n)) + " }"


def op_matrix(ops=BINOPS, types=INT_TYPES):
    """exhaustive depth-1: every operator x left type x right type, operands are typed locals"""
    for op in ops:
        for ta in types:
            for tb in types:
                rhs = "b"
                yield f"{{ {ta} a = RssV; {tb} b = RttV; RddV = a {op} {rhs}; }}"


def unop_matrix():
    for op in UNOPS:
        for ta in INT_TYPES:
            yield f"{{ {ta} a = RssV; RddV = {op}a; }}"
    for ta in INT_TYPES:
        for tb in INT_TYPES:
            for tc in ("int32_t", "uint8_t"):
                yield f"{{ {ta} a = RssV; {tb} b = RttV; {tc} c = RuV; RddV = c ? a : b; }}"


def cast_matrix():
    for ta in INT_TYPES:
        for tb in INT_TYPES:
            yield f"{{ {ta} a = RssV; RddV = ({tb})a; }}"
            yield f"{{ {ta} a = RssV; {tb} b = a; RddV = b; }}"
            yield f"{{ {ta} a = RssV; {tb} b; b = a; RddV = b; }}"
            yield f"{{ {ta} a = RssV; mem_store_{'s' if not tb.startswith('u') else 'u'}{tb.strip('uint_')}(EA, a); }}"
    for tb in INT_TYPES:
        yield f"{{ RddV = ({tb})(RsV < RtV); }}"
        yield f"{{ {tb} b = (RsV == RtV); RddV = b; }}"


def asg_matrix():
    for op in ["=", "+=", "-=", "*=", "<<=", ">>=", "&=", "^=", "|=", "%=", "/="]:
        for ta in INT_TYPES:
            for tb in ("int8_t", "uint16_t", "int32_t", "uint32_t", "int64_t", "uint64_t"):
                yield f"{{ {ta} a = RssV; {tb} b = RttV; a {op} b; RddV = a; }}"
        for d in ("RxV", "RxxV", "RdV", "PdV", "P0", "EA"):
            yield f"{{ {d} {op} RsV; }}"
        # target and source are the same object / depend on each other
        for ta in ("int32_t", "uint32_t", "int64_t", "uint64_t", "int16_t"):
            yield f"{{ {ta} a = RssV; a {op} a; RddV = a; }}"
            yield f"{{ {ta} a = RssV; a {op} a + 1; RddV = a; }}"
            yield f"{{ {ta} a = RssV; {ta} b = RttV; a {op} b; b {op} a; RddV = a + b; }}"
        yield f"{{ RxxV {op} RxxV; }}"
        yield f"{{ for (i = 0; i < 3; i++) {{ RxxV {op} RxxV; }} }}"
        yield f"{{ int32_t a = RssV; if (RuV) {{ a {op} a; }} else {{ a {op} 3; }} RddV = a; }}"


UNSUPPORTED = [
    "goto foo;", "break;", "continue;", "lbl: RdV = 1;", "RdV = 1, ReV = 2;", "while (RsV) { RdV = 1; }",
    "do { RdV = 1; } while (RsV);", "switch (RsV) { case 1: RdV = 1; }", "RdV = foo(RsV);", "RdV = bar;",
    "RdV = a[1];", "RdV = RsV.x;", "RdV = *RsV;", "RdV = pkt->x;", "return;", "RdV = 1.5;", "float f = 1;",
    "char c = 1;", "long l = 2;", "RdV = sizeof(int32_t);", "++RxV;", "RdV = RsV % RtV;", "RdV = RsV / RtV;", "RdV = 4 / 2;",
    "RdV = 5 % 2;", "static int32_t s = 1;", "RdV = (RsV, RtV);", "RdV = +RsV;", "for (;;) { RdV = 1; }",
    "for (i = 0; i < 2;) { RdV = 1; }", "RdV = 1 ? RsV : RtV;", "RdV = 0 ? RsV : RtV;", "RdV = RsV = RtV;", "a = 1;",
    "int32_t a = 1; int16_t a = 2;", "const int32_t c = 1; c = 2;", "RdV = -1 < 1U;", "RdV = (0x7fffffff + 1) < 0;",
    "RddV = 0x100000000;", "RdV = ({ RtV = 1; RtV; });", "RdV = ({ int32_t z = 1; int32_t y = 2; y; });", "trap(0, 1);",
    "clz32(RsV);", "RxV++;", "RdV = RxV++ + RxV++;", "RdV = clo32(RsV) + clo32(RtV);", "fatal(\"x\");", "RdV = RsV ?: 1;",
]


def unsupported_stream(rnd: random.Random, n: int):
    g = Gen(rnd)
    for _ in range(n):
        g.locals = {}
        pre = [g.stmt(1) for _ in range(rnd.randint(0, 2))]
        post = [g.stmt(1) for _ in range(rnd.randint(0, 2))]
        u = rnd.choice([x for x in UNSUPPORTED if x != "int32_t a = 1; int16_t a = 2;"])     # D28 stays on its own witness
        if rnd.random() < 0.3:
            u = f"if (RsV) {{ {u} }}"
        yield "{ " + " ".join(pre + [u] + post) + " }"
