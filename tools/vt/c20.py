"""C20 — macro resolution equals standard C preprocessing under the patched macro set."""
from __future__ import annotations

import json
import os
import random
import re
import shutil
import tempfile
import time

from . import common, pre5, tr_regex
from .common import Broken, Result

PP = "Resources/Hexagon/Preprocessor"


HISTORY_PY = r"""
import json, sys
from rzilcompiler.Preprocessor.Hexagon.PreprocessorHexagon import PreprocessorHexagon as P
from rzilcompiler.Configuration import Conf, InputFile
req = json.load(sys.stdin)
out = {}
def gen():
    p = P(Conf.get_path(InputFile.HEXAGON_PP_SHORTCODE_H))
    try:
        return p.patch_macros(list(p.cleanup_macros()))
    except Exception as e:
        return "EXC " + type(e).__name__
if not req.get("fresh"):
    out["first"] = gen()
    with open(Conf.get_path(InputFile.HEXAGON_PP_PATCHES_MACROS_H), "w") as f:
        f.write(req["patches2"])
out["second"] = gen()
json.dump(out, sys.stdout)
"""


def scratch_copy() -> str:
    """a git-initialised copy of the repository outside /repo and /verif (Conf finds Resources/ through git)"""
    d = tempfile.mkdtemp(prefix="rzil_c20_")
    common.sh(f"rsync -a --exclude .git --exclude __pycache__ {common.REPO}/ {d}/ && cd {d} && git init -q .", timeout=300)
    return d


REGEN = r"""
import io, contextlib, sys
from rzilcompiler.Preprocessor.Hexagon.PreprocessorHexagon import PreprocessorHexagon as P
from rzilcompiler.Configuration import Conf, InputFile
p = P(Conf.get_path(InputFile.HEXAGON_PP_SHORTCODE_H))
with contextlib.redirect_stdout(io.StringIO()):
    p.run_preprocess_steps()
print("REGEN-OK")
"""


def norm(s):
    return re.sub(r"\s+", "", s)


def strip_reference(code: str) -> str:
    """reference: remove every `do { X } while (0)` wrapper on brace-balanced text, token level"""
    out, i = "", 0
    while i < len(code):
        m = re.compile(r"(?<![\w])do\s*\{").match(code, i)
        if m:
            j, depth = m.end(), 1
            while j < len(code) and depth:
                depth += {"{": 1, "}": -1}.get(code[j], 0)
                j += 1
            m2 = re.compile(r"\s*while\s*\(0\)").match(code, j)
            if depth == 0 and m2:
                out += strip_reference(code[m.end():j - 1])
                i = m2.end()
                continue
        out += code[i]
        i += 1
    return out


def greedy_listed(code: str) -> str:
    """what the LISTED findings D12c/D12d describe: the last `do {` of the line is paired with the last `} while (0)`, `do` is matched
    anywhere, repeated until nothing matches (a search aid: a wrong result that is NOT this one is a different violation)"""
    pat = re.compile(r"(.*)do\s*\{(.*)}\s*while\s*\(0\)(.*)")
    m = pat.search(code)
    if not m:
        return code
    tmp = ""
    while m:
        tmp = m.group(1) + m.group(2) + m.group(3)
        m = pat.search(tmp)
    return tmp + "\n"


def gen_do_while(rnd, depth=0):
    parts = []
    for _ in range(rnd.randint(1, 3)):
        k = rnd.random()
        if k < 0.4 and depth < 3:
            parts.append("do {" + gen_do_while(rnd, depth + 1) + "}" + rnd.choice([" ", ""]) + "while" + rnd.choice([" ", ""]) + "(0)" + rnd.choice([";", ""]))
        elif k < 0.5:
            parts.append(rnd.choice(["undo {x;} while(0);", "redo { y; } while (0)", "do_it(); ", "while (0) {}", "do { z; } while (1);", "todo = 1;",
                                     "do { i = i + 1; } while (i < 4); ", "while (RsV) { RsV = RsV - 1; } "]))
        else:
            parts.append(rnd.choice(["RdV = RsV + 1; ", "if (RsV) { RdV = 2; } ", "{ a; } ", "f(x, (y)); "]))
    return "".join(parts)


def gen_macro_files(rnd):
    def defs(n, prefix):
        out = []
        for i in range(n):
            name = f"{prefix}{rnd.randint(0, 6)}"
            k = rnd.random()
            if k < 0.25:
                out.append(f"#define {name}(A) \\\n    ((A) + {i}) \\\n    /* c */")
            elif k < 0.5:
                out.append(f"#define {name} {i}")
            else:
                out.append(f"#define {name}(A, B) do {{ A = B + {i}; }} while (0)")
            if rnd.random() < 0.2:
                out.append("// comment line")
            if rnd.random() < 0.15:
                out.append("")
        return out
    body = ["#ifndef GUARD_H", "#define GUARD_H_X 1"] + defs(6, "fM") + ["#ifdef QEMU_GENERATE"] + defs(2, "fQ") + ["#else"] + defs(3, "fM") + ["#endif",
            "#ifdef CONFIG_USER_ONLY"] + defs(2, "fU") + ["#endif", '#include "x.h"', "/* block comment */", " * continued"] + defs(3, "fM") + ["#endif"]
    vec = ["#ifdef QEMU_GENERATE"] + defs(3, "fV") + ["#else"] + defs(2, "fV") + ["#endif"] + defs(2, "fM")
    patches = defs(4, "fM") + defs(2, "fNEW") + ["// not a define", "#define fLONG(A) \\\n   (A)"]
    if rnd.random() < 0.5:
        # NO user-only patch: every patch names a macro the sources define (several times, also AFTER the place where the last patch
        # is consumed), so that the set of pending patches runs empty in the middle of the original definitions
        inc_ = defs(4, "fI")
        names = re.findall(r"^#define\s+(\w+)", "\n".join(body + vec + inc_), re.M)
        dup = [n for n in dict.fromkeys(names) if names.count(n) > 1 and n.startswith("f")] or [n for n in names if n.startswith("f")]
        chosen = rnd.sample(dup, min(len(dup), rnd.randint(1, 3)))
        patches = [f"#define {n}(A) patched_{n}(A)" for n in chosen] + ["// not a define"]
        return "\n".join(body) + "\n", "\n".join(inc_) + "\n", "\n".join(vec) + "\n", "\n".join(patches) + "\n"
    return "\n".join(body) + "\n", "\n".join(defs(4, "fI")) + "\n", "\n".join(vec) + "\n", "\n".join(patches) + "\n"


def ref_cleanup(h: str, inc: str, vec: str) -> list[str]:
    """REFERENCE for cleanup_macros on the generated macro files (whose conditional structure is known: QEMU_GENERATE blocks are skipped
    up to their #else / #endif except in the vector file, CONFIG_USER_ONLY blocks are skipped, other guards and includes are dropped):
    physical lines are joined at backslash-newline FIRST, comments are removed as C does (translation phases 2 and 3), then the
    #define lines of the active regions are collected.  Each macro is returned with normalised white space."""
    out = []
    for txt, is_vec in ((inc, False), (h, False), (vec, True)):
        logical, cur = [], ""
        for line in txt.split("\n"):
            if re.search(r"\\\s*$", line):
                cur += re.sub(r"\\\s*$", " ", line)
            else:
                logical.append(cur + line)
                cur = ""
        in_gen = in_user = False
        in_block = False
        for l in logical:
            if in_block:                       # inside a multi-line block comment
                if "*/" in l:
                    in_block = False
                continue
            st = l.strip()
            if st.startswith("/*") and "*/" not in st:
                in_block = True
                continue
            if re.match(r"#ifdef QEMU_GENERATE", l):
                in_gen = True
                continue
            if re.match(r"#ifdef CONFIG_USER_ONLY", l):
                in_user = True
                continue
            if re.match(r"#ifndef|#ifdef|#include", l):
                continue
            if re.match(r"#else|#endif", l):
                in_gen = in_user = False
                continue
            if (in_gen and not is_vec) or in_user:
                continue
            l2 = re.sub(r"/\*.*?\*/", " ", l)
            l2 = re.sub(r"//.*$", "", l2)
            if l2.strip().startswith("#define"):
                out.append(" ".join(l2.split()))
    return out


def norm_define(l: str) -> str:
    l = re.sub(r"/\*.*?\*/", " ", l)
    l = re.sub(r"//.*$", "", l)
    return " ".join(l.split())


def patch_oracle(py) -> str | None:
    """the property's own statement on the real result of cleanup_macros / patch_macros"""
    if "clean" not in py or "patched" not in py:
        return None
    name = lambda l: (re.search(r"^#define\s+([\w_]*).*", l) or [None, None])[1]
    cont = re.sub(r"\\\s*\n", "", py["files"]["HEXAGON_PP_PATCHES_MACROS_H"])
    patches = {}
    for l in cont.split("\n"):
        if l.startswith("#define"):
            patches[name(l)] = l
    res = py["patched"]
    orig_names = [name(l) for l in py["clean"]]
    for n, line in patches.items():
        cnt = [l for l in res if name(l) == n]
        if len(cnt) != 1 or cnt[0] != line:
            return f"patch of {n} occurs {len(cnt)} times / with another text"
    unpatched_in = [l for l in py["clean"] if name(l) not in patches]
    unpatched_out = [l for l in res if name(l) not in patches]
    if unpatched_in != unpatched_out:
        return "unpatched macros are not preserved in order"
    k = len([n for n in patches if n not in orig_names])
    if {name(l) for l in res[:k]} != {n for n in patches if n not in orig_names}:
        return "user-only patches are not prepended"
    return None


def run(tier):
    res = Result("C20", tier)
    rnd = random.Random(common.seed() + 20)
    broken = []
    known = {k["id"]: k for k in common.load_known("C20")}
    stats = {}
    fails = []
    with common.Lock():
        meta = {}
        try:
            meta = tr_regex.run(("cleanup_macros", "patch_macros", "replace_do_while_0"))
        except Exception as e:
            broken.append(Broken("translator", "G5 tools/vt/tr_regex.py", str(e)[:1500]))
        b2, binfo = common.build_property("C20")
        broken += b2
        model_ok = not any(x.kind in ("proof", "translator", "forbidden") for x in broken)
        # K5 on the bundled macro files
        t0 = time.time()
        try:
            a, b, py = pre5.compare_macros("C20")
            if model_ok and not (a and b):
                broken.append(Broken("correspondence", "K5 cleanup_macros / patch_macros vs model/Pre.v (bundled files)", f"clean agrees={a} patched agrees={b}"))
            why = patch_oracle(py)
            if why:
                fails.append({"what": why, "input": "bundled macro files"})
        except Exception as e:
            broken.append(Broken("correspondence", "K5 macro harness", str(e)[-1500:]))
        # K5 + oracle on generated do-while bodies
        n = 150 if tier == "quick" else 5000
        bodies = [gen_do_while(rnd) for _ in range(n)] + ["insn(X, { do { RdV = 1; } while (0); })", "a do {x;} while(0) b do { y; } while (0) c", "plain text", "undo {x;} while(0);"]
        cases = [("dowhile", b_ + rnd.choice(["", "\n"])) for b_ in bodies]
        try:
            bad, pyr = pre5.compare("C20", cases) if model_ok else ([], pre5.run_real(cases))
            if bad:
                broken.append(Broken("correspondence", "K5 replace_do_while_0 vs model/Pre.v", f"{len(bad)} disagreeing inputs; first {cases[bad[0]][1]!r}"))
            n_look = 0
            for (_, s), r in zip(cases, pyr):
                if not r.get("ok"):
                    fails.append({"what": "replace_do_while_0 raised", "input": s, "returned": r})
                    continue
                exp = strip_reference(s)
                if norm(r["r"]) != norm(exp):
                    # listed finding D12c: an identifier ending in `do` is treated as the keyword
                    if "D12c" in known and re.search(r"\wdo\s*\{", s) and r["r"] == greedy_listed(s):
                        n_look += 1
                    elif "D12d" in known and re.search(r"\b(while|do)\b", exp) and r["r"] == greedy_listed(s):
                        # a `do` / `while` that is not part of a do-while(0) wrapper remains after proper stripping
                        n_look += 1
                    else:
                        fails.append({"what": "do-while(0) wrappers are not replaced by their bodies", "input": s, "returned": r["r"], "expected": exp})
            stats["do_while_bodies"] = len(cases)
            stats["lookalike_known"] = n_look
        except Exception as e:
            broken.append(Broken("correspondence", "K5 do-while harness", str(e)[-1500:]))
        stats["k5_s"] = round(time.time() - t0, 1)
    # scratch copy: regeneration from the bundled sources, generated macro sets
    t1 = time.time()
    d = scratch_copy()
    try:
        rc, out = common.sh([common.PY, "-c", REGEN], cwd=d, env={"PYTHONPATH": d, "PYTHONHASHSEED": "0"}, timeout=900)
        if "REGEN-OK" not in out:
            fails.append({"what": "run_preprocess_steps() failed in a scratch copy", "input": "bundled sources", "output": out[-800:]})
        else:
            strip = lambda t: [l for l in t.split("\n") if not l.startswith("#line") and not l.startswith("# ")]
            for f in ("macros_patched.h", "combined.h", "shortcode_resolved.h"):
                new = open(os.path.join(d, PP, f)).read()
                old = (common.REPO / PP / f).read_text()
                if strip(new) != strip(old):
                    fails.append({"what": f"regenerating from the bundled sources does not reproduce the bundled {f}", "input": "bundled sources",
                                  "first_difference": next((a_ + " | " + b_ for a_, b_ in zip(strip(new), strip(old)) if a_ != b_), "length")[:400]})
            resolved = {}
            for l in open(os.path.join(d, PP, "shortcode_resolved.h")):
                m = re.search(r"insn\((\w+), (.+)\)$", l)
                if m:
                    resolved[m.group(1)] = m.group(2)
            # names one-to-one
            src_names = re.findall(r"^DEF_SHORTCODE\((\w+),", (common.REPO / PP / "shortcode.h").read_text(), re.M)
            stats["definitions"] = len(src_names)
            if sorted(src_names) != sorted(resolved) or len(set(src_names)) != len(src_names):
                fails.append({"what": "instruction names are not preserved one-to-one", "input": "bundled sources",
                              "missing": sorted(set(src_names) - set(resolved))[:5], "extra": sorted(set(resolved) - set(src_names))[:5]})
            # no invocation of a defined function-like macro survives
            fnmacros = set(re.findall(r"^#define\s+(\w+)\(", open(os.path.join(d, PP, "macros_patched.h")).read(), re.M))
            for nme, body in resolved.items():
                hit = [mname for mname in re.findall(r"\b(\w+)\s*\(", body) if mname in fnmacros]
                if hit:
                    fails.append({"what": "an invocation of a defined macro survives in the resolved behaviour", "input": nme, "macro": hit[0]})
                    break
            # independent preprocessor
            rc, cl = common.sh("clang -E -P -x c -Wno-everything combined.h 2>/dev/null", cwd=os.path.join(d, PP), timeout=300)
            clang = {m.group(1): m.group(2) for m in re.finditer(r"insn\((\w+),\s*(.*?)\)\s*(?=insn\(|\Z)", cl, re.S)}
            stats["clang_definitions"] = len(clang)
            ndiff = 0
            for nme, body in resolved.items():
                if nme in clang:
                    exp = strip_reference(" ".join(clang[nme].split()))
                    if norm(exp) != norm(body):
                        ndiff += 1
                        if ndiff == 1:
                            fails.append({"what": "the resolved behaviour differs from what an independent C preprocessor (clang -E) produces under the patched macro set, "
                                                  "with do-while(0) wrappers replaced", "input": nme, "resolved": body[:300], "clang": exp[:300]})
            stats["clang_differences"] = ndiff
        # generated macro / patch sets
        nsets = 2 if tier == "quick" else 25
        agree = 0
        for i in range(nsets):
            h, inc, vec, pat = gen_macro_files(rnd)
            for fn, txt in (("macros.h", h), ("macros.inc", inc), ("macros_mmvec.h", vec), ("patches_macros.h", pat)):
                open(os.path.join(d, PP, fn), "w").write(txt)
            try:
                with common.Lock():
                    a, b, py = pre5.compare_macros("C20_gen", repo_dir=d)
                if model_ok and not (a and b):
                    broken.append(Broken("correspondence", "K5 cleanup_macros / patch_macros vs model/Pre.v (generated files)", f"set {i}: clean={a} patched={b}"))
                else:
                    agree += 1
                why = patch_oracle(py)
                if why:
                    fails.append({"what": why, "input": {"macros.h": h, "patches_macros.h": pat}})
                # cleanup_macros against the reference: the same macros, the same bodies up to comments and white space
                if "clean" in py:
                    got = [x for x in (norm_define(y) for y in py["clean"]) if x]      # (comment-only lines of the kept regions normalise to nothing)
                    want = ref_cleanup(h, inc, vec)
                    if got != want:
                        k_ = next((j for j, (a_, b_) in enumerate(zip(got, want)) if a_ != b_), min(len(got), len(want)))
                        fails.append({"what": "cleanup_macros does not return the macro definitions of the active regions of the macro files (continuation lines joined, "
                                              "comments removed): standard preprocessing of the instruction definitions under this macro set gives another result",
                                      "input": {"macros.h": h, "macros.inc": inc, "macros_mmvec.h": vec},
                                      "first_difference": {"cleanup_macros": got[k_] if k_ < len(got) else None, "reference": want[k_] if k_ < len(want) else None}})
            except Exception as e:
                broken.append(Broken("correspondence", "K5 generated macro sets", str(e)[-800:]))
                break
        stats["generated_macro_sets"] = nsets
        # history: two generations in ONE process (a second preprocessor object, the patch file reduced in between) must give what a
        # fresh process gives for the second set -- patch_macros is a function of the files (model/Pre.v, C20_patch_macros_spec)
        nh = 2 if tier == "quick" else 12
        hist_ok = 0
        for i in range(nh):
            h, inc, vec, pat = gen_macro_files(rnd)
            plines = pat.split("\n")
            defs = [k for k, l in enumerate(plines) if l.startswith("#define")]
            drop = set(rnd.sample(defs, max(1, len(defs) // 2))) if defs else set()
            pat2 = "\n".join(l for k, l in enumerate(plines) if k not in drop)
            for fn, txt in (("macros.h", h), ("macros.inc", inc), ("macros_mmvec.h", vec), ("patches_macros.h", pat)):
                open(os.path.join(d, PP, fn), "w").write(txt)
            rc, out = common.sh([common.PY, "-c", HISTORY_PY], cwd=d, env={"PYTHONPATH": d, "PYTHONHASHSEED": "0"}, input=json.dumps({"patches2": pat2}), timeout=600)
            rc2, out2 = common.sh([common.PY, "-c", HISTORY_PY], cwd=d, env={"PYTHONPATH": d, "PYTHONHASHSEED": "0"}, input=json.dumps({"fresh": True}), timeout=600)
            open(os.path.join(d, PP, "patches_macros.h"), "w").write(pat)
            try:
                r_hist = json.loads(out[out.index("{"):])
                r_fresh = json.loads(out2[out2.index("{"):])
            except Exception:
                broken.append(Broken("correspondence", "K5 macro history harness", (out + out2)[-800:]))
                break
            if r_hist.get("second") != r_fresh.get("second"):
                a_, b_ = r_hist.get("second") or [], r_fresh.get("second") or []
                diff = next((x + " | " + y for x, y in zip(a_, b_) if x != y), f"lengths {len(a_)} / {len(b_)}") if isinstance(a_, list) and isinstance(b_, list) else str((a_, b_))[:200]
                fails.append({"what": "patch_macros depends on history: after an earlier generation with another patch file in the same process, the result for the "
                                      "second patch file differs from what a fresh process produces for it",
                              "input": {"macros.h": h, "patches_macros.h (first generation)": pat, "patches_macros.h (second generation)": pat2},
                              "first_difference": diff[:400]})
            else:
                hist_ok += 1
        stats["macro_histories"] = nh
    finally:
        shutil.rmtree(d, ignore_errors=True)
    stats["scratch_s"] = round(time.time() - t1, 1)
    wit = pre5.run_real([("dowhile", "undo {x;} while(0);")])
    if "D12c" in known and wit[0].get("ok") and "unx" in wit[0]["r"]:
        res.known(f"D12c: {known['D12c']['what']} -- witness 'undo {{x;}} while(0);'")
    for f in fails[:1]:
        res.violation({"what": f["what"], "input": f, "broken": [vars(x) for x in broken], "all": [x["what"] for x in fails[:10]]})
    if broken and not fails:
        res.violation({"what": "a proof obligation, translator or correspondence no longer checks; no input on which the pipeline is wrong was found",
                       "broken": [vars(x) for x in broken]}, no_input=True)
    res.assumptions = ["Coq kernel + vm_compute", "lib/Regex.v as a model of CPython re (K5 on every input)", "pcpp is NOT modelled: its step is covered by regeneration in a "
                       "scratch copy vs the bundled file and vs clang -E (a test, not a theorem)", "tools/vt/tr_regex.py"]
    res.coverage = {"obligations": binfo["obligations"], "discharged": binfo["discharged"] if model_ok else 0, "checker_cmd": binfo["checker_cmd"],
                    "trusted_base": res.assumptions, "print_assumptions": binfo["assumptions"], "translated": {k: v["pattern"] for k, v in meta.items()},
                    "theorems": ["C20_do_while_examples", "C20_refuted_lookalike", "C20_patch_example", "patch / do-while theorems of proofs/PreProofs.v when present"],
                    "evaluations": stats.get("do_while_bodies", 0) + stats.get("definitions", 0) + stats.get("generated_macro_sets", 0),
                    "distinct_nontrivial": stats.get("do_while_bodies", 0),
                    "rule": "bundled macro files + generated macro/patch sets (duplicates, continuations, guarded blocks, comments) through cleanup_macros/patch_macros vs model; "
                            "generated bodies with nested/sequential do-while(0) wrappers and look-alike identifiers vs model and vs a reference stripper; full regeneration "
                            "in a scratch copy vs bundled files; clang -E as independent preprocessor on all definitions",
                    "stats": stats, "samples": [{"do_while_input": bodies[0], "reference": strip_reference(bodies[0])}], "broken": [vars(x) for x in broken]}
    return res.finish()


def replay(path):
    d = json.load(open(path))
    print(json.dumps(d.get("input"), indent=1)[:3000])
    inp = d.get("input") or {}
    if isinstance(inp.get("input"), str) and "returned" in inp:
        print("now:", pre5.run_real([("dowhile", inp["input"])]))
    return 0
