"""./check --setup : regenerate gen/*.v and build the whole Coq development once."""
import sys
import time

from . import common


def regenerate_all():
    errs = []
    from . import tr_typerules
    mods = [tr_typerules]
    for name in ("tr_optables", "tr_meta", "tr_regex", "tr_grammar", "tr_resources", "tr_shapes"):
        try:
            mods.append(__import__(f"vt.{name}", fromlist=["x"]))
        except ImportError:
            pass
    for m in mods:
        try:
            m.run()
        except Exception as e:
            errs.append(f"{m.__name__}: {e}")
    return errs


def run():
    t0 = time.time()
    with common.Lock():
        errs = regenerate_all()
        for e in errs:
            print("translator error:", e)
        common.write_coqproject()
        targets = [str(p.relative_to(common.COQ))[:-2] + ".vo" for p in common.coq_sources()]
        ok, out = common.coq_make(targets, timeout=3000)
        if not ok:
            print(common.first_error(out))
            print("setup: Coq build failed")
            return 1
    print(f"setup ok in {time.time() - t0:.0f}s")
    return 1 if errs else 0
