"""C12 — IL node ownership is linear: one consuming use, DUP for the rest."""
from . import emitprops, semprop

SPEC = emitprops.make_spec(
    "C12", ("linear",), ("linear",),
    ["linear_sound", "linear_complete_strong", "linear_wf_run", "consume_after_alloc", "C12_refuted_unused_register_read", "C12_refuted_unused_effect"],
    "generated programs (heavy operand re-use, folded-away operands, conditionally emitted statements) and a corpus sample in BOTH layouts: the proved-sound "
    "checker `linear` (sem/CBody.v, soundness in sem/Own.v) evaluated in Coq on every real body")


def run(tier):
    return semprop.run(SPEC, tier)


def replay(path):
    return semprop.replay("C12", path)
