"""Parser of the C text the compiler emits -> the `body` object of coq/sem/CBody.v (as Coq term text).

Deliberately small and strict: anything that is not `TYPE NAME = EXPR;`, a comment, the two
sub-routine prologue lines, or the final `return EXPR;` is a ParseError (which the checks
report as a malformed body)."""
from __future__ import annotations

import re
from dataclasses import dataclass


class ILParseError(Exception):
    pass


TOK = re.compile(
    r"""\s*(?:(?P<str>"[^"\n]*")|(?P<chr>'[^'\n]')|(?P<num>0x[0-9a-fA-F]+|\d+)|(?P<id>[A-Za-z_]\w*)|(?P<arrow>->)|(?P<p>[()&,*\-]))"""
)


def tokenize(s: str):
    pos, out = 0, []
    s = s.rstrip()
    while pos < len(s):
        m = TOK.match(s, pos)
        if not m:
            if s[pos:].strip() == "":
                break
            raise ILParseError(f"bad token at {s[pos:pos+30]!r}")
        pos = m.end()
        k = m.lastgroup
        out.append((k, m.group(k)))
    return out


@dataclass
class Sx:
    kind: str  # app var addr str chr int ccast arrow
    a: object = None
    b: object = None

    def coq(self) -> str:
        k = self.kind
        if k == "app":
            return f'(SApp {q(self.a)} [{"; ".join(x.coq() for x in self.b)}])'
        if k == "var":
            return f"(SVar {q(self.a)})"
        if k == "addr":
            return f"(SAddr {q(self.a)})"
        if k == "str":
            return f"(SStr {q(self.a)})"
        if k == "chr":
            return f"(SChr {q(self.a)})"
        if k == "int":
            return f"(SInt ({self.a}))"
        if k == "ccast":
            return f"(SCCast {q(self.a)} {self.b.coq()})"
        if k == "arrow":
            return f"(SArrow {q(self.a)} {q(self.b)})"
        raise AssertionError(k)

    def heads(self, acc):
        if self.kind == "app":
            acc.add(self.a)
            for x in self.b:
                x.heads(acc)
        elif self.kind == "ccast":
            self.b.heads(acc)
        return acc


def q(s: str) -> str:
    return '"' + s.replace('"', '""') + '"'


class P:
    def __init__(self, toks):
        self.t = toks
        self.i = 0

    def peek(self, k=0):
        return self.t[self.i + k] if self.i + k < len(self.t) else (None, None)

    def eat(self, val=None, kind=None):
        k, v = self.peek()
        if (val is not None and v != val) or (kind is not None and k != kind) or k is None:
            raise ILParseError(f"expected {val or kind}, got {v!r} at token {self.i}")
        self.i += 1
        return v

    def expr(self) -> Sx:
        k, v = self.peek()
        if v == "(" and self.peek(1)[0] == "id" and self.peek(2)[1] == ")":
            self.eat("(")
            ty = self.eat(kind="id")
            self.eat(")")
            return Sx("ccast", ty, self.expr())
        if v == "&":
            self.eat("&")
            return Sx("addr", self.eat(kind="id"))
        if v == "-":
            self.eat("-")
            n = self.eat(kind="num")
            return Sx("int", -int(n, 0))
        if k == "num":
            self.i += 1
            return Sx("int", int(v, 0))
        if k == "str":
            self.i += 1
            return Sx("str", v[1:-1])
        if k == "chr":
            self.i += 1
            return Sx("chr", v[1:-1])
        if k == "id":
            self.i += 1
            if self.peek()[1] == "(":
                self.eat("(")
                args = []
                if self.peek()[1] != ")":
                    args.append(self.expr())
                    while self.peek()[1] == ",":
                        self.eat(",")
                        args.append(self.expr())
                self.eat(")")
                return Sx("app", v, args)
            if self.peek()[0] == "arrow":
                self.i += 1
                return Sx("arrow", v, self.eat(kind="id"))
            return Sx("var", v)
        raise ILParseError(f"unexpected token {v!r}")


def parse_expr(s: str) -> Sx:
    p = P(tokenize(s))
    e = p.expr()
    if p.i != len(p.t):
        raise ILParseError(f"trailing tokens in {s!r}")
    return e


DECL = re.compile(
    r"^(?P<ty>const HexOp \*|const HexOp |RzILOpPure \*|RzILOpEffect \*|RzILOpBool \*|const HexInsn \*|HexPkt \*)(?P<name>[^\s=]+) = (?P<init>.*)$",
    re.S,
)
KIND = {"const HexOp *": "DHexOp", "const HexOp ": "DHexOpVal", "RzILOpPure *": "DPure", "RzILOpEffect *": "DEffect",
        "RzILOpBool *": "DPure", "const HexInsn *": "DOther", "HexPkt *": "DOther"}


@dataclass
class Body:
    params: list  # (name, borrowed_pure)
    decls: list  # (kind, name, Sx)
    ret: Sx
    text: str
    invalid_names: list = None

    def coq(self) -> str:
        ps = "; ".join(f"({q(n)}, {'true' if b else 'false'})" for n, b in self.params)
        ds = ";\n   ".join(f"mkdecl {k} {q(n)} {e.coq()}" for k, n, e in self.decls)
        return f"(mkbody [{ps}]\n  [{ds}]\n  {self.ret.coq()})"

    def undeclared_context(self):
        """for a SUB-ROUTINE body: `hi` / `pkt` mentioned before (or without) being declared, unless they are parameters"""
        def vars_of(x, acc):
            if x.kind == "var":
                acc.add(x.a)
            elif x.kind == "app":
                for y in x.b:
                    vars_of(y, acc)
            elif x.kind == "ccast":
                vars_of(x.b, acc)
            elif x.kind == "arrow":
                acc.add(x.a)
            return acc
        declared = {n for n, _ in self.params}
        missing = []
        for _, name, e in self.decls + [(None, None, self.ret)]:
            for v in vars_of(e, set()):
                if v in ("hi", "pkt") and v not in declared and v not in missing:
                    missing.append(v)
            if name:
                declared.add(name)
        return missing

    def heads(self):
        acc = set()
        for _, _, e in self.decls:
            e.heads(acc)
        self.ret.heads(acc)
        return acc


def split_statements(text: str) -> list[str]:
    # drop comments
    lines = []
    for l in text.split("\n"):
        i = l.find("//")
        lines.append(l if i < 0 else l[:i])
    txt = "\n".join(lines)
    if txt.count("(") != txt.count(")"):
        raise ILParseError("unbalanced parentheses in emitted text")
    stmts, depth, cur, instr = [], 0, "", False
    for ch in txt:
        if ch == '"':
            instr = not instr
        if not instr:
            if ch == "(":
                depth += 1
            elif ch == ")":
                depth -= 1
                if depth < 0:
                    raise ILParseError("unbalanced parentheses")
            elif ch == ";" and depth == 0:
                stmts.append(cur.strip())
                cur = ""
                continue
        cur += ch
    if cur.strip():
        raise ILParseError(f"text after the last ';': {cur.strip()[:60]!r}")
    return [s for s in stmts if s]


IDENT_OK = re.compile(r"^[A-Za-z_]\w*$")


def sanitize_names(text: str):
    """Declared names that are not C identifiers (a defect of the emitted text, reported through
    Body.invalid_names) are replaced consistently so that the rest of the body can still be read."""
    bad = []
    for m in re.finditer(r"(?:RzILOpPure \*|RzILOpEffect \*|const HexOp \*?)([^\s=;]+) =", text):
        n = m.group(1)
        if not IDENT_OK.match(n) and n not in bad:
            bad.append(n)
    for i, n in enumerate(sorted(bad, key=len, reverse=True)):
        text = text.replace(n, "INVALID_NAME_%d_" % i + re.sub(r"\W", "_", n))
    return text, bad


def parse_body(text: str, params=()) -> Body:
    """params: list of (name, is_borrowed_pure) for a sub-routine; for an instruction the
    implicit parameters are bundle, and pkt / hi (declared by the getter when needed)."""
    t, bad = sanitize_names(text)
    t = t.strip()
    if t.startswith("{") and t.endswith("}"):
        t = t[1:-1]
    stmts = split_statements(t)
    if not stmts:
        raise ILParseError("empty body")
    decls = []
    for s in stmts[:-1]:
        m = DECL.match(s)
        if not m:
            raise ILParseError(f"statement is not a declaration with initialiser: {s[:80]!r}")
        name = m.group("name")
        decls.append((KIND[m.group("ty")], name, parse_expr(m.group("init"))))
    last = stmts[-1]
    if not last.startswith("return "):
        raise ILParseError(f"last statement is not a return: {last[:60]!r}")
    ret = parse_expr(last[len("return "):])
    b = Body(list(params), decls, ret, text)
    b.invalid_names = bad
    return b
