"""C16 — both output layouts denote the same effect and report the same attributes."""
from . import emitprops, semprop

SPEC = emitprops.make_spec(
    "C16", (), ("layouts",),
    ["C16_denotation_ignores_dup", "C16_flatten_neutral"],
    "every generated program and corpus instruction is compiled in both layouts; both must be accepted or both rejected, the two bodies must denote the same "
    "effect tree (Coq: denote, canonical form) and report the same attributes; equal trees execute identically from every state (no sampling)")


def run(tier):
    return semprop.run(SPEC, tier)


def replay(path):
    return semprop.replay("C16", path)
