"""Differential execution inside Coq: C semantics of the source vs RzIL semantics of the REAL emitted
body (and optionally of the model's tree), over boundary/random initial states (sem/Diff.v)."""
from __future__ import annotations

import re

from . import common, iltext, k2

HEADER = """From Coq Require Import ZArith NArith List Bool String.
From RZ.lib Require Import BV.
From RZ.sem Require Import RzIL CBody CSem Diff.
From RZ.model Require Import Ast Types OpTables Lower Guards.
From RZ.gen Require Import Resources.
Import ListNotations.
Local Open Scope string_scope.
Local Open Scope Z_scope.
Local Open Scope list_scope.

Definition seeds : list Z := {seeds}.
(* locals the source declares, with the sort their C type has: a declared local that is read before
   any assignment is indeterminate in C; it is given its declared sort so that the sort check judges
   the operators, not the missing initialisation *)
Fixpoint decl_sorts_s (s : cstmt) : lenv :=
  match s with
  | SDecl t x _ => match resolve_ty_c t with Some ty => [(x, SBv (snd ty))] | None => [] end
  | SIf _ t None => decl_sorts_s t
  | SIf _ t (Some f) => decl_sorts_s t ++ decl_sorts_s f
  | SFor i _ _ b => decl_sorts_s i ++ decl_sorts_s b
  | SBlock l => decl_sorts_ss l
  | _ => []
  end
with decl_sorts_ss (l : cstmts) : lenv := match l with SNil => [] | SCons s t => decl_sorts_s s ++ decl_sorts_ss t end.
Definition special_sorts : lenv := [("EA", SBv 32); ("i", SBv 32); ("j", SBv 32); ("k", SBv 32); ("ret_val", SBv 64)]%N.

(* per case: (guard flags, #states on which C is defined, first failing (seed, kind), well-sorted, wf_body, linear);
   None = real body does not denote *)
Definition probe (c : cstmts * body) : option (N * nat * option (Z * N) * bool * bool * bool) :=
  let '(p, b) := c in
  match denote b with
  | None => None
  | Some e => Some (guard_flags p, count_defined xi csub_table ilsub_table {fuel} p e seeds,
                    first_bad xi csub_table ilsub_table {fuel} p e seeds,
                    match wf_effect (rw_of (regs_ss xi p)) (decl_sorts_ss p ++ special_sorts) e with Some _ => true | None => false end,
                    wf_body b, linear b)
  end.
"""


def seeds_for(tier: str, base: int) -> list[int]:
    n = 24 if tier == "quick" else 96
    return [(base * 31 + i * 7 + 1) % 100003 for i in range(n)]


def probe(prop: str, cases: list[tuple[str, str, iltext.Body]], seeds: list[int], fuel=400, shard=60, timeout=1200):
    """cases: (id, ast_coq, body).  Returns {id: None | (flags, ndefined, None | (seed, kind))}"""
    files = {}
    ids = [c[0] for c in cases]
    shard = max(6, min(shard, -(-len(cases) // common.NPROC)))
    for k in range(0, len(cases), shard):
        chunk = cases[k : k + shard]
        rows = ";\n".join(f"({a}, {b.coq()})" for _, a, b in chunk)
        files[f"diff_{k // shard:04d}"] = (
            HEADER.format(seeds="[" + "; ".join(str(s) for s in seeds) + "]", fuel=fuel)
            + f"Definition cases : list (cstmts * body) := [\n{rows}\n].\nEval vm_compute in (map probe cases).\n"
        )
    ok, outs, err = common.run_case_files(prop + "_diff", files, timeout=timeout)
    if not ok:
        raise RuntimeError("diff case files failed: " + err[-3000:])
    res = {}
    for name in sorted(outs):
        k = int(name.split("_")[1]) * shard
        vals = common.coq_printed_values(outs[name])
        items = parse_option_list(vals[0])
        for j, it in enumerate(items):
            res[ids[k + j]] = it
    return res


def parse_option_list(v: str):
    """parse `[Some (3%N, 24%nat, None); None; Some (0%N, 12%nat, Some (5, 3%N))]`"""
    v = v.replace("%N", "").replace("%nat", "").replace("%Z", "")
    body = v.strip()
    assert body.startswith("[") and body.endswith("]"), body[:200]
    body = body[1:-1].strip()
    out = []
    if not body:
        return out
    depth, cur = 0, ""
    parts = []
    for ch in body:
        if ch == "(":
            depth += 1
        elif ch == ")":
            depth -= 1
        if ch == ";" and depth == 0:
            parts.append(cur.strip())
            cur = ""
        else:
            cur += ch
    parts.append(cur.strip())
    for p in parts:
        if p == "None":
            out.append(None)
            continue
        bools = [x == "true" for x in re.findall(r"\b(true|false)\b", p)]
        nums = [int(x) for x in re.findall(r"-?\d+", p)]
        bad = (nums[2], nums[3]) if "Some (" in p[5:] else None
        out.append({"flags": nums[0], "defined": nums[1], "bad": bad, "sorted": bools[-3], "wf": bools[-2], "linear": bools[-1]})
    return out
