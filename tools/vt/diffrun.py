"""Differential execution inside Coq: C semantics of the source vs RzIL semantics of the REAL emitted
body (and optionally of the model's tree), over boundary/random initial states (sem/Diff.v)."""
from __future__ import annotations

import re

from . import common, iltext, k2

HEADER = """From Coq Require Import ZArith NArith List Bool String.
From RZ.lib Require Import BV.
From RZ.sem Require Import RzIL CBody CSem Diff.
From RZ.model Require Import Ast Types OpTables Lower Guards.
From RZ.gen Require Import Resources.
From RZ.proofs Require Import SortSound TmpDef.
Import ListNotations.
Local Open Scope string_scope.
Local Open Scope Z_scope.
Local Open Scope list_scope.

Definition seeds : list Z := {seeds}.
(* locals the source declares, with the sort their C type has: a declared local that is read before
   any assignment is indeterminate in C; it is given its declared sort so that the sort check judges
   the operators, not the missing initialisation *)
Fixpoint decl_sorts_s (s : cstmt) : lenv :=
  match s with
  | SDecl t x _ => match resolve_ty_c t with Some ty => [(x, SBv (snd ty))] | None => [] end
  | SIf _ t None => decl_sorts_s t
  | SIf _ t (Some f) => decl_sorts_s t ++ decl_sorts_s f
  | SFor i _ _ b => decl_sorts_s i ++ decl_sorts_s b
  | SBlock l => decl_sorts_ss l
  | _ => []
  end
with decl_sorts_ss (l : cstmts) : lenv := match l with SNil => [] | SCons s t => decl_sorts_s s ++ decl_sorts_ss t end.
Definition special_sorts : lenv := [("EA", SBv 32); ("i", SBv 32); ("j", SBv 32); ("k", SBv 32); ("ret_val", SBv 64)]%N.

(* per case: (guard flags, #states on which C is defined, first failing (seed, kind), temporaries defined before use, well-sorted, wf_body, linear);
   None = real body does not denote *)
Definition probe (c : cstmts * body) : option (N * nat * option (Z * N) * bool * bool * bool * bool) :=
  let '(p, b) := c in
  match denote b with
  | None => None
  | Some e => Some (guard_flags p, count_defined xi csub_table ilsub_table {fuel} p e seeds,
                    first_bad xi csub_table ilsub_table {fuel} p e seeds,
                    tmp_def ilsub_table e,
                    match wf_effect (rw_of (regs_ss xi p)) (decl_sorts_ss p ++ special_sorts) e with Some _ => true | None => false end,
                    wf_body b, linear b)
  end.
"""


def seeds_for(tier: str, base: int) -> list[int]:
    n = 24 if tier == "quick" else 96
    return [(base * 31 + i * 7 + 1) % 100003 for i in range(n)]


def probe(prop: str, cases: list[tuple[str, str, iltext.Body]], seeds: list[int], fuel=400, shard=60, timeout=1200):
    """cases: (id, ast_coq, body).  Returns {id: None | (flags, ndefined, None | (seed, kind))}
    Programs with two or more loops (nesting makes the cost of an exhausted run fuel^depth) are evaluated with less fuel, in
    their own case files: runs that need more iterations than that count as "C undefined here" for that state only."""
    files = {}
    groups = {"": ([c for c in cases if c[1].count("SFor") < 2], fuel), "n": ([c for c in cases if c[1].count("SFor") >= 2], min(fuel, 90))}
    where = {}
    for tag, (grp, fl) in groups.items():
        sh = max(6, min(shard, -(-len(grp) // common.NPROC))) if grp else shard
        for k in range(0, len(grp), sh):
            chunk = grp[k : k + sh]
            rows = ";\n".join(f"({a}, {b.coq()})" for _, a, b in chunk)
            name = f"diff{tag}_{k // sh:04d}"
            where[name] = [c[0] for c in chunk]
            files[name] = (
                HEADER.format(seeds="[" + "; ".join(str(s) for s in seeds) + "]", fuel=fl)
                + f"Definition cases : list (cstmts * body) := [\n{rows}\n].\nEval vm_compute in (map probe cases).\n"
            )
    ok, outs, err = common.run_case_files(prop + "_diff", files, timeout=timeout)
    if not ok:
        raise RuntimeError("diff case files failed: " + err[-3000:])
    res = {}
    for name in sorted(outs):
        vals = common.coq_printed_values(outs[name])
        items = parse_option_list(vals[0])
        for cid, it in zip(where[name], items):
            res[cid] = it
    return res


EXCESS = """
(* Programs on which the model and the real output DISAGREE (K2): the first state on which the REAL effect is wrong (differs
   from C or gets stuck) while the model of the current tree - all known defects included - is right (or rejects). *)
Definition is_bad (v : verdict) : bool := match v with Differ | ILStuck => true | _ => false end.
Definition excess (c : N * cstmts * body) : option (Z * N) :=
  let '(h, p, b) := c in
  match denote b with
  | None => None
  | Some e =>
      match tlower (cfg_insn h) p with
      | OK (em, _) =>
          match find (fun s => is_bad (run_one xi csub_table ilsub_table {fuel} p e s) && negb (is_bad (run_one xi csub_table ilsub_table {fuel} p em s))) seeds with
          | Some s => Some (s, verdict_code (run_one xi csub_table ilsub_table {fuel} p e s))
          | None => None end
      | Err _ => first_bad xi csub_table ilsub_table {fuel} p e seeds
      end
  end.
"""


def excess(prop: str, cases, nseeds=160, fuel=300, timeout=900):
    """cases: (id, hstart, ast_coq, body) for programs with K2 status 2..4.  {id: (seed, kind)} for those with an excess failure"""
    if not cases:
        return {}
    seeds = [(common.seed() * 17 + i * 13 + 5) % 100003 for i in range(nseeds)]
    files = {}
    shard = max(1, -(-len(cases) // common.NPROC))
    ids = [c[0] for c in cases]
    for k in range(0, len(cases), shard):
        chunk = cases[k:k + shard]
        rows = ";\n".join(f"({h}%N, {a}, {b.coq()})" for _, h, a, b in chunk)
        fl = fuel if all(a.count("SFor") < 2 for _, _, a, _ in chunk) else 80
        files[f"exc_{k // shard:04d}"] = (HEADER.format(seeds="[" + "; ".join(str(x) for x in seeds) + "]", fuel=fl) + EXCESS.replace("{fuel}", str(fl))
                                           + f"Definition xcases : list (N * cstmts * body) := [\n{rows}\n].\nEval vm_compute in (map excess xcases).\n")
    ok, outs, err = common.run_case_files(prop + "_exc", files, timeout=timeout)
    if not ok:
        raise RuntimeError("excess case files failed: " + err[-2000:])
    res = {}
    for name in sorted(outs):
        k = int(name.split("_")[1]) * shard
        v = common.coq_printed_values(outs[name])[-1].replace("%N", "").replace("%Z", "")
        body = v.strip()[1:-1]
        parts = [x.strip() for x in re.split(r";(?![^()]*\))", body)] if body.strip() else []
        for j, part in enumerate(parts):
            m = re.search(r"Some \((-?\d+), (\d+)\)", part)
            if m:
                res[ids[k + j]] = (int(m.group(1)), int(m.group(2)))
    return res


COVER_HEADER = """From Coq Require Import ZArith NArith List Bool String.
From RZ.model Require Import Ast.
From RZ.proofs Require Import FragCheck.
Import ListNotations.
Local Open Scope string_scope.
"""


def covered(prop: str, cases, timeout=900):
    """cases: (id, hstart, ast_coq).  {id: bool}: FragCheck.covered h ast, i.e. the behaviour lies in the statement fragment and the
    real configuration translates it like the repaired one, so that FragCheck.covered_correct gives the simulation theorem for it"""
    if not cases:
        return {}
    files, where = {}, {}
    shard = max(1, -(-len(cases) // common.NPROC))
    for k in range(0, len(cases), shard):
        chunk = cases[k:k + shard]
        rows = ";\n".join(f"({h}%N, {a})" for _, h, a in chunk)
        name = f"cov_{k // shard:04d}"
        where[name] = [c[0] for c in chunk]
        files[name] = COVER_HEADER + f"Definition cases : list (N * cstmts) := [\n{rows}\n].\nEval vm_compute in (map (fun c => covered (fst c) (snd c)) cases).\n"
    ok, outs, err = common.run_case_files(prop + "_cov", files, timeout=timeout)
    if not ok:
        raise RuntimeError("covered case files failed: " + err[-2000:])
    res = {}
    for name in sorted(outs):
        vals = re.findall(r"true|false", common.coq_printed_values(outs[name])[-1])
        for cid, v in zip(where[name], vals):
            res[cid] = v == "true"
    return res


def covered_parts(prop: str, cases, timeout=900):
    """cases: (id, hstart, [ast_coq per part]).  {id: [bool per part]}: FragCheck.covered_parts h parts (the counter chained over the parts)"""
    if not cases:
        return {}
    files, where = {}, {}
    shard = max(1, -(-len(cases) // common.NPROC))
    for k in range(0, len(cases), shard):
        chunk = cases[k:k + shard]
        rows = ";\n".join(f"({h}%N, [{'; '.join(parts)}])" for _, h, parts in chunk)
        name = f"covp_{k // shard:04d}"
        where[name] = [(c[0], len(c[2])) for c in chunk]
        files[name] = COVER_HEADER + f"Definition cases : list (N * list cstmts) := [\n{rows}\n].\nEval vm_compute in (map (fun c => covered_parts (fst c) (snd c)) cases).\n"
    ok, outs, err = common.run_case_files(prop + "_cov", files, timeout=timeout)
    if not ok:
        raise RuntimeError("covered case files failed: " + err[-2000:])
    res = {}
    for name in sorted(outs):
        vals = [x == "true" for x in re.findall(r"true|false", common.coq_printed_values(outs[name])[-1])]
        pos = 0
        for cid, n in where[name]:
            res[cid] = vals[pos:pos + n]
            pos += n
    return res


def parse_option_list(v: str):
    """parse `[Some (3%N, 24%nat, None); None; Some (0%N, 12%nat, Some (5, 3%N))]`"""
    v = v.replace("%N", "").replace("%nat", "").replace("%Z", "")
    body = v.strip()
    assert body.startswith("[") and body.endswith("]"), body[:200]
    body = body[1:-1].strip()
    out = []
    if not body:
        return out
    depth, cur = 0, ""
    parts = []
    for ch in body:
        if ch == "(":
            depth += 1
        elif ch == ")":
            depth -= 1
        if ch == ";" and depth == 0:
            parts.append(cur.strip())
            cur = ""
        else:
            cur += ch
    parts.append(cur.strip())
    for p in parts:
        if p == "None":
            out.append(None)
            continue
        bools = [x == "true" for x in re.findall(r"\b(true|false)\b", p)]
        nums = [int(x) for x in re.findall(r"-?\d+", p)]
        bad = (nums[2], nums[3]) if "Some (" in p[5:] else None
        out.append({"flags": nums[0], "defined": nums[1], "bad": bad, "tmpdef": bools[-4], "sorted": bools[-3], "wf": bools[-2], "linear": bools[-1]})
    return out


LAYOUT_HEADER = """From Coq Require Import ZArith NArith List Bool String.
From RZ.sem Require Import RzIL CBody.
Import ListNotations.
Local Open Scope string_scope.
Local Open Scope Z_scope.
Local Open Scope list_scope.
(* 0 = both denote the same effect; 1 = differ; 2 = one of them does not denote *)
Definition same_layout (c : body * body) : N :=
  match denote (fst c), denote (snd c) with
  | Some a, Some b => if effect_eqb (canon a) (canon b) then 0 else 1
  | _, _ => 2
  end%N.
Definition mentions (b : body) (x : string) : bool :=
  existsb (fun u => String.eqb (fst u) x) (flat_map (fun d => uses false (dinit d)) (decls b) ++ uses false (ret b)).
"""


def layouts_equal(prop: str, pairs: list[tuple[str, iltext.Body, iltext.Body]], shard=80, timeout=900) -> dict:
    """pairs: (id, body in layout A, body in layout B) -> {id: (code, mentions_hi_A, mentions_pkt_A, mentions_hi_B, mentions_pkt_B)}"""
    files = {}
    ids = [p[0] for p in pairs]
    shard = max(10, min(shard, -(-len(pairs) // common.NPROC)))
    for k in range(0, len(pairs), shard):
        rows = ";\n".join(f"({a.coq()}, {b.coq()})" for _, a, b in pairs[k:k + shard])
        files[f"lay_{k // shard:04d}"] = (LAYOUT_HEADER + f"Definition cases : list (body * body) := [\n{rows}\n].\n"
                                         "Eval vm_compute in (map (fun c => (same_layout c, mentions (fst c) \"hi\", mentions (fst c) \"pkt\", mentions (snd c) \"hi\", mentions (snd c) \"pkt\")) cases).\n")
    ok, outs, err = common.run_case_files(prop + "_lay", files, timeout=timeout)
    if not ok:
        raise RuntimeError("layout case files failed: " + err[-2500:])
    res = {}
    for name in sorted(outs):
        k = int(name.split("_")[1]) * shard
        v = common.coq_printed_values(outs[name])[0].replace("%N", "")
        items = re.findall(r"\((\d+),\s*(true|false),\s*(true|false),\s*(true|false),\s*(true|false)\)", v)
        for j, it in enumerate(items):
            res[ids[k + j]] = (int(it[0]),) + tuple(x == "true" for x in it[1:])
    return res


def offenders(prop: str, items: list[tuple[str, iltext.Body]], timeout=600) -> dict:
    """symptom classes of bodies failing wf_body / linear: {id: {"wf": [...], "linear": [(kind, head, raw, any), ...]}}"""
    if not items:
        return {}
    hdr = LAYOUT_HEADER
    rows = ";\n".join(b.coq() for _, b in items)
    txt = (hdr + f"Definition cases : list body := [\n{rows}\n].\n"
           "Eval vm_compute in (map (fun b => (wf_offenders b, linear_offenders b)) cases).\n")
    ok, outs, err = common.run_case_files(prop + "_off", {"off": txt}, timeout=timeout)
    if not ok:
        raise RuntimeError("offender case file failed: " + err[-2000:])
    v = common.coq_printed_values(outs["off"])[0]
    # split top-level list elements "( [..], [..] )"
    parts, depth, cur = [], 0, ""
    for ch in v.strip()[1:-1]:
        if ch in "([":
            depth += 1
        elif ch in ")]":
            depth -= 1
        if ch == ";" and depth == 0:
            parts.append(cur)
            cur = ""
        else:
            cur += ch
    if cur.strip():
        parts.append(cur)
    res = {}
    kinds = {0: "DHexOp", 1: "DHexOpVal", 2: "DPure", 3: "DEffect", 4: "DOther", 9: "param"}
    for (jid, _), p in zip(items, parts):
        p = p.replace("%N", "").replace("%nat", "")
        i = p.index("],") if "]," in p else len(p)
        wf = re.findall(r'"((?:[^"]|"")*)"', p[:i])
        lin = [(kinds.get(int(a), a), h, int(r), int(n)) for a, h, r, n in re.findall(r'\((\d+),\s*"([^"]*)",\s*(\d+),\s*(\d+)\)', p[i:])]
        res[jid] = {"wf": wf, "linear": lin}
    return res


def symptom_classes(off: dict) -> set[str]:
    out = set()
    for w in off.get("wf", []):
        kind, _, name = w.partition(":")
        if kind == "undeclared":
            # classify by the shape of the name: operand handle, register / immediate variable, other
            if name.endswith("_op"):
                out.add("wf:undeclared-operand-handle")
            elif re.match(r"^([A-Z][a-z]{1,2}(_new)?|[A-Za-z]|[A-Z]\d+(_new)?|[a-z0-9_]+)$", name):
                out.add("wf:undeclared-register-or-immediate-variable")
            else:
                out.add("wf:undeclared-other")
        else:
            out.add("wf:" + kind)
    for kind, head, raw, n in off.get("linear", []):
        out.add(f"linear:{kind}:{head if kind != 'param' else 'param'}:raw={min(raw, 2)}")
    return out


def tmpdef_bodies(prop: str, cases, timeout=600):
    """cases: (id, body).  {id: bool | None}: TmpDef.tmp_def of the effect the body denotes (every compiler temporary is written before it is
    read on every path, known callees included); None = the body does not denote"""
    if not cases:
        return {}
    rows = ";\n".join(b.coq() for _, b in cases)
    txt = (HEADER.format(seeds="[]", fuel=10) + f"Definition bodies : list body := [\n{rows}\n].\n"
           "Eval vm_compute in (map (fun b => match denote b with Some e => if tmp_def ilsub_table e then 1 else 0 | None => 2 end)%N bodies).\n")
    ok, outs, err = common.run_case_files(prop + "_tmpdef", {"t": txt}, timeout=timeout)
    if not ok:
        raise RuntimeError("tmp_def case file failed: " + err[-1500:])
    vals = re.findall(r"\d", common.coq_printed_values(outs["t"])[-1].replace("%N", ""))
    return {cid: (None if v == "2" else v == "1") for (cid, _), v in zip(cases, vals)}


def probe_light(prop: str, cases, shard=120, timeout=900):
    """wf_body / linear / denotes only (no model, no guard flags, no execution): {id: {...}}"""
    files = {}
    ids = [c[0] for c in cases]
    shard = max(10, min(shard, -(-len(cases) // common.NPROC)))
    for k in range(0, len(cases), shard):
        rows = ";\n".join(c[-1].coq() for c in cases[k:k + shard])
        files[f"light_{k // shard:04d}"] = (LAYOUT_HEADER + f"Definition cases : list body := [\n{rows}\n].\n"
                                           "Eval vm_compute in (map (fun b => (match denote b with Some _ => true | None => false end, wf_body b, linear b)) cases).\n")
    ok, outs, err = common.run_case_files(prop + "_light", files, timeout=timeout)
    if not ok:
        raise RuntimeError("light case files failed: " + err[-2500:])
    res = {}
    for name in sorted(outs):
        k = int(name.split("_")[1]) * shard
        v = common.coq_printed_values(outs[name])[0]
        items = re.findall(r"\((true|false),\s*(true|false),\s*(true|false)\)", v)
        for j, it in enumerate(items):
            d, w, l = (x == "true" for x in it)
            res[ids[k + j]] = {"flags": 0, "defined": 0, "bad": None, "sorted": True, "wf": w, "linear": l} if d else None
    return res
