"""C11 / C12 / C16 — the emitted text as an object: well-formed body + sound metadata, linear ownership,
both layouts denote the same effect.  Evaluated by proved-sound Coq checkers (sem/CBody.v, sem/Own.v) on
every real output (generated programs and corpus, both layouts)."""
from __future__ import annotations

import random
import re

from . import common, corpus, diffrun, gen_prog, iltext, k2, semprop

FORMATS = ("READ_STATEMENTS", "EXEC_CLASSES")


def programs(tier, rnd: random.Random):
    g = gen_prog.Gen(rnd)
    n = 160 if tier == "quick" else 3000
    progs = [g.program(nstmts=rnd.randint(1, 4), depth=rnd.randint(1, 3), hybrids=rnd.choice([0.0, 0.3, 0.6])) for _ in range(n)]
    # heavy operand re-use, folded-away operands, conditionally emitted statements
    progs += ["{ RdV = RsV + RsV + RsV + RsV; ReV = RsV * RsV; }", "{ RdV = siV + siV; ReV = siV; }", "{ int32_t a = RsV; RdV = a + a + a; a = a; }",
              "{ RdV = (1 ? RsV : RtV); ReV = RtV; }", "{ RdV = (0 ? RsV : 7); }", "{ RdV = sizeof(RssV); }", "{ RdV = ({ int32_t a = RsV + RtV; a; }); }",
              "{ RdV = RsV ? ({ ReV = 1; RtV; }) : 2; }", "{ if (RsV) { RdV = RtV; } else { RdV = RtV + 1; } ReV = RtV; }", "{ RxV = RxV + RxV; RxV = RxV; }",
              "{ RdV = clz32(RsV) + clz32(RsV); }", "{ RdV = HEX_REG_ALIAS_USR + HEX_REG_ALIAS_USR; }", "{ P0 = P0_NEW & P0_NEW; }", "{ RdV = mem_load_u8(EA) + mem_load_u8(EA); }",
              "{ RdV = mem_load_u8(-1); }", "{ mem_store_u8(EA, -1); }", "{ JUMP(-4); }", "{ RdV = extract32(RsV, 0, 8) + extract32(RsV, 8, 8); }",
              # constructs that raise an attribute but never reach an effect: discarded values, dead arms below an operator
              "{ mem_load_u32(RtV); RdV = RsV; }", "{ RdV = ((2 > 1) ? RsV : ((int32_t) mem_load_u8(RtV + 1))); }", "{ RdV = (1 ? RsV : ((int32_t) mem_load_s32(RtV)) + 1); }",
              "{ RdV = (0 ? mem_load_u16(RsV) + 1 : RtV); }", "{ RdV = (1 ? RsV : PtN + 1); }", "{ RdV = (1 ? RsV : ({ P0 = 1; RtV; })); }", "{ RdV = (0 ? ({ P1 = RsV; 2; }) + 1 : RtV); }",
              "{ RsV + mem_load_u8(RtV); RdV = 1; }", "{ RdV = RsV; (int32_t) mem_load_s16(RtV); }",
              "{ for (i = 0; i < 2; i++) { RxV += RsV; } RdV = RsV; }", "{ RdV = RsV; RdV = RsV; RdV = RsV; }", "{ ; ; {} }", "{ RdV = 4 / 2; }", "{ RdV = (4 / 2) ? RsV : RtV; }"]
    # void calls as statements (at top level, after other statements, in a branch) whose arguments are COMPUTED (operands that exist only as
    # arguments of the call): every operand of the call must be declared in both layouts
    for call in ("trap(0, RsV + 1);", "trap(RsV & 3, RtV * 2);", "set_usr_field(bundle, HEX_REG_FIELD_USR_OVF, RsV + RtV);",
                 "set_usr_field(bundle, HEX_REG_FIELD_USR_LPCFG, (RsV > RtV));", "fcirc_add(bundle, RxV, siV + 1, MuV, get_corresponding_CS(pkt, MuV));"):
        progs += ["{ %s }" % call, "{ RdV = RsV; %s }" % call, "{ if (RuV) { %s } }" % call, "{ %s ReV = RtV + 1; }" % call]
    # several statements of the kinds that emit a fixed effect (cancel_slot, nop, empty statements, empty blocks) in ONE behaviour: every
    # occurrence needs its own effect node (an effect variable is used exactly once)
    progs += ["{ if (RsV) { RdV = 1; cancel_slot; } else { cancel_slot; } }", "{ if (RsV) { cancel_slot; } if (RtV) { cancel_slot; } }",
              "{ if (RsV) { if (RtV) { cancel_slot; } else { RdV = 2; cancel_slot; } } else { cancel_slot; } }", "{ cancel_slot; RdV = RsV; cancel_slot; }",
              "{ if (RsV) { ; } else { ; } ; }", "{ if (RsV) { {} } else { {} } {} }", "{ for (i = 0; i < 2; i++) { cancel_slot; } cancel_slot; }"]
    # every register alias in every access form: read, .new read, both in one statement, written, written and read back (each form has its own
    # declaration / operand-handle text in the emitted body)
    aliases = ["USR", "PC", "SP", "LR", "GP", "FP", "LC0", "LC1", "SA0", "SA1", "P3_0", "M0", "M1", "CS0", "CS1", "UPCYCLE", "PKTCOUNT", "UTIMER", "UGP",
               "FRAMELIMIT", "FRAMEKEY"]
    fam = []
    for a in aliases:
        fam += ["{ RdV = HEX_REG_ALIAS_%s; }" % a, "{ RdV = HEX_REG_ALIAS_%s_NEW; }" % a, "{ RddV = HEX_REG_ALIAS_%s_NEW + HEX_REG_ALIAS_%s; }" % (a, a),
                "{ RdV = HEX_REG_ALIAS_%s_NEW + HEX_REG_ALIAS_%s_NEW; }" % (a, a)]
        if a != "PC":
            fam += ["{ HEX_REG_ALIAS_%s = RsV; }" % a, "{ HEX_REG_ALIAS_%s = RsV; RdV = HEX_REG_ALIAS_%s; }" % (a, a)]
    progs += fam if tier != "quick" else rnd.sample(fam, 24) + ["{ RdV = HEX_REG_ALIAS_PC_NEW; }", "{ RdV = HEX_REG_ALIAS_PC_NEW + HEX_REG_ALIAS_PC; }"]
    return progs


def corpus_sample(tier, rnd):
    names = corpus.names()
    if tier == "thorough":
        return names
    # every operand-class/operator/operand-class triple, called routine and cast type of the corpus occurs in the sample
    from . import featcover
    cov, _ = featcover.cover(set(names))
    return sorted(set(cov) | set(rnd.sample(names, 30)))


def light_eval(prop, results, noped):
    """wf / linear of every accepted corpus part (no model involved)"""
    info = {"malformed": {}}
    bodies, cases = {}, []
    for r in results:
        if not r.get("ok") or r.get("name") in noped or r.get("insn") in noped:
            continue
        for j, t in enumerate(r["texts"]):
            try:
                b = iltext.parse_body(t)
                bodies[(r["id"], j)] = b
                if b.invalid_names:
                    info["malformed"][f"{r['name']}#{j}"] = "invalid C identifiers: " + ", ".join(b.invalid_names)
                cases.append(((r["id"], j), b))
            except iltext.ILParseError as e:
                info["malformed"][f"{r['name']}#{j}"] = str(e)
    pr = diffrun.probe_light(prop, cases)
    out = {}
    for (i, j), v in pr.items():
        out.setdefault(i, {})[j] = v if v is not None else {"k2": 0, "wf": False, "linear": True, "nodenote": True}
    out2 = {i: [dict(parts[j], k2=0) for j in sorted(parts)] for i, parts in out.items()}
    return out2, info, bodies


def corpus_layouts(ctx, prop, want):
    """compile a corpus sample in both layouts; wf / linear per part; layout equality; needs flags; getter names"""
    rnd, tier, fails, stats = ctx["rnd"], ctx["tier"], ctx["fails"], ctx["stats"]
    sample = corpus_sample(tier, rnd)
    noped = corpus.noped_list()
    per_fmt = {}
    for fmt in FORMATS:
        results = corpus.compile_insns(sample, fmt)
        out, info, bodies = light_eval(prop + "_" + fmt, results, noped)
        per_fmt[fmt] = (results, out, info, bodies)
    stats["corpus_instructions"] = len(sample)
    ra, outa, infoa, ba = per_fmt[FORMATS[0]]
    rb, outb, infob, bb = per_fmt[FORMATS[1]]
    byname_b = {r["name"]: r for r in rb}
    n_parts = n_bad = 0
    for fmt in FORMATS:
        results, out, info, bodies = per_fmt[fmt]
        byid = {r["id"]: r for r in results}
        for i, parts in out.items():
            for j, p in enumerate(parts):
                if p["k2"] != 0 and fmt == FORMATS[0]:
                    continue
                n_parts += 1
                if "wf" in want and not p["wf"]:
                    fails.append((f"{fmt}:corpus", f"{byid[i]['name']} part {j}", ["wf (corpus)"], {"flags": 0}))
                if "linear" in want and not p["linear"]:
                    fails.append((f"{fmt}:corpus", f"{byid[i]['name']} part {j}", ["linear (corpus)"], {"flags": 0}))
        for key, msg in info.get("malformed", {}).items():
            if "wf" in want:
                fails.append((f"{fmt}:corpus", key, ["malformed-text: " + msg], {"flags": 0}))
    stats["corpus_parts_checked"] = n_parts
    if "layouts" in want or "needs" in want:
        pairs = []
        meta_diff = []
        for r in ra:
            r2 = byname_b.get(r["name"])
            if not r2 or not (r.get("ok") and r2.get("ok")):
                if r2 and bool(r.get("ok")) != bool(r2.get("ok")) and r.get("stage") != "parse":
                    fails.append(("corpus", r["name"], ["accepted in one layout only"], {"flags": 0}))
                continue
            if r["metas"] != r2["metas"]:
                meta_diff.append(r["name"])
            for j in range(len(r["texts"])):
                if (r["id"], j) in ba and (r2["id"], j) in bb:
                    pairs.append((f"{r['name']}#{j}", ba[(r["id"], j)], bb[(r2["id"], j)]))
        lay = diffrun.layouts_equal(prop, pairs)
        stats["corpus_layout_pairs"] = len(pairs)
        byname_a = {r["name"]: r for r in ra}
        for key, (code, hi_a, pkt_a, hi_b, pkt_b) in lay.items():
            name, j = key.split("#")
            j = int(j)
            if "layouts" in want and code != 0:
                fails.append(("corpus", key, [f"layouts denote different effects (code {code})"], {"flags": 0}))
            if "needs" in want:
                for r, hi, pkt in ((byname_a[name], hi_a, pkt_a), (byname_b[name], hi_b, pkt_b)):
                    if (hi and not r["needs_hi"][j]) or (pkt and not r["needs_pkt"][j]):
                        fails.append(("corpus", key, ["text mentions hi/pkt but needs_hi/needs_pkt is false"], {"flags": 0}))
        if "layouts" in want and meta_diff:
            fails.append(("corpus", meta_diff[0], ["attributes differ between layouts"], {"flags": 0}))
    if "needs" in want:
        # getter names: one per part, unique over everything compiled
        seen = {}
        for r in ra:
            if r.get("ok"):
                if len(r["getter_names"]) != len(r["texts"]):
                    fails.append(("corpus", r["name"], ["number of getter names differs from number of parts"], {"flags": 0}))
                for gname in r["getter_names"]:
                    if not re.match(r"^[a-z_][a-z0-9_]*$", gname):
                        fails.append(("corpus", r["name"], [f"getter name {gname} is not an identifier"], {"flags": 0}))
                    if gname in seen and seen[gname] != r["name"]:
                        fails.append(("corpus", r["name"], [f"getter name {gname} also used by {seen[gname]}"], {"flags": 0}))
                    seen[gname] = r["name"]
        stats["getter_names_checked"] = len(seen)


GEN_SUBS = [  # (name, return type, parameters, body): parameters forwarded to macros / sub-routines, used repeatedly, unused
    ("vt_macro_twice", "uint32_t", ["uint32_t v"], "{ return bswap32(v) + bswap32(v); }"),
    ("vt_sub_and_use", "uint32_t", ["uint32_t v"], "{ return clz32(v) + (v >> 1); }"),
    ("vt_sub_twice", "uint32_t", ["uint32_t v"], "{ return clz32(v) + clo32(v); }"),
    ("vt_param_thrice", "int32_t", ["int32_t a", "int32_t b"], "{ return a + a + a + b; }"),
    ("vt_param_unused", "int32_t", ["int32_t a", "int32_t b"], "{ return a; }"),
    ("vt_deposit", "uint32_t", ["uint32_t addr"], "{ return deposit32(addr, 0, 16, revbit16(addr)); }"),
    ("vt_cast_arg", "uint64_t", ["uint32_t v"], "{ return clz64(v) + v; }"),
    ("vt_local", "int32_t", ["int32_t a"], "{ int32_t t = a; t = t + a; return t + extract32(a, 0, 8); }"),
    ("vt_branch", "int32_t", ["int32_t a", "int32_t b"], "{ int32_t r = b; if (a > b) { r = a; } return r + a; }"),
    # parameter names that merely CONTAIN `hi` / `pkt`; bodies that need the `hi` / `pkt` declarations
    ("vt_shift", "int32_t", ["HexInsnPktBundle *bundle", "const HexOp *RdV", "const HexOp *RsV", "int32_t shift"], "{ RdV = RsV >> shift; return shift; }"),
    ("vt_count", "int32_t", ["HexInsnPktBundle *bundle", "const HexOp *RsV", "uint32_t pkt_count"], "{ return RsV + pkt_count; }"),
    ("vt_high", "int32_t", ["HexInsnPktBundle *bundle", "int32_t high"], "{ return siV + high; }"),
    ("vt_ext", "int32_t", ["HexInsnPktBundle *bundle", "int32_t v"], "{ set_usr_field(bundle, HEX_REG_FIELD_USR_OVF, v); return get_usr_field(bundle, HEX_REG_FIELD_USR_OVF) + v; }"),
]


def subroutines(ctx, prop, want):
    """wf / linear of every bundled sub-routine body and of generated sub-routines (parameters are BORROWED pures: at most
    one use without DUP) -- the corpus and the generated instruction behaviours have only external parameters"""
    fails, stats = ctx["fails"], ctx["stats"]
    sig = k2.run_python([], want_sig=True)["signatures"]
    cases, where = [], {}
    for s_ in sig["subs"]:
        params = [(pn, (not t["ext"]) and (not t["void"])) for pn, t in zip(s_["pnames"], s_["params"])]
        try:
            b = iltext.parse_body(s_["body"], params)
            cases.append((("bundled", s_["name"]), b))
            if "wf" in want and b.undeclared_context():
                fails.append(("sub", "bundled sub-routine " + s_["name"], ["wf (sub-routine body mentions " + "/".join(b.undeclared_context()) + " without declaring it)"], {"flags": 0}))
            if b.invalid_names and "wf" in want:
                fails.append(("sub", s_["name"], ["malformed-text: invalid C identifiers " + ", ".join(b.invalid_names)], {"flags": 0}))
        except iltext.ILParseError as e:
            if "wf" in want:
                fails.append(("sub", "bundled sub-routine " + s_["name"], ["malformed-text: " + str(e)], {"flags": 0}))
    hist = [{"id": fmt, "steps": [{"entry": "sub", "fmt": fmt, "name": n, "ret": r, "params": ps, "code": code} for n, r, ps, code in GEN_SUBS]} for fmt in FORMATS]
    for h in k2.run_histories(hist):
        for (n, r, ps, code), st in zip(GEN_SUBS, h["steps"]):
            if not st.get("ok"):
                continue
            params = [(p_.split()[-1].lstrip("*"), "*" not in p_) for p_ in ps]
            try:
                b = iltext.parse_body(st["text"], params)
                cases.append(((h["id"], f"{r} {n}({', '.join(ps)}) {code}"), b))
                if "wf" in want and b.undeclared_context():
                    fails.append((f"sub:{h['id']}", f"{r} {n}({', '.join(ps)}) {code}", ["wf (sub-routine body mentions " + "/".join(b.undeclared_context()) + " without declaring it)"], {"flags": 0}))
            except iltext.ILParseError as e:
                if "wf" in want:
                    fails.append(("sub", f"{n} {code}", ["malformed-text: " + str(e)], {"flags": 0}))
    pr = diffrun.probe_light(prop + "_subs", cases)
    n = 0
    for key, v in pr.items():
        n += 1
        if v is None:
            continue
        if "wf" in want and not v["wf"]:
            fails.append((f"sub:{key[0]}", key[1], ["wf (sub-routine body)"], {"flags": 0}))
        if "linear" in want and not v["linear"]:
            fails.append((f"sub:{key[0]}", key[1], ["linear (sub-routine body)"], {"flags": 0}))
    stats["subroutine_bodies_checked"] = n


def make_spec(prop, oracles, want, theorems, note):
    def extra(ctx):
        # generated programs: layout equality / acceptance in both layouts
        k2r, allp, fails = ctx["k2r"], ctx["programs"], ctx["fails"]
        if "layouts" in want:
            pairs = []
            for i, code in enumerate(allp):
                a, b = k2r.results.get(f"{FORMATS[0]}:{i}", {}), k2r.results.get(f"{FORMATS[1]}:{i}", {})
                if bool(a.get("ok")) != bool(b.get("ok")) and a.get("stage") != "parse" and code not in ctx["known_codes"]:
                    fails.append((f"{FORMATS[0]}:{i}", code, [f"accepted in one layout only ({a.get('exc')} / {b.get('exc')})"], {"flags": 0}))
                ja, jb = f"{FORMATS[0]}:{i}", f"{FORMATS[1]}:{i}"
                if ja in k2r.bodies and jb in k2r.bodies:
                    pairs.append((str(i), k2r.bodies[ja], k2r.bodies[jb]))
                    if a.get("meta") != b.get("meta"):
                        fails.append((ja, code, ["attributes differ between layouts"], {"flags": 0}))
            lay = diffrun.layouts_equal(prop + "_gen", pairs)
            ctx["stats"]["layout_pairs"] = len(pairs)
            for i, v in lay.items():
                if v[0] != 0 and allp[int(i)] not in ctx["known_codes"]:
                    fails.append((f"{FORMATS[0]}:{i}", allp[int(i)], [f"layouts denote different effects (code {v[0]})"], {"flags": 0}))
        corpus_layouts(ctx, prop, want)
        if "wf" in want or "linear" in want:
            subroutines(ctx, prop, want)

    return semprop.Spec(prop=prop, programs=programs, oracles=oracles, formats=FORMATS, mask=0, extra=extra, theorems=theorems, note=note,
                        fresh_counter=True)
