"""G3/G4: rzilcompiler/HexagonExtensions.py (flag setters, reset_flags, get_meta, token table) and the
`set_token_meta_data` call sites + reset()/entry-point shapes of RZILTransformer.py / Compiler.py
-> coq/gen/MetaTables.v.  Pattern-specific and fail-closed."""
from __future__ import annotations

import ast

from . import common
from .pytr import TranslatorError, find_function, segment

EXT = "rzilcompiler/HexagonExtensions.py"
TR = "rzilcompiler/Transformer/RZILTransformer.py"
COMP = "rzilcompiler/Compiler.py"
HOLDER = "rzilcompiler/Transformer/ILOpsHolder.py"

FIELDS = {"is_conditional": "f_cond", "uses_new": "f_new", "writes_mem": "f_memw", "reads_mem": "f_memr", "branches": "f_branch",
          "writes_predicate": "f_wpred", "preds_written": "f_preds"}


def q(s):
    return '"' + s + '"'


def setter_effect(fn: ast.FunctionDef) -> list[str]:
    """returns list of coq update fragments for a set_* method"""
    ups = []
    for st in fn.body:
        if isinstance(st, ast.Expr) and isinstance(st.value, ast.Constant):
            continue
        txt = ast.unparse(st)
        ok = False
        for py, cq in FIELDS.items():
            if txt == f"if not self.{py}:\n    self.{py} = True":
                ups.append(("set", cq))
                ok = True
        if txt == "if num in range(4) and num not in self.preds_written:\n    self.preds_written.append(num)":
            ups.append(("pred", None))
            ok = True
        if not ok:
            raise TranslatorError(f"{EXT}: setter {fn.name} has an unexpected statement: {txt!r}", st)
    return ups


def generate():
    src = (common.REPO / EXT).read_text()
    tree = ast.parse(src)
    cls = [n for n in tree.body if isinstance(n, ast.ClassDef) and n.name == "HexagonTransformerExtension"][0]
    class_level = {}
    for st in cls.body:
        if isinstance(st, ast.Assign) and len(st.targets) == 1 and isinstance(st.targets[0], ast.Name):
            class_level[st.targets[0].id] = ast.unparse(st.value)
    methods = {n.name: n for n in cls.body if isinstance(n, ast.FunctionDef)}
    # instance initialisation
    init_fields = [t.attr for st in methods["__init__"].body if isinstance(st, ast.Assign) for t in st.targets
                   if isinstance(t, ast.Attribute) and isinstance(t.value, ast.Name) and t.value.id == "self"]
    # reset_flags: which fields are re-bound, to what
    reset = {}
    for st in methods["reset_flags"].body:
        if isinstance(st, ast.Assign) and len(st.targets) == 1 and isinstance(st.targets[0], ast.Attribute):
            reset[st.targets[0].attr] = ast.unparse(st.value)
        else:
            raise TranslatorError(f"{EXT}: reset_flags has an unexpected statement", st)
    for f, v in reset.items():
        if f in FIELDS and v not in ("False", "list()", "[]"):
            raise TranslatorError(f"{EXT}: reset_flags sets {f} to {v}")
    setters = {name: setter_effect(fn) for name, fn in methods.items() if name.startswith("set_") and name != "set_token_meta_data"}
    # token table
    tok_fn = methods["set_token_meta_data"]
    table = []
    node = tok_fn.body[0] if not isinstance(tok_fn.body[0], ast.Expr) else tok_fn.body[1]
    while isinstance(node, ast.If):
        cond = ast.unparse(node.test)
        if not (cond.startswith("token == '") and cond.endswith("'")):
            raise TranslatorError(f"{EXT}: set_token_meta_data condition {cond}", node)
        tok = cond[len("token == '"):-1]
        body = [s for s in node.body]
        txt = "\n".join(ast.unparse(s) for s in body)
        if len(body) == 1 and isinstance(body[0], ast.Expr) and ast.unparse(body[0]).startswith("self.set_") and ast.unparse(body[0]).endswith("()"):
            table.append((tok, "always", ast.unparse(body[0])[5:-2]))
        elif txt == "if kwargs['is_new']:\n    self.set_uses_new()":
            table.append((tok, "if_new", "set_uses_new"))
        elif txt.startswith("if len(kwargs) != 1:") and txt.endswith("num = kwargs['pred_num']\nself.set_writes_pred(num)"):
            table.append((tok, "pred", "set_writes_pred"))
        else:
            raise TranslatorError(f"{EXT}: set_token_meta_data branch for {tok}: {txt!r}", node)
        node = node.orelse[0] if len(node.orelse) == 1 else None
    # get_meta
    gm = methods["get_meta"]
    gm_txt = ast.unparse(gm)
    order = []
    for st in gm.body:
        if isinstance(st, ast.If):
            t = ast.unparse(st.test)
            if t.startswith("self.") and t[5:] in FIELDS:
                first = ast.unparse(st.body[0])
                if not (first.startswith("flags.append('") and first.endswith("')")):
                    raise TranslatorError(f"{EXT}: get_meta body", st)
                name = first[len("flags.append('"):-2]
                extra = ""
                if len(st.body) == 2:
                    if ast.unparse(st.body[1]) != "for p in self.preds_written:\n    flags.append(f'HEX_IL_INSN_ATTR_WRITE_P{p}')":
                        raise TranslatorError(f"{EXT}: get_meta preds loop", st)
                    extra = "preds"
                elif len(st.body) != 1:
                    raise TranslatorError(f"{EXT}: get_meta branch", st)
                order.append((FIELDS[t[5:]], name, extra))
            elif t == "len(flags) == 0":
                if ast.unparse(st.body[0]) != "flags.append('HEX_IL_INSN_ATTR_NONE')":
                    raise TranslatorError(f"{EXT}: get_meta NONE branch", st)
            else:
                raise TranslatorError(f"{EXT}: get_meta condition {t}", st)
    gm_reads = sorted({n.attr for n in ast.walk(gm) if isinstance(n, ast.Attribute) and isinstance(n.value, ast.Name) and n.value.id == "self"})
    if ast.unparse(methods["get_noped_meta"].body[-1]) != "return ['HEX_IL_INSN_ATTR_NONE']":
        raise TranslatorError(f"{EXT}: get_noped_meta changed")
    # reg_alias sends new_reg for _NEW aliases
    ra = ast.unparse(methods["reg_alias"])
    alias_new = "if items[1]:\n        is_new = True\n        self.set_token_meta_data('new_reg')" in ra
    # call sites in the transformer
    tsrc = (common.REPO / TR).read_text()
    ttree = ast.parse(tsrc)
    tcls = [n for n in ttree.body if isinstance(n, ast.ClassDef) and n.name == "RZILTransformer"][0]
    sites = {}
    for fn in tcls.body:
        if isinstance(fn, ast.FunctionDef):
            for n in ast.walk(fn):
                if isinstance(n, ast.Call) and isinstance(n.func, ast.Attribute) and n.func.attr == "set_token_meta_data":
                    a0 = n.args[0]
                    if not isinstance(a0, ast.Constant):
                        raise TranslatorError(f"{TR}: non-literal token in {fn.name}", n)
                    sites.setdefault(fn.name, []).append(a0.value)
    tmethods = {n.name: n for n in tcls.body if isinstance(n, ast.FunctionDef)}
    # pred_write call shape
    ae = ast.unparse(tmethods["assignment_expr"])
    pw_ok = ("if isinstance(dest, Register) and dest.get_isa_name()[0] == 'P':" in ae
             and "pred_num=dest.get_pred_num() if dname[1] in ['0', '1', '2', '3'] else -1" in ae)
    if not pw_ok:
        raise TranslatorError(f"{TR}: predicate-write detection in assignment_expr changed")
    # reset() of the transformer and entry points (G4)
    # reset() must be STRAIGHT-LINE: a sequence of unconditional calls.  A guard, an early return, a try ... would make "reset clears X"
    # depend on the state (the tables below record the calls as if they always happen): fail closed.
    for st in tmethods["reset"].body:
        if isinstance(st, ast.Expr) and isinstance(st.value, ast.Constant) and isinstance(st.value.value, str):
            continue
        if not (isinstance(st, ast.Expr) and isinstance(st.value, ast.Call)):
            raise TranslatorError(f"{TR}: reset() is no longer a straight-line sequence of calls: `{ast.unparse(st)[:80]}`", st)
    for st in methods["reset_flags"].body:
        if not isinstance(st, (ast.Assign, ast.Expr)):
            raise TranslatorError(f"{EXT}: reset_flags() is no longer a straight-line sequence of assignments: `{ast.unparse(st)[:80]}`", st)
    reset_calls = [ast.unparse(s) for s in tmethods["reset"].body if not (isinstance(s.value, ast.Constant))]
    holder_src = (common.REPO / HOLDER).read_text()
    htree = ast.parse(holder_src)
    hcls = [n for n in htree.body if isinstance(n, ast.ClassDef) and n.name == "ILOpsHolder"][0]
    hm = {n.name: n for n in hcls.body if isinstance(n, ast.FunctionDef)}
    holder_fields = []
    for st in hm["__init__"].body:
        if isinstance(st, ast.Assign):
            holder_fields += [t.attr for t in st.targets if isinstance(t, ast.Attribute)]
        elif isinstance(st, ast.AnnAssign) and isinstance(st.target, ast.Attribute):
            holder_fields.append(st.target.attr)
    holder_clear = []
    for st in hm["clear"].body:
        t = ast.unparse(st)
        if t.endswith(".clear()") and t.startswith("self."):
            holder_clear.append(t[5:-8])
        elif t.startswith("self.") and " = " in t:
            holder_clear.append(t[5:].split(" = ")[0])
        elif isinstance(st, ast.Expr) and isinstance(st.value, ast.Constant):
            pass
        else:
            raise TranslatorError(f"{HOLDER}: clear() statement {t}", st)
    csrc = (common.REPO / COMP).read_text()
    ctree = ast.parse(csrc)
    ccls = [n for n in ctree.body if isinstance(n, ast.ClassDef) and n.name == "Compiler"][0]
    cm = {n.name: n for n in ccls.body if isinstance(n, ast.FunctionDef)}

    def resets_on_all_paths(fn: ast.FunctionDef) -> str:
        """'finally' if transformer.reset() is in a finally block enclosing the transform call, 'after' if only after success, 'none'"""
        txt = ast.unparse(fn)
        if "self.transformer.reset()" not in txt:
            return "none"
        for n in ast.walk(fn):
            if isinstance(n, ast.Try) and any("self.transformer.reset()" in ast.unparse(s) for s in n.finalbody) \
                    and any("self.transformer.transform(" in ast.unparse(s) for s in n.body):
                return "finally"
        return "after"

    entry = {"compile_c_stmt": resets_on_all_paths(cm["compile_c_stmt"]), "transform_insn": resets_on_all_paths(cm["transform_insn"])}
    ti = ast.unparse(cm["transform_insn"])
    entry["transform_insn_resets_before_each_part"] = "for pt, text in zip(parsed_insns.asts, parsed_insns.behaviors):\n            self.transformer.reset()" in ti
    compiler_class_level = [st.targets[0].id for st in ccls.body if isinstance(st, ast.Assign) and isinstance(st.targets[0], ast.Name)]
    compiler_class_level += [st.target.id for st in ccls.body if isinstance(st, ast.AnnAssign) and isinstance(st.target, ast.Name) and st.value is not None]

    coq_str_list = lambda xs: "[" + "; ".join(q(x) for x in xs) + "]"
    out = [
        "(* GENERATED by tools/vt/tr_meta.py from HexagonExtensions.py, RZILTransformer.py, ILOpsHolder.py, Compiler.py -- do not edit *)",
        "From Coq Require Import ZArith List Bool String.",
        "Import ListNotations.",
        "Local Open Scope string_scope.",
        "Local Open Scope list_scope.",
        "",
        "Record mflags := mkmf { f_cond : bool; f_new : bool; f_memw : bool; f_memr : bool; f_branch : bool; f_wpred : bool; f_preds : list Z }.",
        "Definition clean : mflags := mkmf false false false false false false [].",
        "Definition upd (f : mflags) (which : string) : mflags :=",
        "  mkmf (f_cond f || String.eqb which \"f_cond\") (f_new f || String.eqb which \"f_new\") (f_memw f || String.eqb which \"f_memw\")",
        "       (f_memr f || String.eqb which \"f_memr\") (f_branch f || String.eqb which \"f_branch\") (f_wpred f || String.eqb which \"f_wpred\") (f_preds f).",
        "Definition add_pred (f : mflags) (n : Z) : mflags :=",
        "  if ((0 <=? n) && (n <? 4))%Z && negb (existsb (Z.eqb n) (f_preds f))",
        "  then mkmf (f_cond f) (f_new f) (f_memw f) (f_memr f) (f_branch f) (f_wpred f) (f_preds f ++ [n]) else f.",
    ]
    for name, ups in setters.items():
        body = "f"
        for kind, fld in ups:
            body = f"(upd {body} {q(fld)})" if kind == "set" else f"(add_pred {body} num)"
        out.append(f"Definition {name} (f : mflags) (num : Z) : mflags := {body}.")
    out.append("(* set_token_meta_data *)")
    out.append("Definition token_effect (tok : string) (is_new : bool) (num : Z) (f : mflags) : mflags :=")
    for tok, mode, setter in table:
        if mode == "always":
            out.append(f"  if String.eqb tok {q(tok)} then {setter} f num else")
        elif mode == "if_new":
            out.append(f"  if String.eqb tok {q(tok)} then (if is_new then {setter} f num else f) else")
        else:
            out.append(f"  if String.eqb tok {q(tok)} then {setter} f num else")
    out.append("  f.")
    out.append("(* get_meta *)")
    out.append("Definition get_meta (f : mflags) : list string :=")
    parts = []
    for fld, name, extra in order:
        e = f"(if {fld} f then [{q(name)}]" + (" ++ map (fun p => String.append \"HEX_IL_INSN_ATTR_WRITE_P\" (String (Ascii.ascii_of_nat (48 + Z.to_nat p)) EmptyString)) (f_preds f)" if extra else "") + " else [])"
        parts.append(e)
    out.append("  let l := " + " ++ ".join(parts) + " in")
    out.append("  match l with [] => [\"HEX_IL_INSN_ATTR_NONE\"] | _ => l end.")
    out.append("(* callbacks of RZILTransformer -> tokens they send *)")
    out.append("Definition callback_tokens : list (string * list string) := [" + "; ".join(f"({q(k)}, {coq_str_list(v)})" for k, v in sites.items()) + "].")
    out.append(f"Definition alias_new_sends_new_reg : bool := {'true' if alias_new else 'false'}.")
    out.append("(* G4: field sets *)")
    out.append(f"Definition ext_class_level : list string := {coq_str_list(list(class_level))}.")
    out.append(f"Definition ext_init_fields : list string := {coq_str_list(init_fields)}.")
    out.append(f"Definition ext_reset_fields : list string := {coq_str_list(list(reset))}.")
    out.append(f"Definition ext_get_meta_reads : list string := {coq_str_list(gm_reads)}.")
    out.append(f"Definition transformer_reset_calls : list string := {coq_str_list(reset_calls)}.")
    out.append(f"Definition holder_fields : list string := {coq_str_list(holder_fields)}.")
    out.append(f"Definition holder_clear_fields : list string := {coq_str_list(holder_clear)}.")
    out.append(f"Definition entry_reset_compile_c_stmt : string := {q(entry['compile_c_stmt'])}.")
    out.append(f"Definition entry_reset_transform_insn : string := {q(entry['transform_insn'])}.")
    out.append(f"Definition transform_insn_resets_before_each_part : bool := {'true' if entry['transform_insn_resets_before_each_part'] else 'false'}.")
    out.append(f"Definition compiler_class_level : list string := {coq_str_list(compiler_class_level)}.")
    meta = {"sources": [EXT, TR, HOLDER, COMP], "tokens": [t for t, _, _ in table], "callbacks_with_tokens": len(sites),
            "sha": common.sha(src + ast.unparse(tmethods["reset"]) + ast.unparse(cm["compile_c_stmt"]) + ast.unparse(cm["transform_insn"]))}
    return "\n".join(out) + "\n", meta


def run():
    txt, meta = generate()
    common.write_if_changed(common.GEN / "MetaTables.v", txt)
    return meta


if __name__ == "__main__":
    print(generate()[0])
