"""C10 — emitted effects are well-sorted (wf_effect on the denotation of every real output, every arm)."""
import random

from . import gen_prog, semprop


def programs(tier, rnd: random.Random):
    progs = list(gen_prog.op_matrix())[rnd.randrange(9)::9] + list(gen_prog.asg_matrix())[rnd.randrange(5)::5]
    g = gen_prog.Gen(rnd)
    n = 220 if tier == "quick" else 4000
    for _ in range(n):
        progs.append(g.program(nstmts=rnd.randint(1, 4), depth=rnd.randint(1, 3), hybrids=rnd.choice([0.0, 0.0, 0.3])))
    progs += ["{ RdV = (RsV < RtV) + (RsV == RtV); }", "{ RdV = (RsV < RtV) == (RuV < RvV); }", "{ if (RsV < RtV) { RdV = RsV && RtV; } }",
              "{ RdV = (RsV && RtV) ? 1 : 2; }", "{ if (!RsV) { RdV = 1; } }", "{ for (i = 0; !(i == 3); i++) { RxV = i; } }"]
    return progs


SPEC = semprop.Spec(
    prop="C10", programs=programs, oracles=("sorted",),
    theorems=["C10_refuted_bool_written", "C10_fixed_local_keeps_width", "C10_refuted", "C10_repaired_witnesses"],
    note="programs mixing comparison/logical results with arithmetic, narrow and wide types, compound assignments; wf_effect checks "
         "both arms of every BRANCH/ITE and every loop body",
)


def run(tier):
    return semprop.run(SPEC, tier)


def replay(path):
    return semprop.replay("C10", path)
