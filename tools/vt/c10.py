"""C10 — emitted effects are well-sorted (wf_effect on the denotation of every real output, every arm)."""
import random

from . import gen_prog, semprop


def programs(tier, rnd: random.Random):
    progs = list(gen_prog.op_matrix())[rnd.randrange(9)::9] + list(gen_prog.asg_matrix())[rnd.randrange(5)::5]
    g = gen_prog.Gen(rnd)
    n = 220 if tier == "quick" else 4000
    for _ in range(n):
        progs.append(g.program(nstmts=rnd.randint(1, 4), depth=rnd.randint(1, 3), hybrids=rnd.choice([0.0, 0.0, 0.3])))
    progs += ["{ RdV = (RsV < RtV) + (RsV == RtV); }", "{ RdV = (RsV < RtV) == (RuV < RvV); }", "{ if (RsV < RtV) { RdV = RsV && RtV; } }",
              "{ RdV = (RsV && RtV) ? 1 : 2; }", "{ if (!RsV) { RdV = 1; } }", "{ for (i = 0; !(i == 3); i++) { RxV = i; } }"]
    # every kind of controlling expression in every position that takes a condition (if, ?:, for): logical operators whose operands are
    # integers, comparisons, mixtures; plain integers; negations -- a condition must reach BRANCH / ITE / REPEAT as a boolean, exactly once wrapped
    conds = ["RsV && RtV", "RsV || RtV", "!RsV", "(i < 2) && RsV", "RsV && (i < 2)", "!(RsV && RtV)", "!!RsV", "RsV", "i < 2", "(RsV < RtV) || RuV", "!RsV && !RtV"]
    for c_ in conds:
        progs += ["{ i = 0; if (%s) { RdV = 1; } }" % c_, "{ i = 0; RdV = (%s) ? 1 : 2; }" % c_,
                  "{ RdV = 0; for (i = 0; (%s) && (i < 2); i++) { RdV = RdV + 1; } }" % c_, "{ RdV = 0; for (i = 0; %s; i++) { RdV = RdV + 1; if (i > 1) { RsV = 0; RtV = 0; RuV = 0; } } }" % c_]
    return progs


SUBS_SORTED = """
(* every bundled sub-routine body, instantiated with literals of its parameters' declared types, must be well-sorted in an
   environment where the shared return slot ret_val is a 64-bit local (that is what every caller reads: UNSIGNED(w, VARL ret_val)) *)
Definition param_lits (c : config) : list (string * pure) :=
  flat_map (fun p => if vt_ext (snd p) || vt_void (snd p) then [] else [(fst p, PBv (vt_sg (snd p)) (vt_w (snd p)) 0)]) (cfg_params c).
Definition sub_sorted (x : string * (body * config * cstmts)) : bool :=
  let '(_, (b, c, p)) := x in
  match denote b with
  | Some e => match wf_effect (rw_of (regs_ss xi p)) (decl_sorts_ss p ++ special_sorts) (subst_eff (param_lits c) e) with Some _ => true | None => false end
  | None => true
  end.
Eval vm_compute in (map sub_sorted sub_bodies).
"""


def extra(ctx):
    """the sub-routine bodies are effects too: their sorts must fit the callers' (one width for ret_val)"""
    from . import common, diffrun
    import re
    hdr = diffrun.HEADER.format(seeds="[]", fuel=10) + SUBS_SORTED
    ok, outs, err = common.run_case_files("C10_subs", {"subs": hdr}, timeout=600)
    if not ok:
        ctx["res"] and None
        raise RuntimeError("sub-routine sort check failed to evaluate: " + err[-1500:])
    vals = [x == "true" for x in re.findall(r"true|false", common.coq_printed_values(outs["subs"])[-1])]
    subs = [s_ for s_ in (ctx["k2r"].sig or {}).get("subs", []) if "ast" in s_]
    names = [s_["name"] for s_ in subs]
    # bodies built on opaque plugin macros have no sort in sem/RzIL.v (app_sort): not decidable here, reported in the evidence
    opaque = {s_["name"] for s_ in subs if re.search(r"REGFIELD|HEX_GET_CORRESPONDING_CS", s_["body"])}
    ctx["stats"]["sub_routine_bodies_with_opaque_macros_not_sort_checked"] = sorted(opaque)
    ctx["stats"]["sub_routine_bodies_sort_checked"] = len(vals)
    known_subs = {k["witness"].get("sub") for k in ctx["known_codes"].values()} if False else set()
    for n, v in zip(names, vals):
        if not v and n not in opaque:
            ctx["fails"].append(("sub", "bundled sub-routine " + n, ["sorted (sub-routine body, ret_val : 64 bit)"], {"flags": 0}))


SPEC = semprop.Spec(
    prop="C10", programs=programs, oracles=("sorted",), extra=extra,
    theorems=["C10_refuted_bool_written", "C10_fixed_local_keeps_width", "C10_refuted", "C10_repaired_witnesses"],
    note="programs mixing comparison/logical results with arithmetic, narrow and wide types, compound assignments; wf_effect checks "
         "both arms of every BRANCH/ITE and every loop body",
)


def run(tier):
    return semprop.run(SPEC, tier)


def replay(path):
    return semprop.replay("C10", path)
