"""C14 — results do not depend on history or on earlier failures (G4 obligations + K-hist)."""
from __future__ import annotations

import json
import random
import re
import time

from . import common, gen_prog, k2, tr_meta
from .common import Broken, Result

FAILING = ["{ RdV = ; }", "{ while (RsV) { RdV = 1; } }", "{ a = 1; }", "{ RdV = foo(RsV); }", "{ RdV = 4 / 2; }", "{ int32_t a = RsV; a++; RdV = unknown_fn(a); }",
           "{ RdV = clz32(RsV) + bar; }", "{ RdV = ({ int32_t z = RsV; z; }) + qux(1); }", "{ RxV++; RdV = RsV, 1; }", "{ P0 = 1; RdV = a[1]; }",
           "{ RdV = siV + *RsV; }", "{ int32_t a = RsV; int32_t a2 = a++ + a--; RdV = a2 % 0x0; goto l; }"]


def canon(text: str) -> str:
    lines = [l for l in (ln.split("//")[0].rstrip() for ln in text.split("\n")) if l.strip()]
    t = "\n".join(lines)
    names = {}

    def ren(m):
        return names.setdefault(m.group(0), f"h_tmp#{len(names)}")
    return re.sub(r"h_tmp\d+", ren, t)


def histories(tier, rnd):
    n = 40 if tier == "quick" else 400
    g = gen_prog.Gen(rnd)
    hs = []
    for i in range(n):
        steps = []
        for _ in range(rnd.randint(3, 10)):
            if rnd.random() < 0.25:
                code = rnd.choice(FAILING)
            else:
                code = g.program(nstmts=rnd.randint(1, 3), depth=1, hybrids=rnd.choice([0.0, 0.4, 0.6]))
            steps.append({"c": rnd.choice([0, 0, 1]), "entry": rnd.choice(["insn", "stmt"]), "code": code,
                          "fmt": "READ_STATEMENTS"})
        hs.append({"id": i, "steps": steps})
    hs.append({"id": n, "steps": [{"c": 0, "entry": "stmt", "code": "{ RdV = 4 / 2; }"}, {"c": 0, "entry": "stmt", "code": "{ RsV = 1; }"},
                                  {"c": 0, "entry": "insn", "code": "{ i++; RdV = unknown_fn(RsV); }"}, {"c": 0, "entry": "insn", "code": "{ RdV = RsV + 1; }"},
                                  {"c": 0, "entry": "stmt", "code": "{ RdV = clz32(RsV); }"}, {"c": 1, "entry": "stmt", "code": "{ RdV = clz32(RsV); }"}]})
    # type spellings: the same declarations / casts with every spelling of the C base types, in random order (a type object that one
    # compilation re-labels -- `unsigned int`, `const int` -- must not be seen by the next)
    specs = ["int", "unsigned int", "unsigned", "const int", "const unsigned int", "int32_t", "uint32_t", "size4u_t", "size4s_t", "int64_t",
             "uint64_t", "size8u_t", "size8s_t", "int8_t", "uint8_t", "int16_t", "uint16_t", "const uint32_t", "const int64_t"]
    fam = []
    for t in specs:
        fam.append("{ %s a = RsV; RdV = (a >> 1); }" % t)
        if not t.startswith("const"):
            fam.append("{ RdV = (((%s) RsV) >> 1); }" % t)
            fam.append("{ %s a; a = RssV; RddV = a * 3; }" % t)
    for j in range(4 if tier == "quick" else 30):
        order = fam[:]
        rnd.shuffle(order)
        hs.append({"id": n + 200 + j, "steps": [{"c": 0, "entry": rnd.choice(["stmt", "insn"]), "code": c_} for c_ in order]})
    # prefixes of random permutations of the SHIPPED corpus (single-part behaviours), through transform_insn
    try:
        beh = k2.run_python([{"id": 0, "op": "behaviors"}], want_sig=False, nproc=1)["results"][0]["behaviors"]
        singles = sorted(b[0] for b in beh.values() if len(b) == 1)
        for j in range(6 if tier == "quick" else 60):
            pick = rnd.sample(singles, 14)
            hs.append({"id": n + 300 + j, "steps": [{"c": rnd.choice([0, 0, 1]), "entry": "insn", "code": c_} for c_ in pick]})
    except Exception:
        pass
    # counter sweep: the same two-hybrid behaviours after 0..12 (thorough: also 97..101) earlier hybrids, so that the temporaries' numbers
    # cross every digit-length boundary (h_tmp9 / h_tmp10, h_tmp99 / h_tmp100)
    probes = ["{ int32_t i = RsV; RdV = (i++) * 10 + (i--); }", "{ RdV = clz32(RsV) + clo32(RtV); }", "{ int32_t a = RsV; RdV = fbrev(a++) + a--; ReV = a; }"]
    ks = list(range(0, 13)) + ([97, 98, 99, 100, 101] if tier != "quick" else [])
    for j, k_ in enumerate(ks):
        hs.append({"id": n + 10 + j, "steps": [{"c": 0, "entry": "stmt", "code": "{ RxV++; }"} for _ in range(k_)]
                   + [{"c": 0, "entry": rnd.choice(["stmt", "insn"]), "code": p_} for p_ in probes]})
    # D33 witness: a user identifier spelled like the temporary the counter is about to hand out
    hs.append({"id": n + 1, "steps": [{"c": 0, "entry": "stmt", "code": "{ RxV++; }"} for _ in range(7)]
               + [{"c": 0, "entry": "stmt", "code": "{ int32_t h_tmp7 = 5; RdV = RxV++; ReV = h_tmp7; }"}]})
    return hs


def run(tier):
    res = Result("C14", tier)
    rnd = random.Random(common.seed() + 14)
    broken = []
    with common.Lock():
        meta = {}
        try:
            meta = tr_meta.run()
        except Exception as e:
            broken.append(Broken("translator", "G4 tools/vt/tr_meta.py", str(e)[:1500]))
        b2, binfo = common.build_property("C14")
        broken += b2
        model_ok = not any(x.kind in ("proof", "translator", "forbidden") for x in broken)
    hs = histories(tier, rnd)
    t0 = time.time()
    hres = k2.run_histories(hs)
    distinct = {}
    for h, hr in zip(hs, hres):
        for k, st in enumerate(hr.get("steps", [])):
            distinct.setdefault((h["steps"][k]["entry"], h["steps"][k]["code"]), []).append((h, k, st))
    keys = list(distinct)
    fresh = k2.run_histories([{"id": i, "steps": [{"c": 0, "entry": e, "code": c}]} for i, (e, c) in enumerate(keys)])
    wall = round(time.time() - t0, 1)
    fails = []
    n_cmp = n_ok_steps = 0
    for key, fr in zip(keys, fresh):
        f0 = fr["steps"][0] if fr.get("steps") else {"ok": False, "exc": "harness"}
        for h, k, st in distinct[key]:
            n_cmp += 1
            same = (bool(st.get("ok")) == bool(f0.get("ok")))
            if same and st.get("ok"):
                n_ok_steps += 1
                same = canon(st["text"]) == canon(f0["text"]) and st.get("meta") == f0.get("meta")
            elif same:
                same = st.get("exc") == f0.get("exc")
            if not same:
                fails.append({"history": h["steps"][:k + 1], "step": k, "entry": key[0], "behaviour": key[1],
                              "in_history": {x: st.get(x) for x in ("ok", "exc", "msg", "meta")}, "fresh": {x: f0.get(x) for x in ("ok", "exc", "msg", "meta")},
                              "text_in_history": st.get("text"), "text_fresh": f0.get("text")})
                break
    known = {k["id"]: k for k in common.load_known("C14")}
    if "D33" in known:
        rest = []
        for f in fails:
            if re.search(r"\bh_tmp\d+\b", f["behaviour"]):
                res.known(f"D33: {known['D33']['what']} -- behaviour {f['behaviour']}")
            else:
                rest.append(f)
        fails = rest
    for f in fails[:1]:
        # shrink the history: drop every earlier step without which the last step still differs from the fresh compilation
        try:
            f0 = next(fr["steps"][0] for key, fr in zip(keys, fresh) if key == (f["entry"], f["behaviour"]))

            def differs(st, f0=f0):
                if bool(st.get("ok")) != bool(f0.get("ok")):
                    return True
                if st.get("ok"):
                    return canon(st["text"]) != canon(f0["text"]) or st.get("meta") != f0.get("meta")
                return st.get("exc") != f0.get("exc")
            small = k2.shrink_history(f["history"], differs)
            if len(small) < len(f["history"]):
                f["history_as_generated"] = f["history"]
                f["history"] = small
                f["step"] = len(small) - 1
        except Exception:
            pass
        res.violation({"what": "the result of compiling a behaviour after a history differs from compiling it first in a fresh process "
                               "(beyond renaming of h_tmpN and comments)", "input": f, "broken": [vars(x) for x in broken]})
    if broken and not fails:
        res.violation({"what": "a proof obligation or translator no longer checks; no history-dependent result found",
                       "broken": [vars(x) for x in broken]}, no_input=True)
    res.assumptions = ["Coq kernel + vm_compute", "translator tools/vt/tr_meta.py (field / call tables)",
                       "cross-process state (files under Resources/ rewritten by the preprocessor) is outside this check (see C20)",
                       "the influence of hybrid_op_count on the MODEL is exactly the renaming of h_tmpN: theorem C14_history_independent (proofs/HShift.v), for every program "
                       "that does not itself spell an identifier h_tmp<digits>"]
    res.coverage = {"obligations": binfo["obligations"], "discharged": binfo["discharged"] if model_ok else 0, "checker_cmd": binfo["checker_cmd"],
                    "trusted_base": res.assumptions, "print_assumptions": binfo["assumptions"], "translated": meta,
                    "theorems": ["C14_counter_shift_is_a_renaming", "C14_history_independent_model", "C14_only_the_counter_survives_reset", "C14_reset_is_complete", "C14_every_entry_point_resets_on_every_path", "C14_extension_state_is_reset"],
                    "evaluations": n_cmp, "distinct_nontrivial": len(keys),
                    "rule": "random histories of 3-10 steps over two Compiler instances, entry points transform_insn and compile_c_stmt, failing inputs "
                            "(parse errors, unsupported constructs, type errors, failures with pending hybrids) at random positions; every step is compared with "
                            "the same behaviour compiled first in a fresh process; non-trivial = distinct (entry, behaviour) pairs",
                    "histories": len(hs), "steps_compared": n_cmp, "successful_steps": n_ok_steps, "wall_s_histories": wall,
                    "samples": [{"history": hs[-1]["steps"], "results": [{k: v for k, v in s.items() if k not in ("text", "ast")} for s in hres[-1].get("steps", [])]}],
                    "broken": [vars(x) for x in broken]}
    return res.finish()


def replay(path):
    d = json.load(open(path))
    inp = d.get("input")
    if not inp:
        print(json.dumps(d.get("broken"), indent=1)[:3000])
        return 1
    r = k2.run_histories([{"id": 0, "steps": inp["history"]}, {"id": 1, "steps": [inp["history"][-1]]}])
    a, b = r[0]["steps"][-1], r[1]["steps"][0]
    print("in history:", {k: v for k, v in a.items() if k not in ("ast",)})
    print("fresh     :", {k: v for k, v in b.items() if k not in ("ast",)})
    return 0
