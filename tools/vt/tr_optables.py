"""G2: the opcode decisions of the Pure classes -> coq/gen/OpTablesGen.v   (regenerated on every run, fail-closed).

Part 1 (TRANSLATION).  `il_exec` of Pures/{Cast,BitOp,CompareOp,ArithmeticOp,BooleanOp}.py is executed SYMBOLICALLY on its
Python AST: every `if` / `elif` / conditional expression forks, every `return f"..."` ends a path.  The text a path returns
(literal pieces and holes for `self.ops[i].il_read()` / `self.value_type.bit_width`) is parsed into a CBody.sexp tree.  The
result is one Gallina function per class

    <cls>_text (op : string) (tself t0 t1 : vtype) (ib0 ic0 ib1 ic1 : bool) : option sexp

(op = the StrEnum value of the operator field, t0/t1 = value types of the operands, ib<i>/ic<i> = isinstance(ops[i], BooleanOp /
CompareOp); None = the Python raises).  Anything outside the recognised subset raises TranslatorError: the run reports a broken
translator.  proofs/OpTablesProofs.v proves that CBody.elab of these texts is exactly what model/OpTables.v (the tables all
theorems use) says, for every operator of the enum and every type.

Part 2 (EXHAUSTIVE TABLES).  get_value_type_from_reg_type / get_value_type_by_isa_imm / get_value_type_by_c_number have small
finite domains: they are EXECUTED (real code, sub-process in /repo) on the whole domain and the result tables are emitted;
proofs/OpTablesProofs.v proves OpTables.reg_width / imm_signed / number_vtype equal to them on the whole domain."""
from __future__ import annotations

import ast
import json
import re
import string
import subprocess

from . import common
from .pytr import TranslatorError, find_function, segment

PURES = "rzilcompiler/Transformer/Pures"
EFFECTS = "rzilcompiler/Transformer/Effects"
HYBRIDS = "rzilcompiler/Transformer/Hybrids"
CLASSES = [  # (directory, file, class, method, operator field or None, enum class or None, operand attributes -> hole index)
    (PURES, "Cast.py", "Cast", "il_exec", None, None, {}),
    (PURES, "BitOp.py", "BitOp", "il_exec", "op_type", "BitOperationType", {}),
    (PURES, "CompareOp.py", "CompareOp", "il_exec", "op_type", "CompareOpType", {}),
    (PURES, "ArithmeticOp.py", "ArithmeticOp", "il_exec", "arith_type", "ArithmeticType", {}),
    (PURES, "BooleanOp.py", "BooleanOp", "il_exec", "op_type", "BooleanOpType", {}),
    (PURES, "Ternary.py", "Ternary", "il_exec", None, None, {}),
    (PURES, "MemLoad.py", "MemLoad", "il_exec", None, None, {"va": 0}),
    (EFFECTS, "Branch.py", "Branch", "il_write", None, None, {"cond": 0, "then": 1, "otherwise": 2}),
    (EFFECTS, "ForLoop.py", "ForLoop", "il_write", None, None, {"control": 0, "compound": 1}),
    (EFFECTS, "Jump.py", "Jump", "il_write", None, None, {"target": 0}),
    (EFFECTS, "MemStore.py", "MemStore", "il_write", None, None, {"va": 0, "data_var": 1}),
    (EFFECTS, "NOP.py", "NOP", "il_write", None, None, {}),
    (EFFECTS, "Empty.py", "Empty", "il_write", None, None, {}),
    (HYBRIDS, "SubRoutine.py", "SubRoutine", "il_read", None, None, {}),
    (HYBRIDS, "PostfixIncDec.py", "PostfixIncDec", "il_exec", "op_type", "HybridType", {}),
]


class S:  # symbolic string: literal pieces and holes
    def __init__(self, pieces):
        self.pieces = pieces


class B:  # symbolic boolean: a Coq term of type bool
    def __init__(self, coq):
        self.coq = coq


class O:  # an operand object (self.ops[i] / an operand attribute) bound to a local name
    def __init__(self, index):
        self.index = index


class W:  # a bit width: usable as a number (Coq term of type N) and, formatted into the text, as an integer hole
    def __init__(self, coq):
        self.coq = coq


class Zv:  # an integer (Coq term of type Z): the value of a constant operand
    def __init__(self, coq):
        self.coq = coq


def coq_str(s: str) -> str:
    return '"' + s.replace('"', '""') + '"'


class ClsTr:
    def __init__(self, directory, file, cls, method, opfield, enum_cls, attrs, tree, src):
        self.file, self.cls, self.opfield, self.enum_cls = f"{directory}/{file}", cls, opfield, enum_cls
        self.method, self.attrs = method, attrs
        self.tree, self.src = tree, src
        self.enum = self.read_enum() if enum_cls else {}
        fns = find_function(tree, method, cls)
        if len(fns) != 1:
            raise TranslatorError(f"expected exactly one {cls}.{method}", None, self.file)
        self.fn = fns[0]
        if [a.arg for a in self.fn.args.args] != ["self"]:
            raise TranslatorError(f"{method} takes parameters", self.fn, self.file)
        # the operand attributes must be bound to the constructor's parameters as they are (self.cond = cond ...)
        if attrs:
            init = find_function(tree, "__init__", cls)
            txt = ast.unparse(init[0]) if init else ""
            for a in attrs:
                if not re.search(rf"self\.{a}(: \w+)? = \w+\n", txt + "\n"):
                    raise TranslatorError(f"{cls}.__init__ no longer stores the operand `{a}` directly", init[0] if init else None, self.file)

    def err(self, msg, node=None):
        raise TranslatorError(msg, node, self.file)

    def read_enum(self) -> dict[str, str]:
        for n in self.tree.body:
            if isinstance(n, ast.ClassDef) and n.name == self.enum_cls:
                if [ast.unparse(b) for b in n.bases] != ["StrEnum"]:
                    self.err("operator enum is not a StrEnum", n)
                out = {}
                for s in n.body:
                    if isinstance(s, ast.Assign) and len(s.targets) == 1 and isinstance(s.targets[0], ast.Name) \
                            and isinstance(s.value, ast.Constant) and isinstance(s.value.value, str):
                        out[s.targets[0].id] = s.value.value
                    elif isinstance(s, ast.Expr) and isinstance(s.value, ast.Constant):
                        continue
                    else:
                        self.err("unexpected member of the operator enum", s)
                if len(set(out.values())) != len(out):
                    self.err("operator enum has duplicate values", n)
                return out
        # the operator enum of the Hybrid classes lives in Hybrids/Hybrid.py
        other = common.REPO / HYBRIDS / "Hybrid.py"
        if other.exists() and not getattr(self, "_enum_retry", False):
            self._enum_retry = True
            saved = self.tree
            self.tree = ast.parse(other.read_text())
            try:
                return self.read_enum()
            finally:
                self.tree = saved
        self.err(f"enum {self.enum_cls} not found")

    # ---------------------------------------------------------------- shapes of `self....`
    def op_index(self, e):
        """self.ops[i] -> i ; self.<operand attribute> -> its hole index"""
        if isinstance(e, ast.Subscript) and ast.unparse(e.value) == "self.ops" and isinstance(e.slice, ast.Constant) \
                and e.slice.value in (0, 1, 2):
            return e.slice.value
        if isinstance(e, ast.Attribute) and ast.unparse(e.value) == "self" and e.attr in self.attrs:
            return self.attrs[e.attr]
        if isinstance(e, ast.Name) and isinstance(self.env_now.get(e.id), O):
            return self.env_now[e.id].index
        return None

    def vtype_of(self, e):
        """self.value_type -> tself ; self.ops[i].value_type -> t<i>"""
        if ast.unparse(e) == "self.acc_type.val_type":      # MemLoad: the type of the access, which is the value type of the load
            init = find_function(self.tree, "__init__", self.cls)
            if not init or "PureExec.__init__(self, name, [va], acc_type.val_type)" not in ast.unparse(init[0]):
                self.err("MemLoad.__init__ no longer passes acc_type.val_type as its value type", e)
            return "tself"
        if isinstance(e, ast.Attribute) and e.attr == "value_type":
            if ast.unparse(e.value) == "self":
                return "tself"
            i = self.op_index(e.value)
            if i is not None:
                return f"t{i}"
        return None

    # ---------------------------------------------------------------- expressions (continuation passing: forks on IfExp)
    def eval(self, e, env, k):
        self.env_now = env
        if self.op_index(e) is not None and not isinstance(e, ast.Name):
            return k(O(self.op_index(e)))                                  # `src = self.ops[0]`
        if isinstance(e, ast.Constant) and isinstance(e.value, int) and not isinstance(e.value, bool):
            return k(Zv(f"{e.value}%Z"))
        if isinstance(e, ast.UnaryOp) and isinstance(e.op, ast.Not):
            return self.eval(e.operand, env, lambda v: k(B(f"(negb {self.as_bool(v, e.operand)})")))
        if isinstance(e, ast.Call) and isinstance(e.func, ast.Name) and e.func.id == "int" and len(e.args) == 1 and not e.keywords:
            def ki(v):
                if not isinstance(v, W):
                    self.err("int() of something that is not a bit width", e)
                return k(v)
            return self.eval(e.args[0], env, ki)
        if isinstance(e, ast.Compare) and len(e.ops) == 1 and isinstance(e.ops[0], (ast.Eq, ast.NotEq)) \
                and isinstance(e.comparators[0], ast.Constant) and isinstance(e.comparators[0].value, int) and not isinstance(e.comparators[0].value, bool):
            n = e.comparators[0].value

            def kw(a):
                if not isinstance(a, W):
                    self.err("equality with an integer of something that is not a bit width", e)
                eq = f"(N.eqb {a.coq} {n}%N)"
                return k(B(eq if isinstance(e.ops[0], ast.Eq) else f"(negb {eq})"))
            return self.eval(e.left, env, kw)
        if isinstance(e, ast.Compare) and len(e.ops) == 1 and isinstance(e.ops[0], (ast.Gt, ast.GtE, ast.Lt, ast.LtE)):
            def kc(a):
                def kc2(b):
                    self.env_now = env
                    if isinstance(a, W) and isinstance(b, W):
                        rel = {ast.Gt: f"(N.ltb {b.coq} {a.coq})", ast.GtE: f"(N.leb {b.coq} {a.coq})", ast.Lt: f"(N.ltb {a.coq} {b.coq})", ast.LtE: f"(N.leb {a.coq} {b.coq})"}
                    elif isinstance(a, Zv) and isinstance(b, Zv):
                        rel = {ast.Gt: f"(Z.ltb {b.coq} {a.coq})", ast.GtE: f"(Z.leb {b.coq} {a.coq})", ast.Lt: f"(Z.ltb {a.coq} {b.coq})", ast.LtE: f"(Z.leb {a.coq} {b.coq})"}
                    else:
                        self.err("ordering comparison of values of different kinds", e)
                    return k(B(rel[type(e.ops[0])]))
                return self.eval(e.comparators[0], env, kc2)
            return self.eval(e.left, env, kc)
        if isinstance(e, ast.Constant):
            if isinstance(e.value, bool):
                return k(B("true" if e.value else "false"))
            if isinstance(e.value, str):
                return k(S([e.value]))
            self.err("constant", e)
        if isinstance(e, ast.Name):
            if e.id not in env:
                self.err(f"unbound name {e.id}", e)
            return k(env[e.id])
        if isinstance(e, ast.JoinedStr):
            def go(i, acc):
                if i == len(e.values):
                    return k(S(acc))
                v = e.values[i]
                if isinstance(v, ast.Constant) and isinstance(v.value, str):
                    return go(i + 1, acc + [v.value])
                if isinstance(v, ast.FormattedValue) and v.conversion == -1 and v.format_spec is None:
                    def kk(val):
                        if isinstance(val, W):
                            return go(i + 1, acc + [("h", f"SInt (Z.of_N {val.coq})")])
                        if not isinstance(val, S):
                            self.err("non-string value formatted into the text", v)
                        return go(i + 1, acc + val.pieces)
                    return self.eval(v.value, env, kk)
                self.err("f-string part", v)
            return go(0, [])
        if isinstance(e, ast.IfExp):
            return self.eval(e.test, env, lambda c: self.mkif(self.as_bool(c, e.test), lambda: self.eval(e.body, env, k), lambda: self.eval(e.orelse, env, k)))
        if isinstance(e, ast.Compare) and len(e.ops) == 1 and isinstance(e.ops[0], ast.Eq):
            if self.opfield and ast.unparse(e.left) == f"self.{self.opfield}":
                c = e.comparators[0]
                if isinstance(c, ast.Attribute) and isinstance(c.value, ast.Name) and c.value.id == self.enum_cls and c.attr in self.enum:
                    return k(B(f"(String.eqb op {coq_str(self.enum[c.attr])})"))
            self.err("comparison", e)
        if isinstance(e, ast.BoolOp):
            def gob(i, acc):
                if i == len(e.values):
                    return k(B("(" + (" && " if isinstance(e.op, ast.And) else " || ").join(acc) + ")"))
                return self.eval(e.values[i], env, lambda v: gob(i + 1, acc + [self.as_bool(v, e.values[i])]))
            return gob(0, [])
        if isinstance(e, ast.BinOp) and isinstance(e.op, ast.BitAnd):
            if isinstance(e.left, ast.Attribute) and e.left.attr == "group" and ast.unparse(e.right) == "VTGroup.FLOAT":
                t = self.vtype_of(e.left.value)
                if t:
                    return k(B(f"(vt_float {t})"))
            self.err("bit test", e)
        if isinstance(e, ast.Attribute):
            t = self.vtype_of(e.value)
            if t and e.attr == "signed":
                return k(B(f"(vt_sg {t})"))
            if t and e.attr == "bit_width":
                return k(W(f"(vt_w {t})"))
            self.err("attribute", e)
        if isinstance(e, ast.Call):
            if isinstance(e.func, ast.Attribute) and e.func.attr == "il_read" and ast.unparse(e.func.value) == "self" and not e.args and not e.keywords:
                own = find_function(self.tree, "il_read", self.cls)
                body = [x for x in own[0].body if not (isinstance(x, ast.Expr) and isinstance(x.value, ast.Constant))] if len(own) == 1 else []
                if len(body) == 1 and ast.unparse(body[0]) == "return self.ops[0].il_read()":
                    return k(S([("h", 'SVar "$0"')]))
                self.err("self.il_read() is not `return self.ops[0].il_read()`", e)
            if isinstance(e.func, ast.Attribute) and e.func.attr in ("il_read", "effect_var") and not e.args and not e.keywords:
                i = self.op_index(e.func.value)
                if i is not None:
                    return k(S([("h", f'SVar "${i}"')]))
            if isinstance(e.func, ast.Attribute) and e.func.attr == "get_val" and not e.args and not e.keywords and self.op_index(e.func.value) == 0:
                return k(Zv("v0"))              # the value of the (constant) first operand; only meaningful under isinstance(.., LetVar)
            if isinstance(e.func, ast.Name) and e.func.id == "isinstance" and len(e.args) == 2 and isinstance(e.args[1], ast.Name):
                i = self.op_index(e.args[0])
                flag = {"BooleanOp": "ib", "CompareOp": "ic", "LetVar": "il"}.get(e.args[1].id)
                if flag == "il" and i != 0:
                    self.err("isinstance(.., LetVar) of an operand other than the first", e)
                if i is not None and flag:
                    return k(B(f"{flag}{i}"))
            self.err("call", e)
        self.err("expression form", e)

    @staticmethod
    def mkif(c, a, b):
        """a Python constant condition (is_float = True ...) selects its branch at translation time"""
        if c == "true":
            return a()
        if c == "false":
            return b()
        return ("if", c, a(), b())

    def as_bool(self, v, node):
        if isinstance(v, B):
            return v.coq
        self.err("string used as condition", node)

    # ---------------------------------------------------------------- statements
    def block(self, stmts, env, k):
        if not stmts:
            return k(env)
        s, rest = stmts[0], stmts[1:]
        cont = lambda env2: self.block(rest, env2, k)
        if isinstance(s, ast.Expr) and isinstance(s.value, ast.Constant) and isinstance(s.value.value, str):
            return cont(env)
        if isinstance(s, ast.Assign) and len(s.targets) == 1 and isinstance(s.targets[0], ast.Name):
            name = s.targets[0].id
            return self.eval(s.value, env, lambda v: cont({**env, name: v}))
        if isinstance(s, ast.AugAssign) and isinstance(s.op, ast.Add) and isinstance(s.target, ast.Name) and isinstance(env.get(s.target.id), S):
            name = s.target.id

            def ka(v):
                if isinstance(v, W):
                    v = S([("h", f"SInt (Z.of_N {v.coq})")])
                if not isinstance(v, S):
                    self.err("`+=` of a non-string onto the text", s)
                return cont({**env, name: S(env[name].pieces + v.pieces)})
            return self.eval(s.value, env, ka)
        if isinstance(s, ast.If):
            return self.eval(s.test, env, lambda c: self.mkif(self.as_bool(c, s.test), lambda: self.block(s.body, env, cont), lambda: self.block(s.orelse, env, cont)))
        if isinstance(s, ast.Return) and s.value is not None:
            def kr(v):
                if not isinstance(v, S):
                    self.err("il_exec returns a non-string", s)
                return ("ret", self.parse_text(v.pieces, s))
            return self.eval(s.value, env, kr)
        if isinstance(s, ast.Raise):
            return ("raise",)
        self.err("statement form", s)

    # ---------------------------------------------------------------- the returned text -> sexp
    def parse_text(self, pieces, node) -> str:
        text_only = "".join(p if isinstance(p, str) else "\x00" for p in pieces)
        # re-tokenise the concatenation so that "F"+"LT(" is one identifier
        toks, holes = [], [p[1] for p in pieces if isinstance(p, tuple)]
        hi, pos = 0, 0
        for m in re.finditer(r'\s+|([A-Za-z_][A-Za-z_0-9]*)|([(),])|(\x00)|"([A-Za-z_0-9]*)"|(\d+)', text_only):
            if m.start() != pos:
                self.err(f"unexpected character in emitted text {text_only!r}", node)
            pos = m.end()
            if m.group(1):
                toks.append(("id", m.group(1)))
            elif m.group(2):
                toks.append((m.group(2), None))
            elif m.group(3):
                toks.append(("hole", holes[hi]))
                hi += 1
            elif m.group(4) is not None:
                toks.append(("hole", f"SStr {coq_str(m.group(4))}"))
            elif m.group(5):
                toks.append(("hole", f"SInt {int(m.group(5))}%Z"))
        if pos != len(text_only):
            self.err(f"unexpected character in emitted text {text_only!r}", node)
        i = 0

        def term():
            nonlocal i
            if i >= len(toks):
                self.err("emitted text ends early", node)
            kind, val = toks[i]
            if kind == "hole":
                i += 1
                return f"({val})"
            if kind != "id":
                self.err(f"emitted text: unexpected {kind}", node)
            i += 1
            if i < len(toks) and toks[i][0] == "(":
                i += 1
                args = []
                if toks[i][0] != ")":
                    while True:
                        args.append(term())
                        if i < len(toks) and toks[i][0] == ",":
                            i += 1
                            continue
                        break
                if i >= len(toks) or toks[i][0] != ")":
                    self.err("emitted text: missing )", node)
                i += 1
                return f"(SApp {coq_str(val)} [{'; '.join(args)}])"
            return f"(SVar {coq_str(val)})"
        t = term()
        if i != len(toks):
            self.err("emitted text: trailing tokens", node)
        return t

    # ---------------------------------------------------------------- output
    def coq_of(self, tree, ind=2) -> str:
        pad = " " * ind
        if tree[0] == "ret":
            return f"{pad}Some {tree[1]}"
        if tree[0] == "raise":
            return f"{pad}None"
        if tree[0] == "fall":
            return f"{pad}None"
        _, c, a, b = tree
        return f"{pad}if {c} then\n{self.coq_of(a, ind + 2)}\n{pad}else\n{self.coq_of(b, ind + 2)}"

    def translate(self) -> tuple[str, dict]:
        self.env_now = {}
        tree = self.block(self.fn.body, {}, lambda env: ("fall",))
        name = self.cls.lower() + "_text"
        meth = self.method
        txt = (f"(* {self.file} lines {self.fn.lineno}-{self.fn.end_lineno}, sha256 {common.sha(segment(self.src, self.fn))} *)\n"
               f"Definition {name} (op : string) (tself t0 t1 : vtype) (ib0 ic0 ib1 ic1 : bool) (il0 : bool) (v0 : Z) : option sexp :=\n{self.coq_of(tree)}.\n")
        if self.enum:
            txt += f"Definition {self.cls.lower()}_ops : list string := [{'; '.join(coq_str(v) for v in self.enum.values())}].\n"
        return txt, {"lines": [self.fn.lineno, self.fn.end_lineno], "sha": common.sha(segment(self.src, self.fn)), "operators": list(self.enum.values())}


TABLE_SCRIPT = r"""
import json, string, sys
from lark import Token
from rzilcompiler.Transformer.ValueType import get_value_type_from_reg_type, get_value_type_by_isa_imm, get_value_type_by_c_number
out = {"reg": [], "imm": [], "num": []}
for c in string.ascii_uppercase + string.ascii_lowercase:
    for acc in ("SRC_REG", "DEST_REG", "SRC_DEST_REG", "SRC_REG_PAIR", "DEST_REG_PAIR", "SRC_DEST_REG_PAIR"):
        try:
            t = get_value_type_from_reg_type([Token("REG_TYPE", c), Token(acc, "s")])
            out["reg"].append([c, "PAIR" in acc, acc, [bool(t.signed), int(t.bit_width)]])
        except NotImplementedError:
            out["reg"].append([c, "PAIR" in acc, acc, None])
    t = get_value_type_by_isa_imm([Token("IMM", c)])
    out["imm"].append([c, [bool(t.signed), int(t.bit_width)]])
for suf in ["", "U", "LL", "ULL", "L", "UL", "LU", "LLU", "F", "Z", "u", "ll", "ull", "Ull"]:
    try:
        t = get_value_type_by_c_number([Token("DEC_NUMBER", "5"), Token("SUFFIX", suf) if suf else None])
        out["num"].append([suf, [bool(t.signed), int(t.bit_width)]])
    except NotImplementedError:
        out["num"].append([suf, None])
print(json.dumps(out))
"""


def tables() -> tuple[str, dict]:
    p = subprocess.run([common.PY, "-c", TABLE_SCRIPT], cwd=str(common.REPO), env=common.py_env(), capture_output=True, text=True, timeout=120)
    if p.returncode != 0:
        raise TranslatorError("executing the value type helpers failed: " + p.stderr[-600:])
    d = json.loads(p.stdout.strip().splitlines()[-1])
    b = lambda x: "true" if x else "false"
    ty = lambda t: "None" if t is None else f"Some ({b(t[0])}, {t[1]}%N)"
    reg = "; ".join(f"({coq_str(c)}, {b(pair)}, {ty(t)})" for c, pair, _, t in d["reg"])
    imm = "; ".join(f"({coq_str(c)}, {ty(t)})" for c, t in d["imm"])
    num = "; ".join(f"({coq_str(s.upper())}, {ty(t)})" for s, t in d["num"])
    txt = ("(* get_value_type_from_reg_type executed on every ASCII letter x every access terminal: (class letter, is pair, (signed, width)) *)\n"
           f"Definition reg_type_table : list (string * bool * option (bool * N)) := [{reg}].\n"
           "(* get_value_type_by_isa_imm executed on every ASCII letter *)\n"
           f"Definition imm_type_table : list (string * option (bool * N)) := [{imm}].\n"
           "(* get_value_type_by_c_number executed on a set of suffix spellings (keys upper-cased, as the function does itself) *)\n"
           f"Definition number_type_table : list (string * option (bool * N)) := [{num}].\n")
    return txt, {"reg_rows": len(d["reg"]), "imm_rows": len(d["imm"]), "num_rows": len(d["num"])}


def generate() -> tuple[str, dict]:
    out = ["(* GENERATED by tools/vt/tr_optables.py from " + PURES + "/*.py and Transformer/ValueType.py -- do not edit *)",
           "From Coq Require Import ZArith NArith List Bool String.",
           "From RZ.sem Require Import CBody.",
           "From RZ.model Require Import Types.",
           "Import ListNotations.",
           "Local Open Scope string_scope.",
           "Local Open Scope bool_scope.",
           ""]
    meta = {"source": PURES, "classes": {}}
    for directory, file, cls, method, opfield, enum_cls, attrs in CLASSES:
        path = common.REPO / directory / file
        src = path.read_text()
        tr = ClsTr(directory, file, cls, method, opfield, enum_cls, attrs, ast.parse(src), src)
        txt, m = tr.translate()
        out.append(txt)
        meta["classes"][cls] = m
    t, m = tables()
    out.append(t)
    meta["tables"] = m
    return "\n".join(out), meta


def run() -> dict:
    txt, meta = generate()
    common.write_if_changed(common.GEN / "OpTablesGen.v", txt)
    return meta


if __name__ == "__main__":
    print(generate()[0])
