"""K5: the preprocessor's string functions (real implementation) vs model/Pre.v evaluated in Coq."""
from __future__ import annotations

import json
import re

from . import common

PY_SIDE = r"""
import json, sys
from rzilcompiler.Preprocessor.Hexagon.PreprocessorHexagon import PreprocessorHexagon as P
req = json.load(sys.stdin)
out = []
for kind, s in req:
    try:
        if kind == "split":
            r = list(P.split_resolved_shortcode(s))
        elif kind == "compound":
            r = list(P.split_compounds(s))
        elif kind == "dowhile":
            r = P.replace_do_while_0(s)
        out.append({"ok": True, "r": r})
    except Exception as e:
        out.append({"ok": False, "exc": type(e).__name__})
json.dump(out, sys.stdout)
"""

HEADER = """From Coq Require Import List Ascii String Bool.
From RZ.lib Require Import Regex.
From RZ.model Require Import Pre.
Import ListNotations.
Local Open Scope string_scope.
Definition eqs (a : str) (b : string) : bool := String.eqb (l2s a) b.
Definition chk_split (c : string * option (string * string)) : bool :=
  match split_resolved (s2l (fst c)), snd c with
  | Some (n, b), Some (n', b') => eqs n n' && eqs b b'
  | None, None => true | _, _ => false end.
Definition chk_compound (c : string * option (string * string)) : bool :=
  match split_compounds (s2l (fst c)), snd c with
  | Some (n, b), Some (n', b') => eqs n n' && eqs b b'
  | None, None => true | _, _ => false end.
Definition chk_dowhile (c : string * option string) : bool :=
  match replace_do_while_0 (s2l (fst c)), snd c with
  | Some r, Some r' => eqs r r'
  | None, None => true | _, _ => false end.
"""


def cs(s: str) -> str:
    return '"' + s.replace('"', '""') + '"'


def run_real(cases):
    rc, out = common.sh([common.PY, "-c", PY_SIDE], cwd=common.REPO, env=common.py_env(), input=json.dumps(cases), timeout=900)
    if rc != 0:
        raise RuntimeError("python side failed: " + out[-2000:])
    return json.loads(out[out.index("["):])


def compare(prop: str, cases: list[tuple[str, str]], shard=250, timeout=900):
    """cases: (kind, input). returns (list of disagreeing indices, python results)"""
    for k, s in cases:
        if any(ord(c) > 126 or (ord(c) < 32 and c not in "\n\t") for c in s):
            raise ValueError("non-ASCII test input")
    py = run_real(cases)
    rows = {"split": [], "compound": [], "dowhile": []}
    idx = {"split": [], "compound": [], "dowhile": []}
    for i, ((kind, s), r) in enumerate(zip(cases, py)):
        if kind == "dowhile":
            exp = f"Some {cs(r['r'])}" if r["ok"] else "None"
        else:
            exp = f"Some ({cs(r['r'][0])}, {cs(r['r'][1])})" if r["ok"] else "None"
        rows[kind].append(f"({cs(s)}, {exp})")
        idx[kind].append(i)
    files = {}
    order = []
    shard = max(20, min(shard, -(-len(cases) // common.NPROC)))
    for kind in rows:
        ty = "option string" if kind == "dowhile" else "option (string * string)"
        for k in range(0, len(rows[kind]), shard):
            name = f"{kind}_{k // shard:04d}"
            files[name] = (HEADER + f"Definition cases : list (string * {ty}) := [\n" + ";\n".join(rows[kind][k:k + shard]) + "\n].\n"
                           + f"Eval vm_compute in (map chk_{kind} cases).\n")
            order.append((name, kind, k))
    ok, outs, err = common.run_case_files(prop + "_k5", files, timeout=timeout)
    if not ok:
        raise RuntimeError("K5 case files failed: " + err[-2500:])
    bad = []
    for name, kind, k in order:
        vals = re.findall(r"true|false", common.coq_printed_values(outs[name])[0])
        bad += [idx[kind][k + j] for j, v in enumerate(vals) if v == "false"]
    return bad, py


MACRO_PY = r"""
import json, sys
from rzilcompiler.Preprocessor.Hexagon.PreprocessorHexagon import PreprocessorHexagon as P
from rzilcompiler.Configuration import Conf, InputFile
p = P(Conf.get_path(InputFile.HEXAGON_PP_SHORTCODE_H))
out = {}
try:
    m = p.cleanup_macros()
    out["clean"] = m
    try:
        out["patched"] = p.patch_macros(list(m))
    except Exception as e:
        out["patched_exc"] = type(e).__name__
except Exception as e:
    out["clean_exc"] = type(e).__name__
files = {}
for k in ("HEXAGON_PP_MACROS_INC", "HEXAGON_PP_MACROS_H", "HEXAGON_PP_MACROS_MMVEC_H", "HEXAGON_PP_PATCHES_MACROS_H"):
    with open(Conf.get_path(getattr(InputFile, k))) as f:
        files[k] = f.read()
out["files"] = files
json.dump(out, sys.stdout)
"""

MACRO_HEADER = """From Coq Require Import List Ascii String Bool.
From RZ.lib Require Import Regex.
From RZ.model Require Import Pre.
Import ListNotations.
Local Open Scope string_scope.
Fixpoint lines_nl (s : str) (cur : str) : list str :=      (* readlines(): keep the newline *)
  match s with [] => (match cur with [] => [] | _ => [rev cur] end)
             | c :: t => if Ascii.eqb c nl then rev (c :: cur) :: lines_nl t [] else lines_nl t (c :: cur) end.
Definition list_eqb (a : list str) (b : list string) : bool :=
  Nat.eqb (List.length a) (List.length b) && forallb (fun p => String.eqb (l2s (fst p)) (snd p)) (combine a b).
"""


def compare_macros(prop: str, repo_dir=None, timeout=900):
    """cleanup_macros / patch_macros of the real implementation (run with cwd=repo_dir) vs model/Pre.v on the same file contents.
    returns (agree_clean, agree_patched, python_result)"""
    rc, out = common.sh([common.PY, "-c", MACRO_PY], cwd=repo_dir or common.REPO, env={"PYTHONPATH": str(repo_dir or common.REPO), "PYTHONHASHSEED": "0"}, timeout=600)
    if rc != 0:
        raise RuntimeError("python side failed: " + out[-2000:])
    py = json.loads(out[out.index("{"):])
    f = py["files"]
    clean_exp = "None" if "clean" not in py else "Some [" + "; ".join(cs(x) for x in py["clean"]) + "]"
    patched_exp = "None" if "patched" not in py else "Some [" + "; ".join(cs(x) for x in py["patched"]) + "]"
    txt = MACRO_HEADER + f"""
Definition f_inc := lines_nl (s2l {cs(f['HEXAGON_PP_MACROS_INC'])}) [].
Definition f_h := lines_nl (s2l {cs(f['HEXAGON_PP_MACROS_H'])}) [].
Definition f_vec := lines_nl (s2l {cs(f['HEXAGON_PP_MACROS_MMVEC_H'])}) [].
Definition patches := s2l {cs(f['HEXAGON_PP_PATCHES_MACROS_H'])}.
Definition filtered := (cleanup_file false f_inc ++ cleanup_file false f_h ++ cleanup_file true f_vec)%list.
Definition cleaned := join_continuations (S (List.length filtered)) filtered.
Definition exp_clean : option (list string) := {clean_exp}.
Definition exp_patched : option (list string) := {patched_exp}.
Eval vm_compute in (match cleaned, exp_clean with Some a, Some b => list_eqb a b | None, None => true | _, _ => false end).
Eval vm_compute in (match cleaned with
                    | Some c => match patch_macros c patches, exp_patched with Some a, Some b => list_eqb a b | None, None => true | _, _ => false end
                    | None => match exp_patched with None => true | _ => false end end).
"""
    ok, outs, err = common.run_case_files(prop + "_mac", {"mac": txt}, timeout=timeout)
    if not ok:
        raise RuntimeError("macro case file failed: " + err[-2500:])
    vals = [re.findall(r"true|false", v)[0] == "true" for v in common.coq_printed_values(outs["mac"])]
    return vals[0], vals[1], py
