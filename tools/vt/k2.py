"""K2/K3: run programs through the real compiler and through the Coq model, compare inside Coq.

Status codes computed by Coq per case (see CHECK below):
  0 agree: both accept, denote(real body) == tlower(p) (canonical form), hybrid counter equal
  1 agree: both reject
  2 model accepts, implementation rejects
  3 model rejects, implementation accepts
  4 both accept, trees differ
  5 real body does not denote (unknown head / undeclared effect) while the model accepts
  6 hybrid counter differs
"""
from __future__ import annotations

import json
import re
from dataclasses import dataclass, field

from . import common, iltext

HEADER = """From Coq Require Import ZArith NArith List Bool String.
From RZ.lib Require Import BV.
From RZ.sem Require Import RzIL CBody.
From RZ.model Require Import Ast Types OpTables Lower.
Import ListNotations.
Local Open Scope string_scope.
Local Open Scope Z_scope.
Local Open Scope list_scope.
"""

CHECK = """
Definition status (c : N * cstmts * option (body * N)) : N :=
  let '(h, p, py) := c in
  match tlower_checked (cfg h) p, py with
  | Err _, None => 1
  | OK _, None => 2
  | Err _, Some _ => 3
  | OK (e, hc), Some (b, hpy) =>
      match denote b with
      | None => 5
      | Some e' => if effect_eqb (canon e) (canon e') then (if N.eqb hc hpy || N.eqb hpy 999999 then 0 else 6) else 4
      end
  end%N.
"""


def vt_coq(t) -> str:
    b = lambda x: "true" if x else "false"
    return f"(mkvt {b(t['sg'])} {t['w']} {b(t['bool'])} {b(t['void'])} {b(t['ext'])} {b(t['float'])} {b(t['hyb'])} {b(t['const'])} false)"


def cfg_coq(sig, params=None, ret=None) -> str:
    subs = "; ".join(f"mksub {common.coq_str(s['name'])} {vt_coq(s['ret'])} [{'; '.join(vt_coq(p) for p in s['params'])}]" for s in sig["subs"])
    macs = "; ".join(
        f"mkmac {common.coq_str(m['name'])} {common.coq_str(m['rz'])} {vt_coq(m['ret'])} [{'; '.join(vt_coq(p) for p in m['params'])}]"
        for m in sig["macros"])
    ext = "(mkvt false 64 false false true false false false false)"
    if params is None:
        ps = f'[("pkt", {ext}); ("hi", {ext}); ("bundle", {ext})]'
        rt = f"(Some {ext})"
    else:
        ps = "[" + "; ".join(f"({common.coq_str(n)}, {vt_coq(t)})" for n, t in params) + "]"
        rt = f"(Some {vt_coq(ret)})"
    return (f"Definition subs0 : list subsig := [{subs}].\nDefinition macs0 : list macsig := [{macs}].\n"
            f"Definition cfg (h : N) : config := mkcfg faithful subs0 macs0 {ps} {rt} h.\n")


def run_histories(histories, timeout=3000):
    req = {"jobs": [], "signatures": False, "nproc": common.NPROC, "histories": histories}
    rc, out = common.sh([common.PY, str(common.VERIF / "tools/vt/pyside.py")], cwd=common.REPO, env=common.py_env(),
                        input=json.dumps(req), timeout=timeout)
    if "@@RESULT@@" not in out:
        raise RuntimeError("python side failed:\n" + out[-3000:])
    return json.loads(out.split("@@RESULT@@", 1)[1])["histories"]


def shrink_history(steps, still_fails, max_rounds=12):
    """Greedy one-step-at-a-time minimisation of a failing history (its LAST step is the one whose result is wrong).
    still_fails(result_of_last_step) -> bool.  Every candidate (the history with one earlier step removed) runs in its own
    fresh process; all candidates of a round run in parallel."""
    steps = list(steps)
    for _ in range(max_rounds):
        if len(steps) <= 1:
            break
        cands = [steps[:i] + steps[i + 1:] for i in range(len(steps) - 1)]
        try:
            rs = run_histories([{"id": i, "steps": c} for i, c in enumerate(cands)])
        except Exception:
            break
        hit = None
        for c, r in zip(cands, rs):
            st = r.get("steps", [])
            if len(st) == len(c) and still_fails(st[-1]):
                hit = c
                break
        if hit is None:
            break
        steps = hit
    return steps


def run_python(jobs, want_sig=True, nproc=None, timeout=3000):
    req = {"jobs": jobs, "signatures": want_sig, "nproc": nproc or common.NPROC}
    rc, out = common.sh([common.PY, str(common.VERIF / "tools/vt/pyside.py")], cwd=common.REPO, env=common.py_env(),
                        input=json.dumps(req), timeout=timeout)
    if "@@RESULT@@" not in out:
        raise RuntimeError("python side failed:\n" + out[-3000:])
    return json.loads(out.split("@@RESULT@@", 1)[1])


@dataclass
class K2Result:
    statuses: dict = field(default_factory=dict)  # id -> status code or string
    results: dict = field(default_factory=dict)  # id -> python result
    bodies: dict = field(default_factory=dict)  # id -> iltext.Body
    malformed: dict = field(default_factory=dict)  # id -> ILParseError text
    unmapped: dict = field(default_factory=dict)
    error: str = ""
    sig: dict = None


def compare(prop: str, jobs: list[dict], extra_defs: str = "", extra_evals=None, shard=150, timeout=900) -> K2Result:
    """jobs: [{"id":..,"code":..,"fmt":..}]. Returns per-job status."""
    py = run_python(jobs)
    return compare_results(prop, py["results"], py["signatures"], extra_defs, extra_evals, shard, timeout)


def insn_parts(results: list[dict]) -> list[dict]:
    """flatten results of op "insn" into one pseudo-result per behaviour part (id "<id>#<part>")"""
    out = []
    for r in results:
        if r.get("stage") in ("parse", "load", "harness"):
            out.append({"id": f"{r['id']}#0", "name": r.get("name"), "ok": False, "stage": r.get("stage"), "exc": r.get("exc"), "msg": r.get("msg")})
            continue
        asts = r.get("asts", [])
        n = len(asts)
        for i in range(n):
            d = {"id": f"{r['id']}#{i}", "name": r.get("name"), "part": i, "nparts": n, "behavior": r["behaviors"][i]}
            if asts[i] is None:
                d["unmapped"] = "; ".join(r.get("unmapped", []))
            else:
                d["ast"] = asts[i]
            if r.get("ok"):
                d.update(ok=True, text=r["texts"][i], meta=r["metas"][i], needs_hi=r["needs_hi"][i], needs_pkt=r["needs_pkt"][i],
                         getter=r["getter_names"][i])
            else:
                d.update(ok=False, exc=r.get("exc"), msg=r.get("msg"), stage=r.get("stage"))
            # hybrid counter: only known at instruction granularity; parts after the first get it from the model
            d["hpre"] = r.get("hpre", 0) if i == 0 else None
            d["hpost"] = r.get("hpost", 0) if i == n - 1 else None
            out.append(d)
    return out


def compare_results(prop: str, results: list[dict], sig, extra_defs: str = "", extra_evals=None, shard=150, timeout=900,
                    ignore_hcount=False) -> K2Result:
    out = K2Result()
    out.sig = sig
    rows = []
    ids = []
    for r in results:
        out.results[r["id"]] = r
        if r.get("stage") == "parse":
            out.statuses[r["id"]] = "parse-error"
            continue
        if r.get("stage") == "harness":
            out.statuses[r["id"]] = "harness-error"
            continue
        if "ast" not in r:
            out.unmapped[r["id"]] = r.get("unmapped", "?")
            out.statuses[r["id"]] = "unmapped"
            continue
        if r["ok"]:
            try:
                b = iltext.parse_body(r["text"])
                out.bodies[r["id"]] = b
                pyterm = f"(Some ({b.coq()}, {r['hpost'] if r.get('hpost') is not None else 999999}%N))"
            except iltext.ILParseError as e:
                out.malformed[r["id"]] = str(e)
                out.statuses[r["id"]] = "malformed-text"
                continue
        else:
            pyterm = "None"
        rows.append(f"({r['hpre'] if r.get('hpre') is not None else 0}%N, {r['ast']}, {pyterm})")
        ids.append(r["id"])
    files = {}
    shard = max(20, min(shard, -(-len(rows) // common.NPROC)))
    for k in range(0, len(rows), shard):
        chunk = rows[k : k + shard]
        files[f"k2_{k // shard:04d}"] = (
            HEADER + cfg_coq(out.sig) + CHECK + extra_defs
            + "Definition cases : list (N * cstmts * option (body * N)) := [\n" + ";\n".join(chunk) + "\n].\n"
            + "Eval vm_compute in (map status cases).\n"
            + "".join(extra_evals or [])
        )
    ok, outs, err = common.run_case_files(prop + "_k2", files, timeout=timeout)
    if not ok:
        out.error = err
        return out
    for name in sorted(outs):
        k = int(name.split("_")[1]) * shard
        vals = common.coq_printed_values(outs[name])
        codes = [int(x) for x in re.findall(r"\d+", vals[0].replace("%N", ""))]
        for j, c in enumerate(codes):
            out.statuses[ids[k + j]] = c
    return out


if __name__ == "__main__":
    import sys

    progs = sys.argv[1:] or ["{ RdV = RsV + siV; }"]
    jobs = [{"id": i, "code": c, "fmt": "READ_STATEMENTS"} for i, c in enumerate(progs)]
    r = compare("adhoc", jobs)
    print(r.error[-3000:])
    for i, c in enumerate(progs):
        print(r.statuses.get(i), c, r.results[i].get("exc", ""), r.results[i].get("msg", "")[:100], r.unmapped.get(i, ""), r.malformed.get(i, ""))
