"""K2/K3: run programs through the real compiler and through the Coq model, compare inside Coq.

Status codes computed by Coq per case (see CHECK below):
  0 agree: both accept, denote(real body) == tlower(p) (canonical form), hybrid counter equal
  1 agree: both reject
  2 model accepts, implementation rejects
  3 model rejects, implementation accepts
  4 both accept, trees differ
  5 real body does not denote (unknown head / undeclared effect) while the model accepts
  6 hybrid counter differs
"""
from __future__ import annotations

import json
import re
from dataclasses import dataclass, field

from . import common, iltext

HEADER = """From Coq Require Import ZArith NArith List Bool String.
From RZ.lib Require Import BV.
From RZ.sem Require Import RzIL CBody.
From RZ.model Require Import Ast Types OpTables Lower.
Import ListNotations.
Local Open Scope string_scope.
Local Open Scope Z_scope.
Local Open Scope list_scope.
"""

CHECK = """
Definition status (c : N * cstmts * option (body * N)) : N :=
  let '(h, p, py) := c in
  match tlower_checked (cfg h) p, py with
  | Err _, None => 1
  | OK _, None => 2
  | Err _, Some _ => 3
  | OK (e, hc), Some (b, hpy) =>
      match denote b with
      | None => 5
      | Some e' => if effect_eqb (canon e) (canon e') then (if N.eqb hc hpy then 0 else 6) else 4
      end
  end%N.
"""


def vt_coq(t) -> str:
    b = lambda x: "true" if x else "false"
    return f"(mkvt {b(t['sg'])} {t['w']} {b(t['bool'])} {b(t['void'])} {b(t['ext'])} {b(t['float'])} {b(t['hyb'])} {b(t['const'])} false)"


def cfg_coq(sig, params=None, ret=None) -> str:
    subs = "; ".join(f"mksub {common.coq_str(s['name'])} {vt_coq(s['ret'])} [{'; '.join(vt_coq(p) for p in s['params'])}]" for s in sig["subs"])
    macs = "; ".join(
        f"mkmac {common.coq_str(m['name'])} {common.coq_str(m['rz'])} {vt_coq(m['ret'])} [{'; '.join(vt_coq(p) for p in m['params'])}]"
        for m in sig["macros"])
    ext = "(mkvt false 64 false false true false false false false)"
    if params is None:
        ps = f'[("pkt", {ext}); ("hi", {ext}); ("bundle", {ext})]'
        rt = f"(Some {ext})"
    else:
        ps = "[" + "; ".join(f"({common.coq_str(n)}, {vt_coq(t)})" for n, t in params) + "]"
        rt = f"(Some {vt_coq(ret)})"
    return (f"Definition subs0 : list subsig := [{subs}].\nDefinition macs0 : list macsig := [{macs}].\n"
            f"Definition cfg (h : N) : config := mkcfg no_fixes subs0 macs0 {ps} {rt} h.\n")


def run_python(jobs, want_sig=True, nproc=None, timeout=3000):
    req = {"jobs": jobs, "signatures": want_sig, "nproc": nproc or common.NPROC}
    rc, out = common.sh([common.PY, str(common.VERIF / "tools/vt/pyside.py")], cwd=common.REPO, env=common.py_env(),
                        input=json.dumps(req), timeout=timeout)
    if "@@RESULT@@" not in out:
        raise RuntimeError("python side failed:\n" + out[-3000:])
    return json.loads(out.split("@@RESULT@@", 1)[1])


@dataclass
class K2Result:
    statuses: dict = field(default_factory=dict)  # id -> status code or string
    results: dict = field(default_factory=dict)  # id -> python result
    bodies: dict = field(default_factory=dict)  # id -> iltext.Body
    malformed: dict = field(default_factory=dict)  # id -> ILParseError text
    unmapped: dict = field(default_factory=dict)
    error: str = ""
    sig: dict = None


def compare(prop: str, jobs: list[dict], extra_defs: str = "", extra_evals=None, shard=150, timeout=900) -> K2Result:
    """jobs: [{"id":..,"code":..,"fmt":..}]. Returns per-job status."""
    out = K2Result()
    py = run_python(jobs)
    out.sig = py["signatures"]
    rows = []
    ids = []
    for r in py["results"]:
        out.results[r["id"]] = r
        if r.get("stage") == "parse":
            out.statuses[r["id"]] = "parse-error"
            continue
        if r.get("stage") == "harness":
            out.statuses[r["id"]] = "harness-error"
            continue
        if "ast" not in r:
            out.unmapped[r["id"]] = r.get("unmapped", "?")
            out.statuses[r["id"]] = "unmapped"
            continue
        if r["ok"]:
            try:
                b = iltext.parse_body(r["text"])
                out.bodies[r["id"]] = b
                pyterm = f"(Some ({b.coq()}, {r['hpost']}%N))"
            except iltext.ILParseError as e:
                out.malformed[r["id"]] = str(e)
                out.statuses[r["id"]] = "malformed-text"
                continue
        else:
            pyterm = "None"
        rows.append(f"({r['hpre']}%N, {r['ast']}, {pyterm})")
        ids.append(r["id"])
    files = {}
    shard = max(20, min(shard, -(-len(rows) // common.NPROC)))
    for k in range(0, len(rows), shard):
        chunk = rows[k : k + shard]
        files[f"k2_{k // shard:04d}"] = (
            HEADER + cfg_coq(out.sig) + CHECK + extra_defs
            + "Definition cases : list (N * cstmts * option (body * N)) := [\n" + ";\n".join(chunk) + "\n].\n"
            + "Eval vm_compute in (map status cases).\n"
            + "".join(extra_evals or [])
        )
    ok, outs, err = common.run_case_files(prop + "_k2", files, timeout=timeout)
    if not ok:
        out.error = err
        return out
    for name in sorted(outs):
        k = int(name.split("_")[1]) * shard
        vals = common.coq_printed_values(outs[name])
        codes = [int(x) for x in re.findall(r"\d+", vals[0].replace("%N", ""))]
        for j, c in enumerate(codes):
            out.statuses[ids[k + j]] = c
    return out


if __name__ == "__main__":
    import sys

    progs = sys.argv[1:] or ["{ RdV = RsV + siV; }"]
    jobs = [{"id": i, "code": c, "fmt": "READ_STATEMENTS"} for i, c in enumerate(progs)]
    r = compare("adhoc", jobs)
    print(r.error[-3000:])
    for i, c in enumerate(progs):
        print(r.statuses.get(i), c, r.results[i].get("exc", ""), r.results[i].get("msg", "")[:100], r.unmapped.get(i, ""), r.malformed.get(i, ""))
