"""C15 — nothing is silently dropped: translate it or raise."""
import random
import re

from . import gen_prog, semprop

# constructs the property text lists as untranslatable, as they appear in the Ast term of a program
UNSUPPORTED = {
    "SGoto": "goto", "SBreak": "break", "SContinue": "continue", "SLabel": "label", "SCase": "case/default label",
    "EComma": "comma expression", "SWhile": "while", "SDo": "do-while", "SSwitch": "switch", "EIndex": "array access",
    "EMember": "member access", "EPtrMember": "-> access", "UDeref": "pointer dereference", "UAddr": "address-of",
}


def constructs(ast: str, known_fns) -> set[str]:
    found = {k for k in UNSUPPORTED if re.search(r"\b" + k + r"\b", ast)}
    for m in re.finditer(r'ECall "(\w+)"', ast):
        if m.group(1) not in known_fns:
            found.add("unknown function " + m.group(1))
    return found


def programs(tier, rnd: random.Random):
    n = 250 if tier == "quick" else 4000
    progs = list(gen_prog.unsupported_stream(rnd, n)) + ["{ %s }" % u for u in gen_prog.UNSUPPORTED]
    for u in ("goto foo;", "break;", "continue;", "lbl: RdV = 1;", "RdV = 1, ReV = 2;", "while (RsV) { RdV = 1; }",
              "do { RdV = 1; } while (RsV);", "switch (RsV) { case 1: RdV = 1; }", "RdV = foo(RsV);", "RdV = a[1];", "RdV = RsV.x;",
              "RdV = *RsV;", "RdV = pkt->x;"):
        for ctx in ("{ %s }", "{ RdV = RsV; %s }", "{ %s ReV = RtV; }", "{ if (RsV) { %s } }", "{ for (i = 0; i < 2; i++) { %s } }",
                    "{ if (RsV) { ReV = 1; } else { %s } }", "{ int32_t a = RsV; a++; %s }"):
            progs.append(ctx % u)
    # calls of UNKNOWN functions as statements and as values; names: every substring of the routine name the transformer special-cases
    # ("fatal" is translated to nothing on purpose), single letters, names that contain it
    special = "fatal"
    names = sorted({special[i:j] for i in range(len(special)) for j in range(i + 1, len(special) + 1)} - {special}) + \
        ["g", "q", "z", "xfatal", "fatal_error", "fatals", "Fatal", "trap2", "clz3", "sizeo", "foo"]
    for nm in names:
        for ctx in ("{ %s(RsV); RdV = 1; }", "{ if (RsV) { %s(RsV, 1); } RdV = 1; }", "{ for (i = 0; i < 2; i++) { %s(i); } }", "{ RdV = %s(RsV); }"):
            progs.append(ctx % nm)
    # chained assignments (each member is an assignment whose VALUE is used): all members must take effect, or the chain is rejected
    for ch in ("RdV = ReV = RsV;", "RdV = ReV = RxV = RsV;", "RdV = ReV = RxV = RyV = 0;", "int32_t a; int32_t b; a = b = RdV = RsV;",
               "int32_t i = RsV; RdV = ReV = i++;", "RdV = ReV = clz32(RsV);", "RdV = (ReV = RsV) + 1;", "RdV = ReV += RsV;"):
        for ctx in ("{ %s }", "{ if (RtV) { %s } }", "{ for (j = 0; j < 2; j++) { %s } }", "{ %s RxV = RxV + 1; }"):
            if "RxV" in ch and "RxV = RxV" in ctx:
                continue
            progs.append(ctx % ch)
    # "translated COMPLETELY": every ordered pair of SUPPORTED statements, at top level, in a branch, in a loop body -- the
    # differential oracle (C semantics vs the real output's IL semantics) notices a statement that produced no effect
    simple = ["RdV = RsV;", "ReV = 1;", "mem_store_u32(RtV, RsV);", "JUMP(RtV);", "PdV = 1;", "if (RsV) { RdV = 2; }", "int32_t a = RtV;",
              "RxV = RxV + 1;", "{ ReV = RtV; }", ";", "RyyV = RvvV;", "if (RtV) { JUMP(RsV); } else { ReV = 3; }"]
    pairs = [(a, b) for a in simple for b in simple if a != b]
    if tier == "quick":
        pairs = rnd.sample(pairs, 45)
    for a, b in pairs:
        progs += ["{ %s %s }" % (a, b), "{ if (RuV) { %s %s } }" % (a, b), "{ for (i = 0; i < 2; i++) { %s %s } }" % (a, b)]
    return progs


def extra(ctx):
    k2r, allp, known, res = ctx["k2r"], ctx["programs"], ctx["known_codes"], ctx["res"]
    known_constructs = {k.get("construct") for k in known.values() if k.get("construct")}
    fns = {s["name"] for s in (k2r.sig or {}).get("subs", [])} | {"sizeof", "fatal", "MEM_STORE0", "get_npc", "STORE_SLOT_CANCELLED", "WRITE_REG", "WRITE_PRED"}
    accepted_with = {}
    n_unsup = n_rejected = 0
    n_unmapped = n_unmapped_rejected = 0
    unmapped_accepted = []
    for jid, r in k2r.results.items():
        if "ast" not in r:
            # the parse tree has a shape the AST reader does not know (a form outside the dialect the model covers, or a grammar
            # rule that changed its tree shape): such a program must be REJECTED; if the compiler returns code for it, something
            # the reader cannot even name was accepted (and the model cannot vouch for what became of it)
            if r.get("stage") not in ("parse", "harness") and "unmapped" in r:
                n_unmapped += 1
                if r.get("ok"):
                    unmapped_accepted.append((jid, r.get("unmapped")))
                else:
                    n_unmapped_rejected += 1
            continue
        cs = constructs(r["ast"], fns)
        if not cs:
            continue
        n_unsup += 1
        if r.get("ok"):
            new = {c for c in cs if c not in known_constructs}
            if new:
                accepted_with.setdefault(tuple(sorted(new)), allp[int(jid.split(":")[1])])
        else:
            n_rejected += 1
    ctx["stats"]["programs_outside_the_reader"] = n_unmapped
    ctx["stats"]["of_those_rejected_by_the_compiler"] = n_unmapped_rejected
    unmapped_accepted.sort(key=lambda x: len(allp[int(x[0].split(":")[1])]))     # report the shortest such program
    for jid, why in unmapped_accepted[:1]:
        code = allp[int(jid.split(":")[1])]
        ctx["fails"].append((jid, code, ["accepted although its parse tree has a form outside the supported dialect: " + str(why)], {"flags": 0}))
    ctx["stats"]["programs_with_unsupported_construct"] = n_unsup
    ctx["stats"]["of_those_rejected"] = n_rejected
    for cs, code in list(accepted_with.items())[:1]:
        ctx["fails"].append(("READ_STATEMENTS:%d" % allp.index(code), code,
                             ["accepted although it contains: " + ", ".join(UNSUPPORTED.get(c, c) for c in cs)], {"flags": 0}))


SPEC = semprop.Spec(
    prop="C15", programs=programs, oracles=("diff",), extra=extra,
    theorems=["C15_unsupported_rejected_everywhere", "C15_translated_or_rejected", "C15_statement_for_current_tree", "C15_was_dropped_comma", "C15_fixed_comma", "C15_fixed_goto", "C15_fixed_label", "C15_rejects_while_do_switch"],
    note="each unsupported construct at every statement position around supported code; oracle: a program containing a construct of the "
         "property's list must be rejected; every ordered pair of supported statements at top level / in a branch / in a loop body under the "
         "differential oracle (complete translation)",
)


def run(tier):
    return semprop.run(SPEC, tier)


def replay(path):
    return semprop.replay("C15", path)
