"""C03 — casts and implicit conversions preserve the C value."""
import random

from . import gen_prog, semprop

T = gen_prog.INT_TYPES


def sw(t):
    return ("u" if t.startswith("u") else "s") + t.strip("uint_")


def programs(tier, rnd: random.Random):
    progs = []
    for ta in T:
        for tb in T:
            progs += [
                f"{{ {ta} a = RssV; RddV = ({tb})a; }}",                      # explicit cast
                f"{{ {ta} a = RssV; {tb} b = a; RddV = b; }}",                # initialisation
                f"{{ {ta} a = RssV; {tb} b; b = a; RddV = b; }}",             # assignment to a local
                f"{{ {ta} a = RssV; mem_store_{sw(tb)}(RtV, a); }}",          # store (to a defined address)
            ]
        progs += [f"{{ {ta} a = RssV; RdV = a; }}", f"{{ {ta} a = RssV; RddV = a; }}", f"{{ {ta} a = RssV; PdV = a; }}",  # register targets
                  f"{{ {ta} a = RssV; RdV = clz32(a); }}", f"{{ {ta} a = RssV; RddV = clz64(a); }}",                  # argument passing
                  f"{{ {ta} a = RssV; RdV = revbit16(a); }}", f"{{ {ta} a = RssV; JUMP(a); }}",
                  f"{{ RddV = ({ta})(RsV < RtV); }}", f"{{ {ta} b = (RsV == RtV); RddV = b; }}"]                      # boolean source
    n = 60 if tier == "quick" else 1200
    for _ in range(n):                                                                                                # chains of up to three conversions
        ts = [rnd.choice(T) for _ in range(4)]
        progs.append(f"{{ {ts[0]} a = RssV; RddV = ({ts[3]})({ts[2]})({ts[1]})a; }}")
    # conversion chains through ASSIGNMENT EXPRESSIONS (C11 6.5.16p3: the value of `b = x` is the value of b after the assignment, i.e. x
    # converted to the type of b): `a = b = x` gives a the value (Ta)(Tb)x -- locals and registers as inner / outer destination
    chains = []
    for tb in T:
        for ta in T:
            chains.append(f"{{ {tb} b; {ta} a; a = b = RssV; RddV = a; }}")
        chains += [f"{{ {tb} b; RddV = b = RssV; }}", f"{{ {tb} b; RdV = b = RssV; }}", f"{{ {tb} b; PdV = b = RssV; }}",
                   f"{{ {tb} b; int64_t a; a = b = RsV; RddV = a; ReV = b; }}"]
    if tier == "quick":
        keep = [p for i, p in enumerate(progs) if i % 3 == common_off(rnd) or "clz" in p or "JUMP" in p]
        return keep + rnd.sample(chains, 36)
    return progs + chains


def common_off(rnd, _c={}):
    if "o" not in _c:
        _c["o"] = rnd.randrange(3)
    return _c["o"]


SPEC = semprop.Spec(
    prop="C03", programs=programs, oracles=("diff",),
    theorems=["C03_fixed_widening_fill", "C03_refuted_redeclared_conversion", "C03_fixed_ternary_arms", "C03_refuted", "C03_repaired_witnesses", "C03_casts_correct_repaired", "C03_cast_table_is_the_compilers"],
    note="8x8 source/target pairs x {explicit cast, initialisation, assignment, store}, register targets, argument passing, "
         "return through ret_val (sub-routine call), boolean sources, chains of three conversions",
)


def run(tier):
    return semprop.run(SPEC, tier)


def replay(path):
    return semprop.replay("C03", path)
