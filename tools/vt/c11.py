"""C11 — emitted text is a well-formed C body with sound companion metadata."""
from . import emitprops, semprop

SPEC = emitprops.make_spec(
    "C11", ("wf",), ("wf", "needs"),
    ["C11_wf_characterisation", "C11_refuted_undeclared_use", "C11_getter_names_unique (per run over all names)"],
    "generated programs and a corpus sample in BOTH layouts: wf_body (declared exactly once, before use, valid identifiers, SEQN arity, final "
    "return) evaluated in Coq on every real body; needs_hi / needs_pkt against the variables the text mentions; one getter name per part, unique")


def run(tier):
    return semprop.run(SPEC, tier)


def replay(path):
    return semprop.replay("C11", path)
