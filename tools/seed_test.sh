#!/bin/sh
# usage: tools/seed_test.sh <seed dir> <property> [tier]   -- apply to /repo, run the check, undo
s=$1; p=$2; t=${3:-quick}
git -C /repo apply /verif/seeded/$s/patch.diff || exit 3
cd /verif && ./check $p --tier $t > /tmp/st_$s.$p.log 2>&1; rc=$?
git -C /repo checkout -- . 
echo "seed=$s check=$p rc=$rc $(grep -c '^VIOLATION' /tmp/st_$s.$p.log) violation line(s): $(grep '^VIOLATION' /tmp/st_$s.$p.log | head -2)"
