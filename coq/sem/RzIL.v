(* The IL side: typed syntax of what the compiler can emit, its operational meaning, and sorts.
   Trusted base item T3: this is my transcription of RzIL (rz_il opcodes) and of the Hexagon
   plugin macros the emitted text calls (READ_REG / WRITE_REG / INC / SIGNED / EXTRACT.. : T4). *)
From Coq Require Import ZArith NArith List Bool String Lia.
From RZ.lib Require Import BV.
Import ListNotations.
Local Open Scope string_scope.
Local Open Scope Z_scope.

(* ---------------------------------------------------------------- operand handles *)
Inductive regop :=
| RIsa (cls : string) (letter : string) (new : bool)   (* ISA2REG(hi, 'd', false), class letter from the handle name *)
| RExpl (num : Z) (cls : string) (new : bool)           (* EXPLICIT2OP(31, HEX_REG_CLASS_INT_REGS, false) *)
| RAlias (enum : string) (new : bool)                   (* ALIAS2OP(HEX_REG_ALIAS_USR, false) *)
| RNreg (letter : string)                               (* NREG2OP(bundle, 's') *)
| RParam (name : string).                               (* a `const HexOp *` parameter of a sub-routine *)

Definition regop_eqb (a b : regop) : bool :=
  match a, b with
  | RIsa c l n, RIsa c' l' n' => String.eqb c c' && String.eqb l l' && Bool.eqb n n'
  | RExpl k c n, RExpl k' c' n' => Z.eqb k k' && String.eqb c c' && Bool.eqb n n'
  | RAlias e n, RAlias e' n' => String.eqb e e' && Bool.eqb n n'
  | RNreg l, RNreg l' => String.eqb l l'
  | RParam x, RParam y => String.eqb x y
  | _, _ => false
  end.

(* ---------------------------------------------------------------- syntax *)
Inductive unop := UNeg | ULogNot.
Inductive binop := BAdd | BSub | BMul | BDiv | BMod | BSDiv | BSMod | BLogAnd | BLogOr | BLogXor | BShl0 | BShr0 | BShra.
Inductive cmpop := CEq | CUlt | CUle | CUgt | CUge | CSlt | CSle | CSgt | CSge.

Inductive pure :=
| PBv (sg : bool) (w : N) (v : Z)          (* SN(w, v) / UN(w, v) : sg only records the spelling *)
| PBool (b : bool)                          (* IL_TRUE / IL_FALSE *)
| PVarL (x : string)                        (* VARL("x") *)
| PVarLP (x : string)                       (* VARLP("x") *)
| PLet (x : string) (e body : pure)         (* LET("x", e, body) *)
| PReg (r : regop) (new : bool)             (* READ_REG(pkt, op, new) *)
| PImm (letter : string) (sg : bool) (w : N)(* SN(32, (st32) ISA2IMM(hi, 's')) *)
| PPktAddr                                  (* U32(pkt->pkt_addr) *)
| PParam (x : string)                       (* borrowed pure parameter of a sub-routine *)
| PUn (o : unop) (a : pure)
| PBin (o : binop) (a b : pure)
| PCmp (o : cmpop) (a b : pure)
| PCast (w : N) (fill a : pure)             (* CAST(w, fill, a) *)
| PMsb (a : pure)
| PNonZero (a : pure)
| PInv (a : pure)
| PAnd (a b : pure)
| POr (a b : pure)
| PIte (c a b : pure)
| PLoad (w : N) (addr : pure)               (* LOADW(w, addr) *)
| PSignExt (sg : bool) (w : N) (a : pure)   (* SIGNED(w, a) / UNSIGNED(w, a) *)
| PIncDec (inc : bool) (a : pure) (w : N)   (* INC(a, w) / DEC(a, w) *)
| PApp (head : string) (args : list pure)   (* plugin macros EXTRACT32.., float ops: opaque unless given meaning below *)
| PRaw (text : string).                     (* anything else passed through verbatim *)

Inductive arg := APure (p : pure) | AOp (r : regop) | ARaw (s : string).

Inductive effect :=
| ESetL (x : string) (p : pure)
| EWriteReg (r : regop) (p : pure)
| EStore (addr v : pure)
| ESeq (a b : effect)                       (* SEQN / SEQ2, right-nested *)
| EBranch (c : pure) (t e : effect)
| ERepeat (c : pure) (b : effect)
| ENop
| EEmpty
| ECall (f : string) (args : list arg)      (* hex_<f>(args): builds the callee's effect *)
| EPlugin (head : string) (args : list arg).

Fixpoint seqn (l : list effect) : effect :=
  match l with [] => EEmpty | [e] => e | e :: t => ESeq e (seqn t) end.

(* canonical form used when comparing trees: flatten sequences, drop EMPTY (justified by
   exec_flatten below: both are semantically neutral) *)
Fixpoint flat (e : effect) : list effect :=
  match e with
  | ESeq a b => flat a ++ flat b
  | EEmpty => []
  | EBranch c t f => [EBranch c (seqn (flat t)) (seqn (flat f))]
  | ERepeat c b => [ERepeat c (seqn (flat b))]
  | _ => [e]
  end.
Definition canon (e : effect) : effect := seqn (flat e).

(* ---------------------------------------------------------------- decidable equality (boolean) *)
Definition unop_eqb (a b : unop) := match a, b with UNeg, UNeg | ULogNot, ULogNot => true | _, _ => false end.
Definition binop_tag (o : binop) : N :=
  match o with BAdd => 0 | BSub => 1 | BMul => 2 | BDiv => 3 | BMod => 4 | BLogAnd => 5 | BLogOr => 6 | BLogXor => 7
             | BShl0 => 8 | BShr0 => 9 | BShra => 10 | BSDiv => 11 | BSMod => 12 end%N.
Definition cmpop_tag (o : cmpop) : N :=
  match o with CEq => 0 | CUlt => 1 | CUle => 2 | CUgt => 3 | CUge => 4 | CSlt => 5 | CSle => 6 | CSgt => 7 | CSge => 8 end%N.

Fixpoint pure_eqb (a b : pure) {struct a} : bool :=
  match a, b with
  | PBv s w v, PBv s' w' v' => Bool.eqb s s' && N.eqb w w' && Z.eqb (wrap w v) (wrap w v')   (* same bitvector *)
  | PBool x, PBool y => Bool.eqb x y
  | PVarL x, PVarL y => String.eqb x y
  | PVarLP x, PVarLP y => String.eqb x y
  | PLet x e c, PLet x' e' c' => String.eqb x x' && pure_eqb e e' && pure_eqb c c'
  | PReg r n, PReg r' n' => regop_eqb r r' && Bool.eqb n n'
  | PImm l s w, PImm l' s' w' => String.eqb l l' && Bool.eqb s s' && N.eqb w w'
  | PPktAddr, PPktAddr => true
  | PParam x, PParam y => String.eqb x y
  | PUn o x, PUn o' x' => unop_eqb o o' && pure_eqb x x'
  | PBin o x y, PBin o' x' y' => N.eqb (binop_tag o) (binop_tag o') && pure_eqb x x' && pure_eqb y y'
  | PCmp o x y, PCmp o' x' y' => N.eqb (cmpop_tag o) (cmpop_tag o') && pure_eqb x x' && pure_eqb y y'
  | PCast w f x, PCast w' f' x' => N.eqb w w' && pure_eqb f f' && pure_eqb x x'
  | PMsb x, PMsb x' => pure_eqb x x'
  | PNonZero x, PNonZero x' => pure_eqb x x'
  | PInv x, PInv x' => pure_eqb x x'
  | PAnd x y, PAnd x' y' => pure_eqb x x' && pure_eqb y y'
  | POr x y, POr x' y' => pure_eqb x x' && pure_eqb y y'
  | PIte c x y, PIte c' x' y' => pure_eqb c c' && pure_eqb x x' && pure_eqb y y'
  | PLoad w x, PLoad w' x' => N.eqb w w' && pure_eqb x x'
  | PSignExt s w x, PSignExt s' w' x' => Bool.eqb s s' && N.eqb w w' && pure_eqb x x'
  | PIncDec i x w, PIncDec i' x' w' => Bool.eqb i i' && N.eqb w w' && pure_eqb x x'
  | PApp h l, PApp h' l' =>
      String.eqb h h' &&
      (fix go (l l' : list pure) : bool :=
         match l, l' with [], [] => true | x :: t, x' :: t' => pure_eqb x x' && go t t' | _, _ => false end) l l'
  | PRaw s, PRaw s' => String.eqb s s'
  | _, _ => false
  end.

Definition arg_eqb (a b : arg) : bool :=
  match a, b with
  | APure p, APure q => pure_eqb p q
  | AOp r, AOp r' => regop_eqb r r'
  | ARaw s, ARaw s' => String.eqb s s'
  | _, _ => false
  end.
Fixpoint args_eqb (l l' : list arg) : bool :=
  match l, l' with [], [] => true | x :: t, x' :: t' => arg_eqb x x' && args_eqb t t' | _, _ => false end.

Fixpoint effect_eqb (a b : effect) : bool :=
  match a, b with
  | ESetL x p, ESetL x' p' => String.eqb x x' && pure_eqb p p'
  | EWriteReg r p, EWriteReg r' p' => regop_eqb r r' && pure_eqb p p'
  | EStore x y, EStore x' y' => pure_eqb x x' && pure_eqb y y'
  | ESeq x y, ESeq x' y' => effect_eqb x x' && effect_eqb y y'
  | EBranch c x y, EBranch c' x' y' => pure_eqb c c' && effect_eqb x x' && effect_eqb y y'
  | ERepeat c x, ERepeat c' x' => pure_eqb c c' && effect_eqb x x'
  | ENop, ENop => true
  | EEmpty, EEmpty => true
  | ECall f l, ECall f' l' => String.eqb f f' && args_eqb l l'
  | EPlugin f l, EPlugin f' l' => String.eqb f f' && args_eqb l l'
  | _, _ => false
  end.

(* ---------------------------------------------------------------- values, sorts, machine state *)
Inductive val := VBv (w : N) (v : Z) | VB (b : bool).
Inductive sort := SBool | SBv (w : N).
Definition sort_eqb (a b : sort) := match a, b with SBool, SBool => true | SBv w, SBv w' => N.eqb w w' | _, _ => false end.
Definition sort_of_val (v : val) := match v with VBv w _ => SBv w | VB _ => SBool end.

Record mstate := {
  locals : list (string * val);       (* most recent binding first *)
  rold : regop -> Z;                   (* register file as the packet started *)
  rnew : list (regop * Z);             (* registers written by this instruction (new/tmp bank) *)
  rnew0 : regop -> Z;                  (* new bank content for registers this instruction has not written (.new of producers) *)
  imms : string -> Z;
  pktaddr : Z;
  mem : list (Z * Z);                  (* bytes written, most recent first *)
  mem0 : Z -> Z;                       (* initial memory *)
  events : list (string * list arg)    (* plugin effects / calls to unknown sub-routines, most recent first *)
}.

Fixpoint lookup {A} (x : string) (l : list (string * A)) : option A :=
  match l with [] => None | (y, v) :: t => if String.eqb x y then Some v else lookup x t end.
Fixpoint lookup_reg (r : regop) (l : list (regop * Z)) : option Z :=
  match l with [] => None | (y, v) :: t => if regop_eqb r y then Some v else lookup_reg r t end.
Fixpoint lookup_mem (a : Z) (l : list (Z * Z)) : option Z :=
  match l with [] => None | (y, v) :: t => if Z.eqb a y then Some v else lookup_mem a t end.

Definition read_byte (s : mstate) (a : Z) : Z :=
  match lookup_mem a (mem s) with Some v => v | None => wrap 8 (mem0 s a) end.
Fixpoint read_bytes (s : mstate) (a : Z) (n : nat) : Z :=
  match n with O => 0 | S k => read_byte s (wrap 32 a) + 256 * read_bytes s (a + 1) k end.
Fixpoint write_bytes (m : list (Z * Z)) (a v : Z) (n : nat) : list (Z * Z) :=
  match n with O => m | S k => write_bytes ((wrap 32 a, wrap 8 v) :: m) (a + 1) (v / 256) k end.

(* register widths are a property of the machine; the contract only needs: READ_REG yields a
   bitvector whose width is the architectural width of the operand.  The width is supplied by
   the register environment (a parameter of the semantics). *)
Definition regwidth := regop -> N.

(* a `.new` operand denotes the value its producer wrote into the new bank; for any other operand the
   new bank holds the old value until this instruction writes it (contract variant V2 of DESIGN App. D) *)
Definition regop_is_new (r : regop) : bool :=
  match r with RIsa _ _ n | RExpl _ _ n | RAlias _ n => n | RNreg _ => true | RParam _ => false end.

(* destination-only operands (letters d, e): QEMU's helpers start them at 0; what the new bank holds
   before the instruction's own write is plugin-defined, so the oracle uses the same value on both
   sides and never raises a contract-dependent difference *)
Definition regop_dest_only (r : regop) : bool :=
  match r with RIsa _ l false => String.eqb l "d" || String.eqb l "e" | _ => false end.

Definition read_reg (rw : regwidth) (s : mstate) (r : regop) (new : bool) : val :=
  if new then VBv (rw r) (wrap (rw r) (match lookup_reg r (rnew s) with
                                        | Some v => v
                                        | None => if regop_is_new r then rnew0 s r
                                                  else if regop_dest_only r then 0 else rold s r end))
  else VBv (rw r) (wrap (rw r) (match lookup_reg r (rnew s) with Some v => v | None => rold s r end)).
(* Contract (T4, DESIGN 3.4): READ_REG(op, false) yields the value this instruction last wrote to op,
   if any, else the old bank; READ_REG(op, true) yields the new bank.  This is the lenient reading:
   under the strict one (own writes invisible to non-.new reads) more behaviours would count as
   mistranslated; observations that differ only under the strict reading are never raised. *)

(* ---------------------------------------------------------------- evaluation of pures *)
Definition bin_sem (o : binop) (w : N) (x y : Z) : option Z :=
  match o with
  | BAdd => Some (wrap w (x + y))
  | BSub => Some (wrap w (x - y))
  | BMul => Some (wrap w (x * y))
  | BDiv => if y =? 0 then Some (pow2 w - 1) else Some (x / y)
  | BMod => if y =? 0 then Some x else Some (x mod y)
  | BSDiv => if y =? 0 then Some (pow2 w - 1) else Some (wrap w (Z.quot (sval w x) (sval w y)))
  | BSMod => if y =? 0 then Some x else Some (wrap w (Z.rem (sval w x) (sval w y)))
  | BLogAnd => Some (Z.land x y)
  | BLogOr => Some (Z.lor x y)
  | BLogXor => Some (Z.lxor x y)
  | BShl0 => Some (shl0 w x y)
  | BShr0 => Some (shr0 w x y)
  | BShra => Some (shra w x y)
  end.
Definition is_shift (o : binop) := match o with BShl0 | BShr0 | BShra => true | _ => false end.

Definition cmp_sem (o : cmpop) (w : N) (x y : Z) : bool :=
  match o with
  | CEq => x =? y
  | CUlt => x <? y | CUle => x <=? y | CUgt => y <? x | CUge => y <=? x
  | CSlt => sval w x <? sval w y | CSle => sval w x <=? sval w y
  | CSgt => sval w y <? sval w x | CSge => sval w y <=? sval w x
  end.

Definition extract (w : N) (x start len : Z) : Z := wrap w ((wrap w x / 2 ^ start) mod 2 ^ len).

(* plugin macros with a defined integer meaning (QEMU's extract/deposit/bswap; T4) *)
Definition app_sem (h : string) (vs : list val) : option val :=
  match h, vs with
  | "EXTRACT32", [VBv 32 x; VBv _ s; VBv _ l] => Some (VBv 32 (extract 32 x s l))
  | "EXTRACT64", [VBv 64 x; VBv _ s; VBv _ l] => Some (VBv 64 (extract 64 x s l))
  | "SEXTRACT64", [VBv 64 x; VBv _ s; VBv _ l] =>
      let e := extract 64 x s l in
      Some (VBv 64 (wrap 64 (if (0 <? l) && (2 ^ (l - 1) <=? e) then e - 2 ^ l else e)))
  | "DEPOSIT32", [VBv 32 x; VBv _ s; VBv _ l; VBv 32 f] =>
      let m := (2 ^ l - 1) * 2 ^ s in Some (VBv 32 (wrap 32 (Z.lor (Z.land x (Z.lnot m)) (Z.land (f * 2 ^ s) m))))
  | "DEPOSIT64", [VBv 64 x; VBv _ s; VBv _ l; VBv 64 f] =>
      let m := (2 ^ l - 1) * 2 ^ s in Some (VBv 64 (wrap 64 (Z.lor (Z.land x (Z.lnot m)) (Z.land (f * 2 ^ s) m))))
  | "BSWAP16", [VBv 16 x] => Some (VBv 16 ((x mod 256) * 256 + x / 256))
  | "BSWAP32", [VBv 32 x] =>
      Some (VBv 32 ((x mod 256) * 16777216 + ((x / 256) mod 256) * 65536 + ((x / 65536) mod 256) * 256 + x / 16777216))
  | "BSWAP64", [VBv 64 x] =>
      Some (VBv 64 ((x mod 256) * 72057594037927936 + ((x / 256) mod 256) * 281474976710656
                    + ((x / 65536) mod 256) * 1099511627776 + ((x / 16777216) mod 256) * 4294967296
                    + ((x / 4294967296) mod 256) * 16777216 + ((x / 1099511627776) mod 256) * 65536
                    + ((x / 281474976710656) mod 256) * 256 + x / 72057594037927936))
  | _, _ => None
  end.

Section Eval.
  Variable rw : regwidth.

  Fixpoint eval (s : mstate) (lets : list (string * val)) (p : pure) {struct p} : option val :=
    match p with
    | PBv _ w v => Some (VBv w (wrap w v))
    | PBool b => Some (VB b)
    | PVarL x => lookup x (locals s)
    | PVarLP x => lookup x lets
    | PLet x e b => match eval s lets e with Some v => eval s ((x, v) :: lets) b | None => None end
    | PReg r n => Some (read_reg rw s r n)
    | PImm l _ w => Some (VBv w (wrap w (imms s l)))
    | PPktAddr => Some (VBv 32 (wrap 32 (pktaddr s)))
    | PParam _ => None
    | PUn o a =>
        match eval s lets a with
        | Some (VBv w x) => Some (VBv w (match o with UNeg => wrap w (- x) | ULogNot => wrap w (- x - 1) end))
        | _ => None end
    | PBin o a b =>
        match eval s lets a, eval s lets b with
        | Some (VBv w x), Some (VBv w' y) =>
            if is_shift o || N.eqb w w' then
              match bin_sem o w x y with Some r => Some (VBv w r) | None => None end
            else None
        | _, _ => None end
    | PCmp o a b =>
        match eval s lets a, eval s lets b with
        | Some (VBv w x), Some (VBv w' y) => if N.eqb w w' then Some (VB (cmp_sem o w x y)) else None
        | _, _ => None end
    | PCast w f a =>
        match eval s lets f, eval s lets a with
        | Some (VB fb), Some (VBv w0 x) => Some (VBv w (bvcast w0 w fb x))
        | _, _ => None end
    | PMsb a => match eval s lets a with Some (VBv w x) => Some (VB (msb w x)) | _ => None end
    | PNonZero a => match eval s lets a with Some (VBv w x) => Some (VB (negb (x =? 0))) | _ => None end
    | PInv a => match eval s lets a with Some (VB b) => Some (VB (negb b)) | _ => None end
    | PAnd a b => match eval s lets a, eval s lets b with Some (VB x), Some (VB y) => Some (VB (x && y)) | _, _ => None end
    | POr a b => match eval s lets a, eval s lets b with Some (VB x), Some (VB y) => Some (VB (x || y)) | _, _ => None end
    | PIte c a b =>
        match eval s lets c, eval s lets a, eval s lets b with
        | Some (VB cb), Some va, Some vb =>
            if sort_eqb (sort_of_val va) (sort_of_val vb) then Some (if cb then va else vb) else None
        | _, _, _ => None end
    | PLoad w a =>
        match eval s lets a with
        | Some (VBv _ x) => Some (VBv w (wrap w (read_bytes s x (N.to_nat (w / 8)))))
        | _ => None end
    | PSignExt sg w a =>
        match eval s lets a with
        | Some (VBv w0 x) => Some (VBv w (bvcast w0 w (sg && msb w0 x) x))
        | _ => None end
    | PIncDec inc a w =>
        match eval s lets a with
        | Some (VBv w0 x) => if N.eqb w0 w then Some (VBv w (wrap w (if inc then x + 1 else x - 1))) else None
        | _ => None end
    | PApp h l =>
        (fix go (l : list pure) (acc : list val) : option val :=
           match l with
           | [] => app_sem h (rev acc)
           | x :: t => match eval s lets x with Some v => go t (v :: acc) | None => None end
           end) l []
    | PRaw _ => None
    end.

  (* ---------------------------------------------------------------- effects *)
  Definition set_local (s : mstate) (x : string) (v : val) : mstate :=
    {| locals := (x, v) :: locals s; rold := rold s; rnew := rnew s; rnew0 := rnew0 s; imms := imms s;
       pktaddr := pktaddr s; mem := mem s; mem0 := mem0 s; events := events s |}.
  Definition set_reg (s : mstate) (r : regop) (v : Z) : mstate :=
    {| locals := locals s; rold := rold s; rnew := (r, v) :: rnew s; rnew0 := rnew0 s; imms := imms s;
       pktaddr := pktaddr s; mem := mem s; mem0 := mem0 s; events := events s |}.
  Definition set_mem (s : mstate) (m : list (Z * Z)) : mstate :=
    {| locals := locals s; rold := rold s; rnew := rnew s; rnew0 := rnew0 s; imms := imms s;
       pktaddr := pktaddr s; mem := m; mem0 := mem0 s; events := events s |}.
  Definition add_event (s : mstate) (h : string) (a : list arg) : mstate :=
    {| locals := locals s; rold := rold s; rnew := rnew s; rnew0 := rnew0 s; imms := imms s;
       pktaddr := pktaddr s; mem := mem s; mem0 := mem0 s; events := (h, a) :: events s |}.

  (* sub-routine environment: name -> (parameter names in order, body effect) *)
  Definition subenv := string -> option (list string * effect).

  Fixpoint subst_pure (m : list (string * pure)) (p : pure) : pure :=
    match p with
    | PParam x => match lookup x m with Some q => q | None => p end
    | PLet x e b => PLet x (subst_pure m e) (subst_pure m b)
    | PUn o a => PUn o (subst_pure m a)
    | PBin o a b => PBin o (subst_pure m a) (subst_pure m b)
    | PCmp o a b => PCmp o (subst_pure m a) (subst_pure m b)
    | PCast w f a => PCast w (subst_pure m f) (subst_pure m a)
    | PMsb a => PMsb (subst_pure m a)
    | PNonZero a => PNonZero (subst_pure m a)
    | PInv a => PInv (subst_pure m a)
    | PAnd a b => PAnd (subst_pure m a) (subst_pure m b)
    | POr a b => POr (subst_pure m a) (subst_pure m b)
    | PIte c a b => PIte (subst_pure m c) (subst_pure m a) (subst_pure m b)
    | PLoad w a => PLoad w (subst_pure m a)
    | PSignExt sg w a => PSignExt sg w (subst_pure m a)
    | PIncDec i a w => PIncDec i (subst_pure m a) w
    | PApp h l => PApp h (map (subst_pure m) l)
    | _ => p
    end.
  Definition subst_arg (m : list (string * pure)) (a : arg) : arg :=
    match a with APure p => APure (subst_pure m p) | _ => a end.
  Fixpoint subst_eff (m : list (string * pure)) (e : effect) : effect :=
    match e with
    | ESetL x p => ESetL x (subst_pure m p)
    | EWriteReg r p => EWriteReg r (subst_pure m p)
    | EStore a v => EStore (subst_pure m a) (subst_pure m v)
    | ESeq a b => ESeq (subst_eff m a) (subst_eff m b)
    | EBranch c t f => EBranch (subst_pure m c) (subst_eff m t) (subst_eff m f)
    | ERepeat c b => ERepeat (subst_pure m c) (subst_eff m b)
    | ECall f l => ECall f (map (subst_arg m) l)
    | EPlugin f l => EPlugin f (map (subst_arg m) l)
    | _ => e
    end.

  Fixpoint bind_params (ps : list string) (args : list arg) : list (string * pure) :=
    match ps, args with
    | p :: ps', APure q :: as' => (p, q) :: bind_params ps' as'
    | _ :: ps', _ :: as' => bind_params ps' as'
    | _, _ => []
    end.

  Variable subs : subenv.

  (* fuel bounds REPEAT iterations and call depth; None = out of fuel or ill-sorted *)
  Fixpoint exec (fuel : nat) (e : effect) (s : mstate) {struct fuel} : option mstate :=
    match fuel with
    | O => None
    | S k =>
      match e with
      | ESetL x p =>
          match eval s [] p with
          | Some v => match lookup x (locals s) with
                      | Some old => if sort_eqb (sort_of_val old) (sort_of_val v) then Some (set_local s x v) else None
                      | None => Some (set_local s x v) end
          | None => None end
      | EWriteReg r p =>
          match eval s [] p with
          | Some (VBv w v) => if N.eqb w (rw r) then Some (set_reg s r v) else None
          | _ => None end
      | EStore a v =>
          match eval s [] a, eval s [] v with
          | Some (VBv _ x), Some (VBv w y) => Some (set_mem s (write_bytes (mem s) x y (N.to_nat (w / 8))))
          | _, _ => None end
      | ESeq a b => match exec k a s with Some s' => exec k b s' | None => None end
      | EBranch c t f =>
          match eval s [] c with
          | Some (VB true) => exec k t s
          | Some (VB false) => exec k f s
          | _ => None end
      | ERepeat c b =>
          match eval s [] c with
          | Some (VB true) => match exec k b s with Some s' => exec k (ERepeat c b) s' | None => None end
          | Some (VB false) => Some s
          | _ => None end
      | ENop => Some s
      | EEmpty => Some s
      | ECall f args =>
          match subs f with
          | Some (ps, body) => exec k (subst_eff (bind_params ps args) body) s
          | None => Some (add_event s f args)
          end
      | EPlugin h args => Some (add_event s h args)
      end
    end.
End Eval.

(* ---------------------------------------------------------------- sorts (mirror of rz_il_validate) *)
Section Sorts.
  Variable rw : regwidth.
  Definition lenv := list (string * sort).

  Definition app_sort (h : string) (ss : list sort) : option sort :=
    match h, ss with
    | "EXTRACT32", [SBv 32; SBv _; SBv _] => Some (SBv 32)
    | "EXTRACT64", [SBv 64; SBv _; SBv _] => Some (SBv 64)
    | "SEXTRACT64", [SBv 64; SBv _; SBv _] => Some (SBv 64)
    | "DEPOSIT32", [SBv 32; SBv _; SBv _; SBv 32] => Some (SBv 32)
    | "DEPOSIT64", [SBv 64; SBv _; SBv _; SBv 64] => Some (SBv 64)
    | "BSWAP16", [SBv 16] => Some (SBv 16)
    | "BSWAP32", [SBv 32] => Some (SBv 32)
    | "BSWAP64", [SBv 64] => Some (SBv 64)
    | _, _ => None
    end.

  Fixpoint sort_of (G : lenv) (lets : lenv) (p : pure) : option sort :=
    match p with
    | PBv _ w _ => Some (SBv w)
    | PBool _ => Some SBool
    | PVarL x => lookup x G
    | PVarLP x => lookup x lets
    | PLet x e b => match sort_of G lets e with Some t => sort_of G ((x, t) :: lets) b | None => None end
    | PReg r _ => Some (SBv (rw r))
    | PImm _ _ w => Some (SBv w)
    | PPktAddr => Some (SBv 32)
    | PParam _ => None
    | PUn _ a => match sort_of G lets a with Some (SBv w) => Some (SBv w) | _ => None end
    | PBin o a b =>
        match sort_of G lets a, sort_of G lets b with
        | Some (SBv w), Some (SBv w') => if is_shift o || N.eqb w w' then Some (SBv w) else None
        | _, _ => None end
    | PCmp _ a b =>
        match sort_of G lets a, sort_of G lets b with
        | Some (SBv w), Some (SBv w') => if N.eqb w w' then Some SBool else None
        | _, _ => None end
    | PCast w f a =>
        match sort_of G lets f, sort_of G lets a with Some SBool, Some (SBv _) => Some (SBv w) | _, _ => None end
    | PMsb a => match sort_of G lets a with Some (SBv _) => Some SBool | _ => None end
    | PNonZero a => match sort_of G lets a with Some (SBv _) => Some SBool | _ => None end
    | PInv a => match sort_of G lets a with Some SBool => Some SBool | _ => None end
    | PAnd a b | POr a b =>
        match sort_of G lets a, sort_of G lets b with Some SBool, Some SBool => Some SBool | _, _ => None end
    | PIte c a b =>
        match sort_of G lets c, sort_of G lets a, sort_of G lets b with
        | Some SBool, Some ta, Some tb => if sort_eqb ta tb then Some ta else None
        | _, _, _ => None end
    | PLoad w a => match sort_of G lets a with Some (SBv _) => Some (SBv w) | _ => None end
    | PSignExt _ w a => match sort_of G lets a with Some (SBv _) => Some (SBv w) | _ => None end
    | PIncDec _ a w => match sort_of G lets a with Some (SBv w0) => if N.eqb w0 w then Some (SBv w) else None | _ => None end
    | PApp h l =>
        (fix go (l : list pure) (acc : list sort) : option sort :=
           match l with
           | [] => app_sort h (rev acc)
           | x :: t => match sort_of G lets x with Some v => go t (v :: acc) | None => None end
           end) l []
    | PRaw _ => None
    end.

  (* every arm and every loop body is checked; a local keeps one sort for its whole life.
     Result: the local environment after the effect (locals first set inside an arm stay
     visible afterwards with that sort, as in RzIL's global-per-instruction local table). *)
  Fixpoint wf_effect (G : lenv) (e : effect) : option lenv :=
    match e with
    | ESetL x p =>
        match sort_of G [] p with
        | Some t => match lookup x G with
                    | Some t0 => if sort_eqb t0 t then Some G else None
                    | None => Some ((x, t) :: G) end
        | None => None end
    | EWriteReg r p => match sort_of G [] p with Some (SBv w) => if N.eqb w (rw r) then Some G else None | _ => None end
    | EStore a v => match sort_of G [] a, sort_of G [] v with Some (SBv _), Some (SBv _) => Some G | _, _ => None end
    | ESeq a b => match wf_effect G a with Some G' => wf_effect G' b | None => None end
    | EBranch c t f =>
        match sort_of G [] c with
        | Some SBool => match wf_effect G t with Some G1 => wf_effect G1 f | None => None end
        | _ => None end
    | ERepeat c b =>
        match sort_of G [] c with
        | Some SBool => wf_effect G b
        | _ => None end
    | ENop | EEmpty => Some G
    | ECall _ _ | EPlugin _ _ => Some G
    end.
End Sorts.
