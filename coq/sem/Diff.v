(* Differential execution: C semantics of a behaviour vs RzIL semantics of an effect, from the same
   initial machine state.  Used (a) to exhibit refutation witnesses by vm_compute and (b) by the
   failing-input search.  A test oracle built from the two semantics the theorems are about. *)
From Coq Require Import ZArith NArith List Bool String Ascii.
From RZ.lib Require Import BV.
From RZ.sem Require Import RzIL CSem.
From RZ.model Require Import Ast.
Import ListNotations.
Local Open Scope string_scope.
Local Open Scope Z_scope.
Local Open Scope list_scope.

(* ------------------------------------------------------------------ operand widths from the source *)
Definition opnd_reg (explicit_info : string -> bool -> option (regop * N)) (o : operand) : list (regop * N) :=
  match o with
  | OReg cls l => match class_width cls with
                  | Some w => [(RIsa cls (substring 0 1 l) false, if is_pair_letters l then (w * 2)%N else w)] | None => [] end
  | ONewReg cls l => match class_width cls with
                     | Some w => [((if String.eqb cls "N" then RNreg (substring 0 1 l) else RIsa cls (substring 0 1 l) true),
                                   if is_pair_letters l then (w * 2)%N else w)] | None => [] end
  | OExplicit n new => match explicit_info n new with Some p => [p] | None => [] end
  | OAlias n new => [(RAlias ("HEX_REG_ALIAS_" ++ n)%string new, alias_width n)]
  | _ => []
  end.

Section Regs.
  Variable xi : string -> bool -> option (regop * N).
  Fixpoint regs_e (e : cexpr) : list (regop * N) :=
    match e with
    | EOp o => opnd_reg xi o
    | ECast _ a | EUn _ a | EPost _ a | EMember a _ | EPtrMember a _ | ECallEmpty a => regs_e a
    | EBin _ a b | EAssign _ a b | EComma a b | EIndex a b => regs_e a ++ regs_e b
    | ECond a b c => regs_e a ++ regs_e b ++ regs_e c
    | ECall _ l | EMacro _ l | ELoad _ _ l => regs_es l
    | EStmtExpr l s => regs_ss l ++ regs_s s
    | _ => []
    end
  with regs_es (l : cexprs) : list (regop * N) := match l with ENil => [] | ECons e t => regs_e e ++ regs_es t end
  with regs_s (s : cstmt) : list (regop * N) :=
    match s with
    | SExpr e | SJump e | SDecl _ _ (Some e) | SReturn (Some e) => regs_e e
    | SIf c t None => regs_e c ++ regs_s t
    | SIf c t (Some f) => regs_e c ++ regs_s t ++ regs_s f
    | SFor i c (Some st) b => regs_s i ++ regs_s c ++ regs_e st ++ regs_s b
    | SFor i c None b => regs_s i ++ regs_s c ++ regs_s b
    | SBlock l => regs_ss l
    | SStore _ _ l => regs_es l
    | SWhile c b | SDo b c | SSwitch c b => regs_e c ++ regs_s b
    | SLabel _ s | SCase s => regs_s s
    | _ => []
    end
  with regs_ss (l : cstmts) : list (regop * N) := match l with SNil => [] | SCons s t => regs_s s ++ regs_ss t end.
End Regs.

Definition rw_of (tbl : list (regop * N)) : regwidth :=
  fun r => match find (fun p => regop_eqb (fst p) r) tbl with Some p => snd p | None => 32%N end.

(* ------------------------------------------------------------------ test environments *)
Definition boundary : list Z :=
  [0; 1; 2; 3; 7; 8; 31; 32; 127; 128; 255; 256; 32767; 32768; 65535; 65536; 2147483647; 2147483648; 4294967295;
   4294967296; 9223372036854775807; 9223372036854775808; 18446744073709551615; 1311768467463790320; 81985529216486895;
   12297829382473034410; 6148914691236517205; 4042322160; 252645135; 18446744073709551614; 2863311530; 4294967294].

Fixpoint str_code (s : string) : Z := match s with EmptyString => 7 | String c t => Z.of_nat (nat_of_ascii c) + 31 * str_code t end.
Definition regop_code (r : regop) : Z :=
  match r with
  | RIsa c l n => str_code c + 3 * str_code l + (if n then 101 else 0)
  | RExpl k c n => 5 * k + str_code c + (if n then 103 else 0)
  | RAlias e n => str_code e + (if n then 107 else 0)
  | RNreg l => 11 * str_code l
  | RParam x => 13 * str_code x
  end.
Definition pick (seed code : Z) : Z := nth (Z.to_nat ((seed * 7919 + code * 104729 + seed * code) mod 32)) boundary 0.

Definition env_of_seed (seed : Z) : cenv :=
  mkce (fun r => pick seed (regop_code r)) (fun r => pick (seed + 17) (regop_code r + 1))
       (fun l => pick (seed + 5) (str_code l)) (pick seed 4242) (fun a => (a * 37 + seed * 11 + a / 256) mod 256).

Definition mstate_of (E : cenv) : mstate :=
  {| locals := []; rold := ce_rold E; rnew := []; rnew0 := ce_rnew0 E; imms := ce_imms E; pktaddr := ce_pktaddr E;
     mem := []; mem0 := ce_mem0 E; events := [] |}.

(* ------------------------------------------------------------------ observables *)
Fixpoint dedup_regs (l : list (regop * Z)) (seen : list regop) : list (regop * Z) :=
  match l with
  | [] => []
  | (r, v) :: t => if existsb (regop_eqb r) seen then dedup_regs t seen else (r, v) :: dedup_regs t (r :: seen)
  end.
Fixpoint dedup_mem (l : list (Z * Z)) (seen : list Z) : list (Z * Z) :=
  match l with
  | [] => []
  | (a, v) :: t => if existsb (Z.eqb a) seen then dedup_mem t seen else (a, v) :: dedup_mem t (a :: seen)
  end.

Definition regs_agree (rw : regwidth) (c : list (regop * Z)) (i : list (regop * Z)) : bool :=
  let c' := dedup_regs c [] in let i' := dedup_regs i [] in
  forallb (fun p => match lookup_reg (fst p) i' with Some v => wrap (rw (fst p)) v =? wrap (rw (fst p)) (snd p) | None => false end) c'
  && forallb (fun p => match lookup_reg (fst p) c' with Some _ => true | None => false end) i'.
Definition mem_agree (c i : list (Z * Z)) : bool :=
  let c' := dedup_mem c [] in let i' := dedup_mem i [] in
  forallb (fun p => match lookup_mem (fst p) i' with Some v => v =? snd p | None => false end) c'
  && forallb (fun p => match lookup_mem (fst p) c' with Some _ => true | None => false end) i'.
Definition jump_agree (c : option Z) (il : list (string * val)) : bool :=
  match c, lookup "jump_flag" il, lookup "jump_target" il with
  | Some t, Some (VB true), Some (VBv 32 t') => t =? t'
  | None, None, _ => true
  | None, Some (VB false), _ => true
  | _, _, _ => false
  end.

(* result of one differential run *)
Inductive verdict := Agree | CUndefined | ILStuck | Differ.
Definition verdict_code (v : verdict) : N := match v with Agree => 0 | CUndefined => 1 | ILStuck => 2 | Differ => 3 end%N.

Section Run.
  Variable xi : string -> bool -> option (regop * N).
  Variable csub : csubs.
  Variable ilsub : subenv.

  Definition run_one (fuel : nat) (p : cstmts) (e : effect) (seed : Z) : verdict :=
    let E := env_of_seed seed in
    let rw := rw_of (regs_ss xi p) in
    match cexecs E csub xi fuel cs0 p with
    | None => CUndefined
    | Some sc =>
        match exec rw ilsub fuel e (mstate_of E) with
        | None => ILStuck
        | Some si =>
            if regs_agree rw (cs_regw sc) (rnew si) && mem_agree (cs_mem sc) (mem si) && jump_agree (cs_jump sc) (locals si)
            then Agree else Differ
        end
    end.

  (* first seed in the list on which C is defined and the IL does not agree *)
  Fixpoint first_bad (fuel : nat) (p : cstmts) (e : effect) (seeds : list Z) : option (Z * N) :=
    match seeds with
    | [] => None
    | s :: t => match run_one fuel p e s with
                | ILStuck => Some (s, 2%N)
                | Differ => Some (s, 3%N)
                | _ => first_bad fuel p e t
                end
    end.
  Definition count_defined (fuel : nat) (p : cstmts) (e : effect) (seeds : list Z) : nat :=
    List.length (filter (fun s => match run_one fuel p e s with CUndefined => false | _ => true end) seeds).
End Run.
