(* The emitted C text as a formal object: an ordered list of declarations over S-expressions,
   its well-formedness (wf_body), ownership linearity (linear) and its denotation as an RzIL effect. *)
From Coq Require Import ZArith NArith List Bool String Ascii Lia.
From RZ.lib Require Import BV.
From RZ.sem Require Import RzIL.
Import ListNotations.
Local Open Scope string_scope.
Local Open Scope Z_scope.

Inductive sexp :=
| SApp (head : string) (args : list sexp)   (* HEAD(a, b, ...) *)
| SVar (name : string)                       (* C identifier *)
| SAddr (name : string)                      (* &name *)
| SStr (s : string)                          (* "..." *)
| SChr (s : string)                          (* 'x' *)
| SInt (z : Z)
| SCCast (ty : string) (e : sexp)            (* (st32) e *)
| SArrow (a f : string).                     (* pkt->pkt_addr *)

Inductive dkind := DHexOp (* const HexOp *x *) | DHexOpVal (* const HexOp x *) | DPure | DEffect | DOther.
Record decl := mkdecl { dk : dkind; dname : string; dinit : sexp }.
Record body := mkbody { params : list (string * bool);  (* name, is-borrowed-pure *)
                        decls : list decl; ret : sexp }.

Definition dkind_tag (k : dkind) : N := match k with DHexOp => 0 | DHexOpVal => 1 | DPure => 2 | DEffect => 3 | DOther => 4 end%N.

(* ---------------------------------------------------------------- identifiers *)
Definition is_alpha_ (c : ascii) : bool :=
  let n := nat_of_ascii c in
  (((65 <=? n) && (n <=? 90)) || ((97 <=? n) && (n <=? 122)) || (n =? 95))%nat.
Definition is_alnum_ (c : ascii) : bool :=
  let n := nat_of_ascii c in (is_alpha_ c || ((48 <=? n) && (n <=? 57)))%nat.
Fixpoint all_chars (f : ascii -> bool) (s : string) : bool :=
  match s with EmptyString => true | String c t => f c && all_chars f t end.
Definition valid_ident (s : string) : bool :=
  match s with EmptyString => false | String c t => is_alpha_ c && all_chars is_alnum_ t end.

(* ---------------------------------------------------------------- uses of C variables *)
(* occurrences of C variables in an initialiser: (name, under_dup) in left-to-right order *)
Fixpoint uses (under_dup : bool) (e : sexp) : list (string * bool) :=
  match e with
  | SApp h args =>
      let d := under_dup || String.eqb h "DUP" in
      flat_map (uses d) args
  | SVar x => [(x, under_dup)]
  | SAddr x => [(x, true)]              (* taking the address does not consume *)
  | SCCast _ a => uses under_dup a
  | _ => []
  end.

Definition plugin_names : list string :=
  ["IL_TRUE"; "IL_FALSE"; "true"; "false"; "pkt"; "hi"; "bundle";
   "HEX_REG_CLASS_INT_REGS"; "HEX_REG_CLASS_PRED_REGS"; "HEX_REG_CLASS_CTR_REGS"; "HEX_REG_CLASS_MOD_REGS";
   "HEX_REG_CLASS_DOUBLE_REGS"; "HEX_REG_CLASS_CTR_REGS64"; "HEX_REG_CLASS_HVX_VR"; "HEX_REG_CLASS_HVX_QR";
   "HEX_REG_CLASS_HVX_WR"; "HEX_REG_CLASS_GUEST_REGS"; "HEX_REG_CLASS_SYS_REGS"; "HEX_REG_CLASS_GUEST_REGS64";
   "HEX_REG_CLASS_SYS_REGS64"; "HEX_REG_CLASS_MOD_REGS64"; "HEX_REG_CLASS_PRED_REGS64"; "HEX_REG_CLASS_INT_REGS64"].
Definition is_plugin_name (x : string) : bool :=
  existsb (String.eqb x) plugin_names
  || (String.eqb (substring 0 14 x) "HEX_REG_ALIAS_") || (String.eqb (substring 0 7 x) "HEX_RF_")
  || (String.eqb (substring 0 9 x) "RZ_FLOAT_") || (String.eqb (substring 0 8 x) "HEX_REG_").

Definition mem_str (x : string) (l : list string) : bool := existsb (String.eqb x) l.

(* SEQN(n, e1..en): the count must equal the number of effect arguments *)
Fixpoint seqn_ok (e : sexp) : bool :=
  match e with
  | SApp h args =>
      (if String.eqb h "SEQN" then
         match args with SInt n :: rest => Z.eqb n (Z.of_nat (List.length rest)) && (2 <=? n) | _ => false end
       else true) && forallb seqn_ok args
  | SCCast _ a => seqn_ok a
  | _ => true
  end.

(* declared exactly once, before first use; identifiers valid; last item is the return *)
Fixpoint wf_decls (declared : list string) (ds : list decl) : option (list string) :=
  match ds with
  | [] => Some declared
  | d :: t =>
      if valid_ident (dname d) && negb (mem_str (dname d) declared)
         && forallb (fun u => mem_str (fst u) declared || is_plugin_name (fst u)) (uses false (dinit d))
         && seqn_ok (dinit d)
      then wf_decls (dname d :: declared) t else None
  end.

Definition wf_body (b : body) : bool :=
  match wf_decls (map fst (params b)) (decls b) with
  | Some declared =>
      forallb (fun u => mem_str (fst u) declared || is_plugin_name (fst u)) (uses false (ret b)) && seqn_ok (ret b)
  | None => false
  end.

(* ---------------------------------------------------------------- ownership *)
(* all uses in the body in textual order *)
Definition all_uses (b : body) : list (string * bool) :=
  flat_map (fun d => uses false (dinit d)) (decls b) ++ uses false (ret b).
Definition count_raw (x : string) (l : list (string * bool)) : nat :=
  List.length (filter (fun u => String.eqb (fst u) x && negb (snd u)) l).
Definition count_any (x : string) (l : list (string * bool)) : nat :=
  List.length (filter (fun u => String.eqb (fst u) x) l).

(* owned variables: declared pures and effects.  Exactly one raw (consuming) use, and that use
   is the FIRST use... (the plugin's DUP copies a still-owned node: a DUP after the consuming
   use would read freed memory only if the parent was already freed; RzIL builders do not free
   on construction, so only the count matters).  Effects: exactly one use, raw.
   Borrowed pure parameters: at most one raw use.  Nothing initialised is unused. *)
Definition owned_ok (us : list (string * bool)) (d : decl) : bool :=
  match dk d with
  | DPure => Nat.eqb (count_raw (dname d) us) 1
  | DEffect => Nat.eqb (count_raw (dname d) us) 1 && Nat.eqb (count_any (dname d) us) 1
  | _ => true
  end.
Definition linear (b : body) : bool :=
  let us := all_uses b in
  forallb (owned_ok us) (decls b)
  && forallb (fun p : string * bool => if snd p then Nat.leb (count_raw (fst p) us) 1 else true) (params b).

(* ---------------------------------------------------------------- denotation *)
Inductive binding := BPure (p : pure) | BEff (e : effect) | BOp (r : regop).
Definition denv := list (string * binding).

Definition strip_suffix (suffix s : string) : string :=
  let n := String.length s in let k := String.length suffix in
  if (Nat.leb k n) && String.eqb (substring (n - k) k s) suffix then substring 0 (n - k) s else s.

(* the operand handle declared by `const HexOp *Rs_op = ISA2REG(hi, 's', false);` *)
Definition elab_regop (name : string) (e : sexp) : option regop :=
  let cls := substring 0 1 name in
  match e with
  | SApp "ISA2REG" [SVar "hi"; SChr l; SVar n] => Some (RIsa cls l (String.eqb n "true"))
  | SApp "EXPLICIT2OP" [SInt k; SVar c; SVar n] => Some (RExpl k c (String.eqb n "true"))
  | SApp "ALIAS2OP" [SVar a; SVar n] => Some (RAlias a (String.eqb n "true"))
  | SApp "NREG2OP" [SVar "bundle"; SChr l] => Some (RNreg l)
  | _ => None
  end.

Definition lookup_b (x : string) (G : denv) : option binding := lookup x G.

Definition opt_map2 {A B C} (f : A -> B -> C) (a : option A) (b : option B) : option C :=
  match a, b with Some x, Some y => Some (f x y) | _, _ => None end.
Fixpoint sequence {A} (l : list (option A)) : option (list A) :=
  match l with [] => Some [] | Some x :: t => match sequence t with Some r => Some (x :: r) | None => None end | None :: _ => None end.

Definition un_heads : list (string * unop) := [("NEG", UNeg); ("LOGNOT", ULogNot)].
Definition bin_heads : list (string * binop) :=
  [("ADD", BAdd); ("SUB", BSub); ("MUL", BMul); ("DIV", BDiv); ("MOD", BMod); ("SDIV", BSDiv); ("SMOD", BSMod); ("LOGAND", BLogAnd); ("LOGOR", BLogOr);
   ("LOGXOR", BLogXor); ("SHIFTL0", BShl0); ("SHIFTR0", BShr0); ("SHIFTRA", BShra)].
Definition cmp_heads : list (string * cmpop) :=
  [("EQ", CEq); ("ULT", CUlt); ("ULE", CUle); ("UGT", CUgt); ("UGE", CUge); ("SLT", CSlt); ("SLE", CSle); ("SGT", CSgt); ("SGE", CSge)].
Definition macro_heads : list string :=
  ["EXTRACT32"; "EXTRACT64"; "SEXTRACT64"; "DEPOSIT32"; "DEPOSIT64"; "BSWAP16"; "BSWAP32"; "BSWAP64";
   "HEX_REGFIELD"; "HEX_GET_CORRESPONDING_CS"; "BV2F"; "F2BV"; "HEX_GET_INSN_RMODE"; "HEX_INT_TO_D"; "HEX_INT_TO_F";
   "HEX_SINT_TO_D"; "HEX_SINT_TO_F"; "HEX_D_TO_INT"; "HEX_F_TO_INT"; "HEX_D_TO_SINT"; "HEX_F_TO_SINT"; "IS_INF";
   "FADD"; "FSUB"; "FMUL"; "FDIV"; "FEQ"; "FLT"; "FGT"; "FLE"; "FGE"; "HEX_GET_NPC"].

Definition regop_of (G : denv) (e : sexp) : option regop :=
  match e with
  | SVar x => match lookup_b x G with Some (BOp r) => Some r | None => Some (RParam x) | _ => None end
  | SAddr x => match lookup_b x G with Some (BOp r) => Some r | None => Some (RParam x) | _ => None end
  | _ => None
  end.

Section Elab.
  Variable G : denv.
  Variable is_param : string -> bool.

  Fixpoint elab (e : sexp) : option pure :=
    match e with
    | SVar "IL_TRUE" => Some (PBool true)
    | SVar "IL_FALSE" => Some (PBool false)
    | SVar x =>
        match lookup_b x G with
        | Some (BPure p) => Some p
        | Some (BOp _) => Some (PRaw x)          (* an operand handle passed to a plugin macro *)
        | Some (BEff _) => None
        | None => if is_param x then Some (PParam x) else Some (PRaw x)
        end
    | SApp "DUP" [a] => elab a
    | SApp "SN" [SInt w; SInt v] => Some (PBv true (Z.to_N w) v)
    | SApp "UN" [SInt w; SInt v] => Some (PBv false (Z.to_N w) v)
    | SApp "SN" [SInt w; SCCast _ (SApp "ISA2IMM" [SVar "hi"; SChr l])] => Some (PImm l true (Z.to_N w))
    | SApp "UN" [SInt w; SCCast _ (SApp "ISA2IMM" [SVar "hi"; SChr l])] => Some (PImm l false (Z.to_N w))
    | SApp "U32" [SArrow "pkt" "pkt_addr"] => Some PPktAddr
    | SApp "VARL" [SStr x] => Some (PVarL x)
    | SApp "VARLP" [SStr x] => Some (PVarLP x)
    | SApp "LET" [SStr x; a; b] => opt_map2 (PLet x) (elab a) (elab b)
    | SApp "READ_REG" [SVar "pkt"; r; SVar n] =>
        match regop_of G r with Some ro => Some (PReg ro (String.eqb n "true")) | None => None end
    | SApp "CAST" [SInt w; f; a] => opt_map2 (PCast (Z.to_N w)) (elab f) (elab a)
    | SApp "MSB" [a] => option_map PMsb (elab a)
    | SApp "NON_ZERO" [a] => option_map PNonZero (elab a)
    | SApp "INV" [a] => option_map PInv (elab a)
    | SApp "AND" [a; b] => opt_map2 PAnd (elab a) (elab b)
    | SApp "OR" [a; b] => opt_map2 POr (elab a) (elab b)
    | SApp "ITE" [c; a; b] =>
        match elab c, elab a, elab b with Some x, Some y, Some z => Some (PIte x y z) | _, _, _ => None end
    | SApp "LOADW" [SInt w; a] => option_map (PLoad (Z.to_N w)) (elab a)
    | SApp "SIGNED" [SInt w; a] => option_map (PSignExt true (Z.to_N w)) (elab a)
    | SApp "UNSIGNED" [SInt w; a] => option_map (PSignExt false (Z.to_N w)) (elab a)
    | SApp "INC" [a; SInt w] => option_map (fun x => PIncDec true x (Z.to_N w)) (elab a)
    | SApp "DEC" [a; SInt w] => option_map (fun x => PIncDec false x (Z.to_N w)) (elab a)
    | SApp h args =>
        match lookup h un_heads, args with
        | Some o, [a] => option_map (PUn o) (elab a)
        | _, _ =>
        match lookup h bin_heads, args with
        | Some o, [a; b] => opt_map2 (PBin o) (elab a) (elab b)
        | _, _ =>
        match lookup h cmp_heads, args with
        | Some o, [a; b] => opt_map2 (PCmp o) (elab a) (elab b)
        | _, _ =>
          if mem_str h macro_heads then option_map (PApp h) (sequence (map elab args)) else None
        end end end
    | SAddr x => Some (PRaw x)
    | SInt z => Some (PRaw "int")
    | SArrow a f => Some (PRaw (a ++ "->" ++ f))
    | SStr s => Some (PRaw s)
    | _ => None
    end.

  Definition elab_arg (e : sexp) : option arg :=
    match e with
    | SVar x =>
        match lookup_b x G with
        | Some (BOp r) => Some (AOp r)
        | Some (BPure p) => Some (APure p)
        | Some (BEff _) => None
        | None => if is_param x then Some (APure (PParam x)) else Some (ARaw x)
        end
    | SAddr x => match lookup_b x G with Some (BOp r) => Some (AOp r) | _ => None end
    | SArrow a f => Some (ARaw (a ++ "->" ++ f))
    | _ => option_map APure (elab e)
    end.

  Definition is_hex_call (h : string) : bool := String.eqb (substring 0 4 h) "hex_".

  Fixpoint elab_eff (e : sexp) : option effect :=
    match e with
    | SVar x => match lookup_b x G with Some (BEff f) => Some f | _ => None end
    | SApp "SETL" [SStr x; a] => option_map (ESetL x) (elab a)
    | SApp "WRITE_REG" [SVar _; r; a] =>
        match regop_of G r, elab a with Some ro, Some p => Some (EWriteReg ro p) | _, _ => None end
    | SApp "STOREW" [a; v] => opt_map2 EStore (elab a) (elab v)
    | SApp "SEQN" (SInt _ :: rest) => option_map seqn (sequence (map elab_eff rest))
    | SApp "SEQ2" [a; b] => opt_map2 ESeq (elab_eff a) (elab_eff b)
    | SApp "BRANCH" [c; t; f] =>
        match elab c, elab_eff t, elab_eff f with Some x, Some y, Some z => Some (EBranch x y z) | _, _, _ => None end
    | SApp "REPEAT" [c; b] => opt_map2 ERepeat (elab c) (elab_eff b)
    | SApp "NOP" [] => Some ENop
    | SApp "EMPTY" [] => Some EEmpty
    | SApp h args =>
        if is_hex_call h then option_map (ECall (substring 4 (String.length h - 4) h)) (sequence (map elab_arg args))
        else if String.eqb (substring 0 4 h) "HEX_" then option_map (EPlugin h) (sequence (map elab_arg args))
        else None
    | _ => None
    end.
End Elab.

Fixpoint denote_decls (is_param : string -> bool) (G : denv) (ds : list decl) : option denv :=
  match ds with
  | [] => Some G
  | d :: t =>
      match dk d with
      | DHexOp | DHexOpVal =>
          match elab_regop (dname d) (dinit d) with
          | Some r => denote_decls is_param ((dname d, BOp r) :: G) t
          | None => None end
      | DPure =>
          match elab G is_param (dinit d) with
          | Some p => denote_decls is_param ((dname d, BPure p) :: G) t
          | None => None end
      | DEffect =>
          match elab_eff G is_param (dinit d) with
          | Some e => denote_decls is_param ((dname d, BEff e) :: G) t
          | None => None end
      | DOther => denote_decls is_param G t
      end
  end.

Definition denote (b : body) : option effect :=
  let isp := fun x => existsb (fun p => String.eqb (fst p) x && snd p) (params b) in
  match denote_decls isp [] (decls b) with
  | Some G => elab_eff G isp (ret b)
  | None => None
  end.

(* ---------------------------------------------------------------- diagnostics (symptoms of a failing check) *)
Local Open Scope list_scope.
Definition head_of (e : sexp) : string := match e with SApp h _ => h | SVar x => x | _ => "" end.
(* declarations that violate ownership: (kind tag, head of the initialiser, #raw uses, #uses) *)
Definition linear_offenders (b : body) : list (N * string * nat * nat) :=
  let us := all_uses b in
  flat_map (fun d => if owned_ok us d then [] else [(dkind_tag (dk d), head_of (dinit d), count_raw (dname d) us, count_any (dname d) us)]) (decls b)
  ++ flat_map (fun p : string * bool => if snd p && negb (Nat.leb (count_raw (fst p) us) 1) then [(9%N, fst p, count_raw (fst p) us, count_any (fst p) us)] else []) (params b).
(* well-formedness symptoms: "undeclared:x", "invalid-identifier:x", "redeclared:x", "seqn-arity:x" *)
Fixpoint wf_offenders_decls (declared : list string) (ds : list decl) : list string * list string :=
  match ds with
  | [] => ([], declared)
  | d :: t =>
      let bad :=
        (if valid_ident (dname d) then [] else [String.append "invalid-identifier:" (dname d)])
        ++ (if mem_str (dname d) declared then [String.append "redeclared:" (dname d)] else [])
        ++ flat_map (fun u : string * bool => if mem_str (fst u) declared || is_plugin_name (fst u) then [] else [String.append "undeclared:" (fst u)]) (uses false (dinit d))
        ++ (if seqn_ok (dinit d) then [] else [String.append "seqn-arity:" (dname d)]) in
      let '(rest, dd) := wf_offenders_decls (dname d :: declared) t in (bad ++ rest, dd)
  end.
Definition wf_offenders (b : body) : list string :=
  let '(bad, declared) := wf_offenders_decls (map fst (params b)) (decls b) in
  bad ++ flat_map (fun u : string * bool => if mem_str (fst u) declared || is_plugin_name (fst u) then [] else [String.append "undeclared:" (fst u)]) (uses false (ret b))
      ++ (if seqn_ok (ret b) then [] else ["seqn-arity:return"]).
