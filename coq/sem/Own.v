(* Ownership: a MEANING for the linearity checker `linear` of sem/CBody.v, and its soundness.

   Model.  Executing the emitted C body produces, in textual order, a list of EVENTS on C
   variable names:
     - `v = INIT;`  first evaluates INIT: every raw occurrence of a variable u in INIT is a
       CONSUME of u (the node held by u is handed to a constructor and gets a parent), every
       occurrence under DUP(..) (or &u) is a COPY of u; then, for DPure / DEffect declarations,
       one fresh node is ALLOCated for v.  DHexOp / DHexOpVal / DOther declarations own nothing.
     - `return RET;` consumes / copies likewise.
   Two readings of the event list are given and related:
     (1) counting:    consumes b x, copies b x  ->  no_double_free, no_leak, effects_single_use;
     (2) operational: a per-variable ownership automaton
                         Unalloc --alloc--> Live --consume--> Moved
         (consume on Moved = double free, consume/copy on Unalloc = use before allocation,
          alloc on anything but Unalloc = re-allocation), run over the whole event list.

   Results.
     linear_sound / linear_complete     linear b = true  <->  the three counting properties
     run_ok_counts                      a fault-free run ending with every owned node Moved
                                        implies no_double_free and no_leak      (no hypothesis)
     linear_wf_run                      linear + wf_body + no_plugin_shadow  ->  the run is
                                        fault-free and ends with every owned node Moved
     consume_after_alloc, copy_after_alloc, nothing_before_alloc, alloc_once
                                        positional corollaries
     owned_reaches_ret                  with no_sink, every owned node is transitively attached
                                        to the returned node (the tree the caller frees)
     shadow_*                           no_plugin_shadow is necessary: wf_body does not reject a
                                        declaration whose name is a plugin name.              *)
From Coq Require Import ZArith List Bool String Arith Lia.
From RZ.sem Require Import CBody.
Import ListNotations.
Local Open Scope string_scope.
Local Open Scope list_scope.

(* ================================================================= events *)
Inductive ekind := KAlloc | KConsume | KCopy.
Definition event := (ekind * string)%type.
Definition EAlloc (x : string) : event := (KAlloc, x).
Definition EConsume (x : string) : event := (KConsume, x).
Definition ECopy (x : string) : event := (KCopy, x).

Definition owns (k : dkind) : bool := match k with DPure | DEffect => true | _ => false end.

Definition event_of_use (u : string * bool) : event :=
  if snd u then ECopy (fst u) else EConsume (fst u).
Definition events_of_uses (us : list (string * bool)) : list event := map event_of_use us.

(* the initialiser is evaluated first, then the variable is bound to the fresh node *)
Definition exec_decl (d : decl) : list event :=
  events_of_uses (uses false (dinit d)) ++ (if owns (dk d) then [EAlloc (dname d)] else []).
Definition exec_decls (ds : list decl) : list event := flat_map exec_decl ds.
Definition exec_body (b : body) : list event :=
  exec_decls (decls b) ++ events_of_uses (uses false (ret b)).

(* projection of a run on one variable *)
Definition proj (x : string) (evs : list event) : list ekind :=
  map fst (filter (fun e => String.eqb (snd e) x) evs).

Definition is_consume (k : ekind) : bool := match k with KConsume => true | _ => false end.
Definition is_copy (k : ekind) : bool := match k with KCopy => true | _ => false end.
Definition nC (l : list ekind) : nat := List.length (filter is_consume l).
Definition nD (l : list ekind) : nat := List.length (filter is_copy l).

(* ================================================================= counting reading *)
Definition consumes (b : body) (x : string) : nat := nC (proj x (exec_body b)).
Definition copies (b : body) (x : string) : nat := nD (proj x (exec_body b)).
Definition occurrences (b : body) (x : string) : nat := consumes b x + copies b x.

Definition owned (b : body) (x : string) : Prop :=
  exists d, In d (decls b) /\ owns (dk d) = true /\ dname d = x.
Definition borrowed (b : body) (x : string) : Prop := In (x, true) (params b).

Definition no_double_free (b : body) : Prop :=
  (forall x, owned b x -> consumes b x <= 1) /\ (forall x, borrowed b x -> consumes b x <= 1).
Definition no_leak (b : body) : Prop := forall x, owned b x -> consumes b x >= 1.
Definition effects_single_use (b : body) : Prop :=
  forall d, In d (decls b) -> dk d = DEffect ->
            occurrences b (dname d) = 1 /\ copies b (dname d) = 0.

(* ----------------------------------------------------------------- list facts *)
Lemma proj_app : forall x l1 l2, proj x (l1 ++ l2) = proj x l1 ++ proj x l2.
Proof. intros. unfold proj. now rewrite filter_app, map_app. Qed.

Lemma proj_cons : forall x e l,
  proj x (e :: l) = if String.eqb (snd e) x then fst e :: proj x l else proj x l.
Proof. intros. unfold proj. cbn [filter]. destruct (String.eqb (snd e) x); reflexivity. Qed.

Lemma nC_app : forall l1 l2, nC (l1 ++ l2) = nC l1 + nC l2.
Proof. intros. unfold nC. now rewrite filter_app, app_length. Qed.
Lemma nD_app : forall l1 l2, nD (l1 ++ l2) = nD l1 + nD l2.
Proof. intros. unfold nD. now rewrite filter_app, app_length. Qed.

Lemma count_raw_app : forall x l1 l2, count_raw x (l1 ++ l2) = count_raw x l1 + count_raw x l2.
Proof. intros. unfold count_raw. now rewrite filter_app, app_length. Qed.
Lemma count_any_app : forall x l1 l2, count_any x (l1 ++ l2) = count_any x l1 + count_any x l2.
Proof. intros. unfold count_any. now rewrite filter_app, app_length. Qed.

Lemma In_proj : forall k x evs, In k (proj x evs) <-> In (k, x) evs.
Proof.
  intros k x evs. unfold proj. rewrite in_map_iff. split.
  - intros [[k' y] [Hk Hin]]. apply filter_In in Hin. destruct Hin as [Hin Heq].
    cbn in *. apply String.eqb_eq in Heq. now subst.
  - intros Hin. exists (k, x). split; [reflexivity|]. apply filter_In. split; [assumption|].
    cbn. apply String.eqb_refl.
Qed.

(* ----------------------------------------------------------------- events vs uses *)
Lemma nC_proj_uses : forall x us, nC (proj x (events_of_uses us)) = count_raw x us.
Proof.
  intros x us. induction us as [|[y dup] t IH]; [reflexivity|].
  change (events_of_uses ((y, dup) :: t)) with (event_of_use (y, dup) :: events_of_uses t).
  rewrite proj_cons. unfold count_raw in *. cbn [filter fst snd].
  unfold event_of_use, ECopy, EConsume. cbn [fst snd].
  destruct dup; cbn [fst snd]; destruct (String.eqb y x); cbn; unfold nC in *; cbn; now rewrite ?IH.
Qed.

Lemma nD_proj_uses : forall x us,
  nC (proj x (events_of_uses us)) + nD (proj x (events_of_uses us)) = count_any x us.
Proof.
  intros x us. induction us as [|[y dup] t IH]; [reflexivity|].
  change (events_of_uses ((y, dup) :: t)) with (event_of_use (y, dup) :: events_of_uses t).
  rewrite proj_cons. unfold count_any in *. cbn [filter fst snd].
  unfold event_of_use, ECopy, EConsume. cbn [fst snd].
  destruct dup; cbn [fst snd]; destruct (String.eqb y x); unfold nC, nD in *; cbn in *; lia.
Qed.

Lemma proj_alloc_part : forall x d,
  nC (proj x (if owns (dk d) then [EAlloc (dname d)] else [])) = 0 /\
  nD (proj x (if owns (dk d) then [EAlloc (dname d)] else [])) = 0.
Proof.
  intros. destruct (owns (dk d)); [|split; reflexivity].
  rewrite proj_cons. cbn. destruct (String.eqb (dname d) x); split; reflexivity.
Qed.

Lemma exec_decls_cons : forall d t, exec_decls (d :: t) = exec_decl d ++ exec_decls t.
Proof. reflexivity. Qed.

Lemma nC_exec_decls : forall x ds,
  nC (proj x (exec_decls ds)) = count_raw x (flat_map (fun d => uses false (dinit d)) ds).
Proof.
  intros x ds. induction ds as [|d t IH]; [reflexivity|].
  rewrite exec_decls_cons. cbn [flat_map]. unfold exec_decl at 1.
  rewrite !proj_app, !nC_app, count_raw_app, IH, nC_proj_uses.
  destruct (proj_alloc_part x d) as [H _]. rewrite H. lia.
Qed.

Lemma nCD_exec_decls : forall x ds,
  nC (proj x (exec_decls ds)) + nD (proj x (exec_decls ds))
  = count_any x (flat_map (fun d => uses false (dinit d)) ds).
Proof.
  intros x ds. induction ds as [|d t IH]; [reflexivity|].
  rewrite exec_decls_cons. cbn [flat_map]. unfold exec_decl at 1 2.
  rewrite !proj_app, !nC_app, !nD_app, count_any_app, <- IH, <- nD_proj_uses.
  destruct (proj_alloc_part x d) as [H1 H2]. rewrite H1, H2. lia.
Qed.

(* the model's counts ARE the checker's counts *)
Lemma consumes_count_raw : forall b x, consumes b x = count_raw x (all_uses b).
Proof.
  intros. unfold consumes, exec_body, all_uses.
  now rewrite proj_app, nC_app, count_raw_app, nC_exec_decls, nC_proj_uses.
Qed.

Lemma occurrences_count_any : forall b x, occurrences b x = count_any x (all_uses b).
Proof.
  intros. unfold occurrences, consumes, copies, exec_body, all_uses.
  rewrite proj_app, nC_app, nD_app, count_any_app, <- nCD_exec_decls, <- nD_proj_uses. lia.
Qed.

(* ================================================================= 2. soundness *)
Lemma linear_owned : forall b d, linear b = true -> In d (decls b) -> owns (dk d) = true ->
  count_raw (dname d) (all_uses b) = 1.
Proof.
  intros b d Hl Hin Ho. unfold linear in Hl. apply andb_true_iff in Hl. destruct Hl as [Hl _].
  rewrite forallb_forall in Hl. specialize (Hl d Hin). unfold owned_ok in Hl.
  destruct (dk d); try discriminate Ho.
  - now apply Nat.eqb_eq in Hl.
  - apply andb_true_iff in Hl. destruct Hl as [Hl _]. now apply Nat.eqb_eq in Hl.
Qed.

Lemma linear_borrowed : forall b x, linear b = true -> borrowed b x ->
  count_raw x (all_uses b) <= 1.
Proof.
  intros b x Hl Hin. unfold linear in Hl. apply andb_true_iff in Hl. destruct Hl as [_ Hl].
  rewrite forallb_forall in Hl. specialize (Hl (x, true) Hin). cbn in Hl. now apply Nat.leb_le in Hl.
Qed.

Theorem linear_sound : forall b, linear b = true ->
  no_double_free b /\ no_leak b /\ effects_single_use b.
Proof.
  intros b Hl. split; [split|split].
  - intros x [d [Hin [Ho Hn]]]. subst x. rewrite consumes_count_raw.
    rewrite (linear_owned b d Hl Hin Ho). lia.
  - intros x Hb. rewrite consumes_count_raw. now apply linear_borrowed.
  - intros x [d [Hin [Ho Hn]]]. subst x. rewrite consumes_count_raw.
    rewrite (linear_owned b d Hl Hin Ho). lia.
  - intros d Hin Hk.
    assert (Hraw : consumes b (dname d) = 1).
    { rewrite consumes_count_raw. apply linear_owned; try assumption. now rewrite Hk. }
    assert (Hany : occurrences b (dname d) = 1).
    { rewrite occurrences_count_any. unfold linear in Hl. apply andb_true_iff in Hl.
      destruct Hl as [Hl _]. rewrite forallb_forall in Hl. specialize (Hl d Hin).
      unfold owned_ok in Hl. rewrite Hk in Hl. apply andb_true_iff in Hl.
      destruct Hl as [_ Hl]. now apply Nat.eqb_eq in Hl. }
    split; [assumption|]. unfold occurrences in Hany. lia.
Qed.
Print Assumptions linear_sound.

(* ================================================================= 3. completeness *)
(* No side condition is needed: the model, like the checker, identifies variables by name. *)
Theorem linear_complete_strong : forall b,
  no_double_free b -> no_leak b -> effects_single_use b -> linear b = true.
Proof.
  intros b [Hdf Hbr] Hlk Hef. unfold linear. apply andb_true_iff. split.
  - apply forallb_forall. intros d Hin. unfold owned_ok.
    destruct (dk d) eqn:Hk; try reflexivity.
    + assert (Ho : owned b (dname d)) by (exists d; rewrite Hk; auto).
      specialize (Hdf _ Ho). specialize (Hlk _ Ho). rewrite consumes_count_raw in *.
      apply Nat.eqb_eq. lia.
    + assert (Ho : owned b (dname d)) by (exists d; rewrite Hk; auto).
      specialize (Hdf _ Ho). specialize (Hlk _ Ho). destruct (Hef d Hin Hk) as [Hocc Hcp].
      rewrite occurrences_count_any in Hocc. rewrite consumes_count_raw in *.
      apply andb_true_iff. split; apply Nat.eqb_eq; lia.
  - apply forallb_forall. intros [x [|]] Hin; [|reflexivity]. cbn.
    apply Nat.leb_le. rewrite <- consumes_count_raw. now apply Hbr.
Qed.
Print Assumptions linear_complete_strong.

Theorem linear_complete : forall b, NoDup (map dname (decls b)) ->
  no_double_free b -> no_leak b -> effects_single_use b -> linear b = true.
Proof. intros b _. apply linear_complete_strong. Qed.
Print Assumptions linear_complete.

Corollary linear_iff : forall b,
  linear b = true <-> no_double_free b /\ no_leak b /\ effects_single_use b.
Proof.
  intros b. split; [apply linear_sound|]. intros [H1 [H2 H3]]. now apply linear_complete_strong.
Qed.
Print Assumptions linear_iff.

(* ================================================================= 4. operational reading *)
Inductive vstate :=
| Untracked   (* not an owned node: plugin names, HexOp handles, non-pure parameters, ... *)
| Unalloc     (* an owned variable whose declaration has not been executed yet *)
| Live        (* holds a node that has no parent yet *)
| Moved.      (* its node has been handed to a parent (or returned) *)

Inductive fault := UseBeforeAlloc (x : string) | DoubleFree (x : string) | ReAlloc (x : string).
Inductive result := OK (s : string -> vstate) | Err (f : fault).

Definition vstep (v : vstate) (k : ekind) : option vstate :=
  match k, v with
  | KAlloc, Unalloc => Some Live
  | KAlloc, _ => None
  | KConsume, Untracked => Some Untracked
  | KConsume, Live => Some Moved
  | KConsume, _ => None
  | KCopy, Unalloc => None
  | KCopy, w => Some w           (* copying a Moved node is fine: builders do not free *)
  end.

Definition fault_of (v : vstate) (k : ekind) (x : string) : fault :=
  match k, v with
  | KAlloc, _ => ReAlloc x
  | KConsume, Moved => DoubleFree x
  | _, _ => UseBeforeAlloc x
  end.

Definition state := string -> vstate.
Definition upd (s : state) (x : string) (v : vstate) : state :=
  fun y => if String.eqb y x then v else s y.

Definition step (s : state) (e : event) : result :=
  match vstep (s (snd e)) (fst e) with
  | Some v => OK (upd s (snd e) v)
  | None => Err (fault_of (s (snd e)) (fst e) (snd e))
  end.

Fixpoint run (s : state) (evs : list event) : result :=
  match evs with
  | [] => OK s
  | e :: t => match step s e with OK s' => run s' t | Err f => Err f end
  end.

Fixpoint vrun (v : vstate) (ks : list ekind) : option vstate :=
  match ks with
  | [] => Some v
  | k :: t => match vstep v k with Some v' => vrun v' t | None => None end
  end.

Definition owned_names (b : body) : list string :=
  map dname (filter (fun d => owns (dk d)) (decls b)).
Definition borrowed_names (b : body) : list string :=
  map fst (filter (fun p : string * bool => snd p) (params b)).

Definition init_state (b : body) : state :=
  fun x => if mem_str x (owned_names b) then Unalloc
           else if mem_str x (borrowed_names b) then Live else Untracked.

(* the final-state predicate: every owned node has been handed over, every borrowed
   parameter is still held or has been handed over once *)
Definition final_ok (b : body) (s : state) : Prop :=
  (forall x, owned b x -> s x = Moved) /\ (forall x, borrowed b x -> s x = Live \/ s x = Moved).

(* ----------------------------------------------------------------- run = product of vruns *)
Lemma upd_same : forall s x v, upd s x v x = v.
Proof. intros. unfold upd. now rewrite String.eqb_refl. Qed.
Lemma upd_other : forall s x v y, y <> x -> upd s x v y = s y.
Proof. intros. unfold upd. apply String.eqb_neq in H. now rewrite H. Qed.

Lemma run_proj : forall evs s s', run s evs = OK s' ->
  forall x, vrun (s x) (proj x evs) = Some (s' x).
Proof.
  induction evs as [|[k y] t IH]; intros s s' Hrun x.
  - cbn in Hrun. injection Hrun as <-. reflexivity.
  - cbn [run] in Hrun. unfold step in Hrun. cbn [fst snd] in Hrun.
    destruct (vstep (s y) k) as [v|] eqn:Hv; [|discriminate].
    rewrite proj_cons. cbn [fst snd]. destruct (String.eqb y x) eqn:Hyx.
    + apply String.eqb_eq in Hyx. subst y. cbn [vrun]. rewrite Hv.
      rewrite <- (upd_same s x v) at 1. now apply IH.
    + apply String.eqb_neq in Hyx. rewrite <- (upd_other s y v x) by congruence. now apply IH.
Qed.

Lemma run_complete : forall evs s, (forall x, vrun (s x) (proj x evs) <> None) ->
  exists s', run s evs = OK s'.
Proof.
  induction evs as [|[k y] t IH]; intros s H.
  - eexists. reflexivity.
  - cbn [run]. unfold step. cbn [fst snd].
    pose proof (H y) as Hy. rewrite proj_cons in Hy. cbn [fst snd] in Hy.
    rewrite String.eqb_refl in Hy. cbn [vrun] in Hy.
    destruct (vstep (s y) k) as [v|] eqn:Hv; [|congruence].
    apply IH. intros x. destruct (string_dec x y) as [->|Hne].
    + now rewrite upd_same.
    + rewrite upd_other by assumption. specialize (H x). rewrite proj_cons in H.
      cbn [fst snd] in H. assert (Hf : String.eqb y x = false) by (apply String.eqb_neq; congruence).
      now rewrite Hf in H.
Qed.

(* ----------------------------------------------------------------- the automaton on one variable *)
Lemma vrun_app : forall l1 l2 v,
  vrun v (l1 ++ l2) = match vrun v l1 with Some v' => vrun v' l2 | None => None end.
Proof.
  induction l1 as [|k t IH]; intros; [reflexivity|]. cbn. destruct (vstep v k); [apply IH|reflexivity].
Qed.

Lemma vrun_untracked : forall l, ~ In KAlloc l -> vrun Untracked l = Some Untracked.
Proof.
  induction l as [|k t IH]; intros H; [reflexivity|].
  destruct k; cbn in *; [exfalso; auto| |]; apply IH; tauto.
Qed.

Lemma vrun_moved : forall l, ~ In KAlloc l -> nC l = 0 -> vrun Moved l = Some Moved.
Proof.
  induction l as [|k t IH]; intros H Hc; [reflexivity|].
  destruct k; cbn in *; [exfalso; auto|discriminate Hc|]. apply IH; [tauto|exact Hc].
Qed.

Lemma vrun_live : forall l, ~ In KAlloc l -> nC l <= 1 ->
  vrun Live l = Some (if Nat.eqb (nC l) 1 then Moved else Live).
Proof.
  induction l as [|k t IH]; intros H Hc; [reflexivity|].
  destruct k; cbn in H.
  - exfalso; auto.
  - change (nC (KConsume :: t)) with (S (nC t)) in *. assert (H0 : nC t = 0) by lia.
    rewrite H0. cbn. apply vrun_moved; [tauto|assumption].
  - change (nC (KCopy :: t)) with (nC t) in *. cbn [vrun vstep]. apply IH; [tauto|assumption].
Qed.

(* conservation law: on a tracked variable every consume moves the node exactly once *)
Definition moved (v : vstate) : nat := match v with Moved => 1 | _ => 0 end.

Lemma vrun_conservation : forall l v v', vrun v l = Some v' -> v <> Untracked ->
  v' <> Untracked /\ nC l + moved v = moved v'.
Proof.
  induction l as [|k t IH]; intros v v' H Hv.
  - cbn in H. injection H as <-. split; [assumption|reflexivity].
  - cbn [vrun] in H. destruct (vstep v k) as [w|] eqn:Hw; [|discriminate].
    destruct k, v; cbn in Hw; try discriminate Hw; try congruence; injection Hw as <-;
      (destruct (IH _ _ H) as [H1 H2]; [discriminate|]); split; try assumption;
      unfold nC in *; cbn in *; lia.
Qed.

(* ----------------------------------------------------------------- operational => counting *)
Lemma mem_str_In : forall x l, mem_str x l = true <-> In x l.
Proof.
  intros. unfold mem_str. rewrite existsb_exists. split.
  - intros [y [Hin Heq]]. apply String.eqb_eq in Heq. now subst.
  - intros Hin. exists x. split; [assumption|apply String.eqb_refl].
Qed.

Lemma owned_names_spec : forall b x, In x (owned_names b) <-> owned b x.
Proof.
  intros. unfold owned_names, owned. rewrite in_map_iff. split.
  - intros [d [Hn Hin]]. apply filter_In in Hin. exists d. tauto.
  - intros [d [Hin [Ho Hn]]]. exists d. split; [assumption|]. apply filter_In. tauto.
Qed.

Lemma borrowed_names_spec : forall b x, In x (borrowed_names b) <-> borrowed b x.
Proof.
  intros. unfold borrowed_names, borrowed. rewrite in_map_iff. split.
  - intros [[y c] [Hn Hin]]. apply filter_In in Hin. cbn in *. destruct Hin as [Hin Hc]. now subst.
  - intros Hin. exists (x, true). split; [reflexivity|]. apply filter_In. now split.
Qed.

Lemma init_tracked : forall b x, owned b x \/ borrowed b x -> init_state b x <> Untracked.
Proof.
  intros b x H. unfold init_state.
  destruct (mem_str x (owned_names b)) eqn:Ho; [discriminate|].
  destruct (mem_str x (borrowed_names b)) eqn:Hb; [discriminate|].
  exfalso. destruct H as [H|H].
  - apply owned_names_spec, mem_str_In in H. congruence.
  - apply borrowed_names_spec, mem_str_In in H. congruence.
Qed.

(* A fault-free run that ends with every owned node handed over has no double free and no leak.
   No well-formedness hypothesis is needed. *)
Theorem run_ok_counts : forall b s,
  run (init_state b) (exec_body b) = OK s -> (forall x, owned b x -> s x = Moved) ->
  no_double_free b /\ no_leak b.
Proof.
  intros b s Hrun Hfin.
  assert (Hcons : forall x, owned b x \/ borrowed b x ->
                            consumes b x + moved (init_state b x) = moved (s x)).
  { intros x Hx. pose proof (run_proj _ _ _ Hrun x) as Hv.
    apply vrun_conservation in Hv; [tauto|now apply init_tracked]. }
  split; [split|].
  - intros x Hx. specialize (Hcons x (or_introl Hx)). destruct (s x); cbn in Hcons; lia.
  - intros x Hx. specialize (Hcons x (or_intror Hx)). destruct (s x); cbn in Hcons; lia.
  - intros x Hx. pose proof (Hcons x (or_introl Hx)) as Hc. rewrite (Hfin x Hx) in Hc.
    unfold init_state in Hc. apply owned_names_spec, mem_str_In in Hx. rewrite Hx in Hc.
    cbn in Hc. lia.
Qed.
Print Assumptions run_ok_counts.

(* ----------------------------------------------------------------- wf_decls facts *)
Lemma wf_decls_cons : forall declared d t D, wf_decls declared (d :: t) = Some D ->
  mem_str (dname d) declared = false /\
  forallb (fun u => mem_str (fst u) declared || is_plugin_name (fst u)) (uses false (dinit d)) = true /\
  wf_decls (dname d :: declared) t = Some D.
Proof.
  intros declared d t D H. cbn [wf_decls] in H.
  destruct (valid_ident (dname d) && negb (mem_str (dname d) declared)
            && forallb (fun u => mem_str (fst u) declared || is_plugin_name (fst u)) (uses false (dinit d))
            && seqn_ok (dinit d)) eqn:Hc; [|discriminate].
  apply andb_true_iff in Hc. destruct Hc as [Hc _].
  apply andb_true_iff in Hc. destruct Hc as [Hc Hu].
  apply andb_true_iff in Hc. destruct Hc as [_ Hm].
  apply negb_true_iff in Hm. auto.
Qed.

Lemma mem_str_cons : forall x y l, mem_str x (y :: l) = String.eqb x y || mem_str x l.
Proof. reflexivity. Qed.

Lemma wf_decls_app : forall ds1 ds2 declared D, wf_decls declared (ds1 ++ ds2) = Some D ->
  exists m, wf_decls declared ds1 = Some m /\ wf_decls m ds2 = Some D.
Proof.
  induction ds1 as [|d t IH]; intros ds2 declared D H.
  - exists declared. auto.
  - rewrite <- app_comm_cons in H. cbn [wf_decls] in *.
    destruct (valid_ident (dname d) && negb (mem_str (dname d) declared)
              && forallb (fun u => mem_str (fst u) declared || is_plugin_name (fst u)) (uses false (dinit d))
              && seqn_ok (dinit d)); [|discriminate]. now apply IH.
Qed.

(* a name that is already declared is never re-declared, and stays declared *)
Lemma wf_declared_stable : forall ds declared D x, wf_decls declared ds = Some D ->
  mem_str x declared = true ->
  (forall d, In d ds -> dname d <> x) /\ mem_str x D = true.
Proof.
  induction ds as [|d t IH]; intros declared D x H Hm.
  - cbn in H. injection H as <-. split; [intros ? []|assumption].
  - apply wf_decls_cons in H. destruct H as [Hn [_ Ht]].
    assert (Hm' : mem_str x (dname d :: declared) = true)
      by (rewrite mem_str_cons, Hm; apply orb_true_r).
    destruct (IH _ _ _ Ht Hm') as [H1 H2]. split; [|assumption].
    intros d' [<-|Hin]; [congruence|now apply H1].
Qed.

Lemma wf_declares : forall ds declared D d, wf_decls declared ds = Some D -> In d ds ->
  mem_str (dname d) D = true.
Proof.
  induction ds as [|d0 t IH]; intros declared D d H Hin; [destruct Hin|].
  apply wf_decls_cons in H. destruct H as [_ [_ Ht]]. destruct Hin as [<-|Hin].
  - eapply wf_declared_stable; [exact Ht|]. rewrite mem_str_cons, String.eqb_refl. reflexivity.
  - eapply IH; eassumption.
Qed.

Lemma snd_event_of_use : forall u, snd (event_of_use u) = fst u.
Proof. intros [y [|]]; reflexivity. Qed.

Lemma uses_silent : forall us declared x,
  forallb (fun u => mem_str (fst u) declared || is_plugin_name (fst u)) us = true ->
  mem_str x declared = false -> is_plugin_name x = false ->
  proj x (events_of_uses us) = [].
Proof.
  induction us as [|u t IH]; intros declared x H Hm Hp; [reflexivity|].
  cbn [forallb] in H. apply andb_true_iff in H. destruct H as [Hu Ht].
  change (events_of_uses (u :: t)) with (event_of_use u :: events_of_uses t).
  rewrite proj_cons, snd_event_of_use. destruct (String.eqb (fst u) x) eqn:He.
  - apply String.eqb_eq in He. rewrite He, Hm, Hp in Hu. discriminate.
  - eapply IH; eassumption.
Qed.

(* a name that is neither declared so far, nor a plugin name, nor declared in ds is silent in ds *)
Lemma wf_silent : forall ds declared D x, wf_decls declared ds = Some D ->
  mem_str x declared = false -> is_plugin_name x = false ->
  (forall d, In d ds -> dname d <> x) ->
  proj x (exec_decls ds) = [].
Proof.
  induction ds as [|d t IH]; intros declared D x H Hm Hp Hnd; [reflexivity|].
  apply wf_decls_cons in H. destruct H as [_ [Hu Ht]].
  assert (Hne : dname d <> x) by (apply Hnd; now left).
  rewrite exec_decls_cons. unfold exec_decl at 1. rewrite !proj_app.
  rewrite (uses_silent _ _ _ Hu Hm Hp). cbn [app].
  assert (Ha : proj x (if owns (dk d) then [EAlloc (dname d)] else []) = []).
  { destruct (owns (dk d)); [|reflexivity]. rewrite proj_cons. cbn [fst snd EAlloc].
    apply String.eqb_neq in Hne. now rewrite Hne. }
  rewrite Ha. cbn [app]. eapply IH; try eassumption.
  - rewrite mem_str_cons, Hm. assert (Hf : String.eqb x (dname d) = false)
      by (apply String.eqb_neq; congruence). now rewrite Hf.
  - intros d' Hin. apply Hnd. now right.
Qed.

(* ----------------------------------------------------------------- where allocs can be *)
Lemma no_alloc_uses : forall x us, ~ In KAlloc (proj x (events_of_uses us)).
Proof.
  intros x us H. apply In_proj in H. unfold events_of_uses in H. apply in_map_iff in H.
  destruct H as [[y [|]] [He _]]; discriminate He.
Qed.

Lemma alloc_in_decls : forall x ds, In KAlloc (proj x (exec_decls ds)) ->
  exists d, In d ds /\ owns (dk d) = true /\ dname d = x.
Proof.
  intros x ds H. apply In_proj in H. unfold exec_decls in H. apply in_flat_map in H.
  destruct H as [d [Hin He]]. unfold exec_decl in He. apply in_app_iff in He. destruct He as [He|He].
  - exfalso. apply (no_alloc_uses x (uses false (dinit d))). now apply In_proj.
  - destruct (owns (dk d)) eqn:Ho; [|destruct He]. destruct He as [He|[]].
    exists d. injection He as He. auto.
Qed.

(* ----------------------------------------------------------------- linear + wf => safe run *)
(* wf_body allows a declaration to take a plugin name (e.g. `RzILOpPure *hi = ...`) and
   simultaneously lets plugin names be used before any declaration; see shadow_body below.
   The following side condition closes that gap. *)
Definition no_plugin_shadow (b : body) : Prop :=
  forall d, In d (decls b) -> owns (dk d) = true -> is_plugin_name (dname d) = false.

Lemma wf_body_inv : forall b, wf_body b = true ->
  exists D, wf_decls (map fst (params b)) (decls b) = Some D /\
            forallb (fun u => mem_str (fst u) D || is_plugin_name (fst u)) (uses false (ret b)) = true.
Proof.
  intros b H. unfold wf_body in H.
  destruct (wf_decls (map fst (params b)) (decls b)) as [D|]; [|discriminate].
  apply andb_true_iff in H. exists D. tauto.
Qed.

(* shape of the projected run of an owned variable: nothing, then its alloc, then alloc-free *)
Lemma owned_shape : forall b x, wf_body b = true -> no_plugin_shadow b -> owned b x ->
  mem_str x (map fst (params b)) = false /\
  exists post, proj x (exec_body b) = KAlloc :: post /\ ~ In KAlloc post.
Proof.
  intros b x Hwf Hsh [d [Hin [Ho Hn]]].
  destruct (wf_body_inv b Hwf) as [D [HD _]].
  pose proof (Hsh d Hin Ho) as Hp. rewrite Hn in Hp.
  destruct (in_split _ _ Hin) as [ds1 [ds2 Hsplit]].
  rewrite Hsplit in HD. destruct (wf_decls_app _ _ _ _ HD) as [m [H1 H2]].
  pose proof (wf_decls_cons _ _ _ _ H2) as [Hm [Hu Ht]]. rewrite Hn in Hm, Ht.
  (* x is not a parameter *)
  assert (Hpar : mem_str x (map fst (params b)) = false).
  { destruct (mem_str x (map fst (params b))) eqn:E; [|reflexivity].
    destruct (wf_declared_stable _ _ _ x H1 E) as [_ E']. congruence. }
  (* x is not declared in ds1 *)
  assert (Hnd1 : forall d', In d' ds1 -> dname d' <> x).
  { intros d' Hin' Heq. pose proof (wf_declares _ _ _ _ H1 Hin') as E. rewrite Heq in E. congruence. }
  (* x is not declared in ds2 *)
  assert (Hnd2 : forall d', In d' ds2 -> dname d' <> x).
  { eapply wf_declared_stable; [exact Ht|]. rewrite mem_str_cons, String.eqb_refl. reflexivity. }
  split; [assumption|].
  unfold exec_body. rewrite Hsplit. unfold exec_decls. rewrite flat_map_app. cbn [flat_map].
  fold (exec_decls ds1). fold (exec_decls ds2). unfold exec_decl at 1. rewrite Ho, Hn.
  rewrite !proj_app. rewrite (wf_silent _ _ _ _ H1 Hpar Hp Hnd1).
  rewrite (uses_silent _ _ _ Hu Hm Hp). cbn [app].
  rewrite proj_cons. cbn [fst snd EAlloc]. rewrite String.eqb_refl. cbn [app].
  eexists. split; [reflexivity|]. intros Hal. apply in_app_iff in Hal. destruct Hal as [Hal|Hal].
  - apply alloc_in_decls in Hal. destruct Hal as [d' [Hin' [_ Hn']]]. exact (Hnd2 d' Hin' Hn').
  - exact (no_alloc_uses _ _ Hal).
Qed.

Lemma nC_cons_alloc : forall l, nC (KAlloc :: l) = nC l.
Proof. reflexivity. Qed.

Theorem linear_wf_run : forall b,
  linear b = true -> wf_body b = true -> no_plugin_shadow b ->
  exists s, run (init_state b) (exec_body b) = OK s /\ final_ok b s.
Proof.
  intros b Hl Hwf Hsh.
  assert (Hvar : forall x, exists v, vrun (init_state b x) (proj x (exec_body b)) = Some v /\
                                     (owned b x -> v = Moved) /\
                                     (borrowed b x -> v = Live \/ v = Moved)).
  { intros x. unfold init_state. destruct (mem_str x (owned_names b)) eqn:Ho.
    - (* owned *)
      apply mem_str_In, owned_names_spec in Ho.
      destruct (owned_shape b x Hwf Hsh Ho) as [_ [post [Hshape Hna]]].
      assert (Hc : nC post = 1).
      { destruct Ho as [d [Hin [Hod Hn]]]. pose proof (linear_owned b d Hl Hin Hod) as Hc.
        rewrite <- consumes_count_raw in Hc. unfold consumes in Hc.
        now rewrite Hn, Hshape, nC_cons_alloc in Hc. }
      exists Moved. rewrite Hshape. cbn [vrun vstep]. rewrite vrun_live by (auto; lia).
      rewrite Hc. cbn. auto.
    - assert (Hnown : ~ owned b x).
      { intros H. apply owned_names_spec, mem_str_In in H. congruence. }
      assert (Hna : ~ In KAlloc (proj x (exec_body b))).
      { unfold exec_body. rewrite proj_app. intros H. apply in_app_iff in H. destruct H as [H|H].
        - apply alloc_in_decls in H. apply Hnown. exact H.
        - exact (no_alloc_uses _ _ H). }
      destruct (mem_str x (borrowed_names b)) eqn:Hb.
      + apply mem_str_In, borrowed_names_spec in Hb.
        pose proof (linear_borrowed b x Hl Hb) as Hc. rewrite <- consumes_count_raw in Hc.
        unfold consumes in Hc. rewrite vrun_live by assumption.
        eexists. split; [reflexivity|]. split; [tauto|].
        intros _. destruct (Nat.eqb (nC (proj x (exec_body b))) 1); auto.
      + exists Untracked. split; [now apply vrun_untracked|]. split; [tauto|].
        intros H. apply borrowed_names_spec, mem_str_In in H. congruence. }
  destruct (run_complete (exec_body b) (init_state b)) as [s Hrun].
  { intros x. destruct (Hvar x) as [v [Hv _]]. congruence. }
  exists s. split; [assumption|].
  assert (Hs : forall x v, vrun (init_state b x) (proj x (exec_body b)) = Some v -> s x = v).
  { intros x v Hv. pose proof (run_proj _ _ _ Hrun x) as Hx. congruence. }
  split; intros x Hx; destruct (Hvar x) as [v [Hv [H1 H2]]]; rewrite (Hs x v Hv); auto.
Qed.
Print Assumptions linear_wf_run.

(* ----------------------------------------------------------------- positional corollaries *)
Lemma run_app : forall l1 l2 s s', run s (l1 ++ l2) = OK s' ->
  exists s1, run s l1 = OK s1 /\ run s1 l2 = OK s'.
Proof.
  induction l1 as [|e t IH]; intros l2 s s' H.
  - exists s. auto.
  - cbn [app run] in *. destruct (step s e) as [s0|]; [|discriminate]. now apply IH.
Qed.

(* only its alloc event moves a variable out of Unalloc *)
Lemma unalloc_stays : forall pre s s1 x, run s pre = OK s1 -> s x = Unalloc ->
  ~ In (EAlloc x) pre -> s1 x = Unalloc.
Proof.
  induction pre as [|[k y] t IH]; intros s s1 x H Hs Hn.
  - cbn in H. injection H as <-. assumption.
  - cbn [run] in H. unfold step in H. cbn [fst snd] in H.
    destruct (vstep (s y) k) as [v|] eqn:Hv; [|discriminate].
    eapply IH; [exact H| |intros Hin; apply Hn; now right].
    destruct (string_dec x y) as [->|Hne].
    + rewrite upd_same. rewrite Hs in Hv. destruct k; cbn in Hv; try discriminate.
      exfalso. apply Hn. now left.
    + now rewrite upd_other.
Qed.

Lemma event_eq_dec : forall a b : event, {a = b} + {a <> b}.
Proof. decide equality; [apply string_dec|decide equality]. Qed.

Lemma fault_free_use_after_alloc : forall k pre post s s' x,
  k <> KAlloc -> run s (pre ++ (k, x) :: post) = OK s' -> s x = Unalloc -> In (EAlloc x) pre.
Proof.
  intros k pre post s s' x Hk H Hs.
  destruct (in_dec event_eq_dec (EAlloc x) pre) as [Hin|Hnin]; [assumption|exfalso].
  apply run_app in H. destruct H as [s1 [H1 H2]].
  pose proof (unalloc_stays _ _ _ _ H1 Hs Hnin) as Hu.
  cbn [run] in H2. unfold step in H2. cbn [fst snd] in H2. rewrite Hu in H2.
  destruct k; cbn in H2; try discriminate. congruence.
Qed.

Lemma init_owned : forall b x, owned b x -> init_state b x = Unalloc.
Proof.
  intros b x H. unfold init_state. apply owned_names_spec, mem_str_In in H. now rewrite H.
Qed.

(* every consume of an owned variable is preceded by its alloc *)
Theorem consume_after_alloc : forall b,
  linear b = true -> wf_body b = true -> no_plugin_shadow b ->
  forall pre post x, exec_body b = pre ++ EConsume x :: post -> owned b x -> In (EAlloc x) pre.
Proof.
  intros b Hl Hwf Hsh pre post x He Ho.
  destruct (linear_wf_run b Hl Hwf Hsh) as [s [Hrun _]]. rewrite He in Hrun.
  eapply fault_free_use_after_alloc; [|exact Hrun|now apply init_owned]. discriminate.
Qed.
Print Assumptions consume_after_alloc.

(* likewise every DUP of an owned variable *)
Theorem copy_after_alloc : forall b,
  linear b = true -> wf_body b = true -> no_plugin_shadow b ->
  forall pre post x, exec_body b = pre ++ ECopy x :: post -> owned b x -> In (EAlloc x) pre.
Proof.
  intros b Hl Hwf Hsh pre post x He Ho.
  destruct (linear_wf_run b Hl Hwf Hsh) as [s [Hrun _]]. rewrite He in Hrun.
  eapply fault_free_use_after_alloc; [|exact Hrun|now apply init_owned]. discriminate.
Qed.
Print Assumptions copy_after_alloc.

(* No variable at all is consumed before being allocated: a variable that does get an alloc
   event somewhere has no consume (or copy) event in front of it.  This one does not need
   `linear`. *)
Theorem nothing_before_alloc : forall b, wf_body b = true -> no_plugin_shadow b ->
  forall pre post x, exec_body b = pre ++ EAlloc x :: post ->
  forall k, ~ In (k, x) pre.
Proof.
  intros b Hwf Hsh pre post x He k Hin.
  assert (Ho : owned b x).
  { assert (Ha : In KAlloc (proj x (exec_body b))).
    { apply In_proj. rewrite He. apply in_or_app. right. now left. }
    unfold exec_body in Ha. rewrite proj_app in Ha. apply in_app_iff in Ha. destruct Ha as [Ha|Ha].
    - now apply alloc_in_decls in Ha.
    - exfalso. exact (no_alloc_uses _ _ Ha). }
  destruct (owned_shape b x Hwf Hsh Ho) as [_ [post' [Hshape Hna]]].
  rewrite He, proj_app in Hshape. apply In_proj in Hin.
  destruct (proj x pre) as [|k0 r] eqn:Hpre; [destruct Hin|].
  cbn [app] in Hshape. injection Hshape as -> Hr.
  apply Hna. rewrite <- Hr. apply in_or_app. right. rewrite proj_cons. cbn [snd fst EAlloc].
  rewrite String.eqb_refl. now left.
Qed.
Print Assumptions nothing_before_alloc.

(* each owned variable is allocated exactly once *)
Theorem alloc_once : forall b, wf_body b = true -> no_plugin_shadow b ->
  forall x, owned b x -> List.length (filter (fun k => match k with KAlloc => true | _ => false end)
                                             (proj x (exec_body b))) = 1.
Proof.
  intros b Hwf Hsh x Ho. destruct (owned_shape b x Hwf Hsh Ho) as [_ [post [Hshape Hna]]].
  rewrite Hshape. cbn [filter List.length]. f_equal. clear Hshape.
  induction post as [|k t IH]; [reflexivity|]. cbn [filter].
  destruct k; [exfalso; apply Hna; now left| |]; apply IH; intros H; apply Hna; now right.
Qed.
Print Assumptions alloc_once.

(* Under wf_body and no_plugin_shadow the checker is EXACTLY the operational property. *)
Theorem linear_iff_run : forall b, wf_body b = true -> no_plugin_shadow b ->
  (linear b = true <->
   (exists s, run (init_state b) (exec_body b) = OK s /\ final_ok b s) /\ effects_single_use b).
Proof.
  intros b Hwf Hsh. split.
  - intros Hl. split; [now apply linear_wf_run|]. now apply linear_sound.
  - intros [[s [Hrun [Hfin _]]] Hef]. destruct (run_ok_counts b s Hrun Hfin) as [H1 H2].
    now apply linear_complete_strong.
Qed.
Print Assumptions linear_iff_run.

(* ================================================================= 4'. where the nodes end up *)
(* "consumed at least once" only says the node got SOME parent.  The caller frees the tree of
   the returned node, so the real no-leak property is that every owned node is (transitively)
   attached to the returned one. *)
Inductive reaches_ret (b : body) : string -> Prop :=
| RR_ret : forall x, In (x, false) (uses false (ret b)) -> reaches_ret b x
| RR_decl : forall x d, In d (decls b) -> owns (dk d) = true ->
    In (x, false) (uses false (dinit d)) -> reaches_ret b (dname d) -> reaches_ret b x.

(* declarations that own nothing (DHexOp / DHexOpVal / DOther) do not swallow owned nodes *)
Definition no_sink (b : body) : Prop :=
  forall d, In d (decls b) -> owns (dk d) = false ->
  forall x, In (x, false) (uses false (dinit d)) -> ~ owned b x.

Lemma nC_pos_In : forall l, nC l >= 1 -> In KConsume l.
Proof.
  induction l as [|k t IH]; intros H; [cbn in H; lia|].
  destruct k; [right; apply IH; exact H|now left|right; apply IH; exact H].
Qed.

Lemma consume_in_uses : forall x us, In (EConsume x) (events_of_uses us) <-> In (x, false) us.
Proof.
  intros x us. unfold events_of_uses. rewrite in_map_iff. split.
  - intros [[y [|]] [He Hin]]; [discriminate He|]. injection He as ->. exact Hin.
  - intros Hin. exists (x, false). auto.
Qed.

Lemma consume_in_decls : forall x ds, In (EConsume x) (exec_decls ds) <->
  exists d, In d ds /\ In (x, false) (uses false (dinit d)).
Proof.
  intros x ds. unfold exec_decls. rewrite in_flat_map. split.
  - intros [d [Hin He]]. exists d. split; [assumption|]. unfold exec_decl in He.
    apply in_app_iff in He. destruct He as [He|He]; [now apply consume_in_uses|].
    destruct (owns (dk d)); [|destruct He]. destruct He as [He|[]]. discriminate He.
  - intros [d [Hin Hu]]. exists d. split; [assumption|]. unfold exec_decl. apply in_or_app.
    left. now apply consume_in_uses.
Qed.

Theorem owned_reaches_ret : forall b,
  wf_body b = true -> no_plugin_shadow b -> no_leak b -> no_sink b ->
  forall x, owned b x -> reaches_ret b x.
Proof.
  intros b Hwf Hsh Hlk Hns.
  (* by induction on a suffix of the declaration list: the consumer of a declared variable is
     the return expression or a LATER declaration *)
  assert (Hsuf : forall ds2 ds1, decls b = ds1 ++ ds2 ->
                 forall d, In d ds2 -> owns (dk d) = true -> reaches_ret b (dname d)).
  { induction ds2 as [|d0 t IH]; intros ds1 Hsplit d Hin Ho; [destruct Hin|].
    destruct Hin as [<-|Hin].
    2:{ apply (IH (ds1 ++ [d0])); [rewrite <- app_assoc; exact Hsplit|assumption|assumption]. }
    assert (Hown : owned b (dname d0)).
    { exists d0. split; [rewrite Hsplit; apply in_or_app; right; now left|auto]. }
    pose proof (Hlk _ Hown) as Hc. unfold consumes in Hc. apply nC_pos_In, In_proj in Hc.
    unfold exec_body in Hc. apply in_app_iff in Hc. destruct Hc as [Hc|Hc].
    2:{ apply RR_ret. now apply consume_in_uses. }
    apply consume_in_decls in Hc. destruct Hc as [d' [Hin' Hu]].
    assert (Ho' : owns (dk d') = true).
    { destruct (owns (dk d')) eqn:E; [reflexivity|]. exfalso. exact (Hns d' Hin' E _ Hu Hown). }
    apply (RR_decl b (dname d0) d' Hin' Ho' Hu).
    (* d' comes after d0: nothing happens to a variable before its alloc *)
    assert (Hex : exec_body b =
                  (exec_decls ds1 ++ events_of_uses (uses false (dinit d0)))
                  ++ EAlloc (dname d0) :: (exec_decls t ++ events_of_uses (uses false (ret b)))).
    { unfold exec_body. rewrite Hsplit. unfold exec_decls. rewrite flat_map_app. cbn [flat_map].
      unfold exec_decl at 2. rewrite Ho. rewrite <- !app_assoc. reflexivity. }
    pose proof (nothing_before_alloc b Hwf Hsh _ _ _ Hex KConsume) as Hnb.
    rewrite Hsplit in Hin'. apply in_app_iff in Hin'. destruct Hin' as [Hin'|[<-|Hin']].
    - exfalso. apply Hnb. apply in_or_app. left. apply consume_in_decls. eauto.
    - exfalso. apply Hnb. apply in_or_app. right. now apply consume_in_uses.
    - apply (IH (ds1 ++ [d0])); [rewrite <- app_assoc; exact Hsplit|assumption|assumption]. }
  intros x [d [Hin [Ho <-]]]. exact (Hsuf (decls b) [] eq_refl d Hin Ho).
Qed.
Print Assumptions owned_reaches_ret.

Corollary linear_reaches_ret : forall b,
  linear b = true -> wf_body b = true -> no_plugin_shadow b -> no_sink b ->
  forall x, owned b x -> reaches_ret b x.
Proof.
  intros b Hl Hwf Hsh Hns. apply owned_reaches_ret; try assumption. now apply linear_sound.
Qed.
Print Assumptions linear_reaches_ret.

(* ================================================================= 5. examples *)
(* RzILOpPure *a = ADD(VARL("x"), U32(1));
   RzILOpEffect *e1 = SETL("y", a);
   RzILOpEffect *e2 = SETL("z", DUP(p));            p is an RZ_BORROW parameter
   return SEQN(2, e1, e2);                                                          *)
Definition ex_good : body :=
  mkbody [("p", true)]
         [ mkdecl DPure "a" (SApp "ADD" [SApp "VARL" [SStr "x"]; SApp "U32" [SInt 1%Z]]);
           mkdecl DEffect "e1" (SApp "SETL" [SStr "y"; SVar "a"]);
           mkdecl DEffect "e2" (SApp "SETL" [SStr "z"; SApp "DUP" [SVar "p"]]) ]
         (SApp "SEQN" [SInt 2%Z; SVar "e1"; SVar "e2"]).

Example ex_good_linear : linear ex_good = true.
Proof. vm_compute. reflexivity. Qed.
Example ex_good_wf : wf_body ex_good = true.
Proof. vm_compute. reflexivity. Qed.
Example ex_good_events : exec_body ex_good =
  [EAlloc "a"; EConsume "a"; EAlloc "e1"; ECopy "p"; EAlloc "e2"; EConsume "e1"; EConsume "e2"].
Proof. vm_compute. reflexivity. Qed.
Example ex_good_run : exists s, run (init_state ex_good) (exec_body ex_good) = OK s /\
  s "a" = Moved /\ s "e1" = Moved /\ s "e2" = Moved /\ s "p" = Live /\ s "hi" = Untracked.
Proof. eexists. split; [vm_compute; reflexivity|]. vm_compute. auto. Qed.

(* same, but `a` is used raw twice: ADD(a, a) -- the node gets two parents *)
Definition ex_bad : body :=
  mkbody []
         [ mkdecl DPure "a" (SApp "U32" [SInt 1%Z]);
           mkdecl DEffect "e1" (SApp "SETL" [SStr "y"; SApp "ADD" [SVar "a"; SVar "a"]]) ]
         (SVar "e1").

Example ex_bad_not_linear : linear ex_bad = false.
Proof. vm_compute. reflexivity. Qed.
Example ex_bad_consumes : consumes ex_bad "a" = 2.
Proof. vm_compute. reflexivity. Qed.
Example ex_bad_double_free : ~ no_double_free ex_bad.
Proof.
  intros [H _]. assert (Ho : owned ex_bad "a").
  { eexists. split; [left; reflexivity|]. split; reflexivity. }
  specialize (H "a" Ho). vm_compute in H. lia.
Qed.
Example ex_bad_run : run (init_state ex_bad) (exec_body ex_bad) = Err (DoubleFree "a").
Proof. vm_compute. reflexivity. Qed.

(* a leak: `a` is only ever DUPed *)
Definition ex_leak : body :=
  mkbody []
         [ mkdecl DPure "a" (SApp "U32" [SInt 1%Z]);
           mkdecl DEffect "e1" (SApp "SETL" [SStr "y"; SApp "DUP" [SVar "a"]]) ]
         (SVar "e1").
Example ex_leak_not_linear : linear ex_leak = false.
Proof. vm_compute. reflexivity. Qed.
Example ex_leak_run : exists s, run (init_state ex_leak) (exec_body ex_leak) = OK s /\ s "a" = Live.
Proof. eexists. split; vm_compute; reflexivity. Qed.

(* ----------------------------------------------------------------- findings about the checkers *)
(* (F1) no_plugin_shadow is necessary.  wf_body accepts a declaration named like a plugin name
   and, because plugin names may be used anywhere, a use of it BEFORE the declaration:
       RzILOpPure *a = ADD(hi, U32(1));   RzILOpPure *hi = U32(1);   return SETL("x", a);
   Both checkers accept; the run consumes `hi` before it is allocated. *)
Definition shadow_body : body :=
  mkbody []
         [ mkdecl DPure "a" (SApp "ADD" [SVar "hi"; SApp "U32" [SInt 1%Z]]);
           mkdecl DPure "hi" (SApp "U32" [SInt 1%Z]) ]
         (SApp "SETL" [SStr "x"; SVar "a"]).
Example shadow_wf : wf_body shadow_body = true.
Proof. vm_compute. reflexivity. Qed.
Example shadow_linear : linear shadow_body = true.
Proof. vm_compute. reflexivity. Qed.
Example shadow_run : run (init_state shadow_body) (exec_body shadow_body) = Err (UseBeforeAlloc "hi").
Proof. vm_compute. reflexivity. Qed.

(* (F2) `linear` alone identifies variables by NAME: with a duplicated declaration it accepts a
   body in which one of the two nodes leaks.  wf_body rejects it, and so does the run. *)
Definition dup_body : body :=
  mkbody []
         [ mkdecl DPure "a" (SApp "U32" [SInt 1%Z]);
           mkdecl DPure "a" (SApp "U32" [SInt 2%Z]) ]
         (SApp "SETL" [SStr "x"; SVar "a"]).
Example dup_linear : linear dup_body = true.
Proof. vm_compute. reflexivity. Qed.
Example dup_wf : wf_body dup_body = false.
Proof. vm_compute. reflexivity. Qed.
Example dup_run : run (init_state dup_body) (exec_body dup_body) = Err (ReAlloc "a").
Proof. vm_compute. reflexivity. Qed.

(* (F3) `linear` counts ANY raw occurrence as the consuming use, including one inside a
   declaration that owns nothing (DOther / DHexOp).  The node of `a` below is "consumed" by
   `int k = foo(a);` and never reaches the returned tree; both checkers accept. *)
Definition sink_body : body :=
  mkbody []
         [ mkdecl DPure "a" (SApp "U32" [SInt 1%Z]);
           mkdecl DOther "k" (SApp "foo" [SVar "a"]) ]
         (SApp "EMPTY" []).
Example sink_linear : linear sink_body = true.
Proof. vm_compute. reflexivity. Qed.
Example sink_wf : wf_body sink_body = true.
Proof. vm_compute. reflexivity. Qed.
Example sink_leaks : ~ reaches_ret sink_body "a".
Proof.
  intros H. inversion H as [x Hu|x d Hin Ho Hu Hr]; subst.
  - destruct Hu.
  - destruct Hin as [<-|[<-|[]]]; [|discriminate Ho]. cbn in Hu. destruct Hu.
Qed.
