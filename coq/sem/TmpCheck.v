(* C06: "temporaries are always written before they are read" as an executable, purely syntactic
   must-analysis on RzIL effects.  Definitions only; the proofs are in proofs/TmpCheckProofs.v.

   Facts about sem/RzIL.v this file relies on (checked against the definitions of eval / exec):
     - locals are read ONLY through [PVarL x]; let-bound variables have their own constructor [PVarLP x]
       and their own environment, so a [PLet] never shadows a local and never hides a local read;
     - [eval] evaluates EVERY sub-term of a pure (both arms of PIte, both sides of PAnd/POr, every
       argument of PApp), so the check looks at every [PVarL] occurring in a pure;
     - [exec] evaluates: the right-hand side of ESetL / EWriteReg, address and value of EStore, the
       condition of EBranch / ERepeat.  It does NOT evaluate the arguments of EPlugin nor of an ECall to an
       unknown callee (they are recorded as an event, syntactically); the checker is conservative there and
       checks them as reads, because the plugin will evaluate them;
     - an ECall to a callee known to [subs] executes [subst_eff (bind_params ps args) body] IN THE SAME
       LOCALS.  [tdef] (no environment) therefore is only sound for effects whose calls are all unknown to
       [subs]; [tdefS] takes the environment and checks the instantiated callee body, to a given call depth. *)
From Coq Require Import List Bool String.
From RZ.sem Require Import RzIL.
Import ListNotations.
Local Open Scope string_scope.

(* a compiler temporary: the name starts with "h_tmp" *)
Definition is_tmp (x : string) : bool := String.eqb (substring 0 5 x) "h_tmp".

Fixpoint inb (x : string) (D : list string) : bool :=
  match D with [] => false | y :: t => String.eqb x y || inb x t end.

(* every temporary read anywhere in p is in D *)
Fixpoint pure_ok (D : list string) (p : pure) : bool :=
  match p with
  | PVarL x => negb (is_tmp x) || inb x D
  | PLet _ e b => pure_ok D e && pure_ok D b
  | PUn _ a | PMsb a | PNonZero a | PInv a | PLoad _ a | PSignExt _ _ a | PIncDec _ a _ => pure_ok D a
  | PBin _ a b | PCmp _ a b | PCast _ a b | PAnd a b | POr a b => pure_ok D a && pure_ok D b
  | PIte c a b => pure_ok D c && pure_ok D a && pure_ok D b
  | PApp _ l => forallb (pure_ok D) l
  | PBv _ _ _ | PBool _ | PVarLP _ | PReg _ _ | PImm _ _ _ | PPktAddr | PParam _ | PRaw _ => true
  end.

Definition arg_ok (D : list string) (a : arg) : bool :=
  match a with APure p => pure_ok D p | AOp _ | ARaw _ => true end.

(* the temporaries both lists know *)
Definition meet (D1 D2 : list string) : list string := filter (fun x => inb x D2) D1.

(* D = temporaries known to have been written on every path reaching this point.
   None = some temporary may be read before it is written. *)
Fixpoint tdef (D : list string) (e : effect) : option (list string) :=
  match e with
  | ESetL x p => if pure_ok D p then Some (if is_tmp x then x :: D else D) else None
  | EWriteReg _ p => if pure_ok D p then Some D else None
  | EStore a v => if pure_ok D a && pure_ok D v then Some D else None
  | ESeq a b => match tdef D a with Some D1 => tdef D1 b | None => None end
  | EBranch c t f =>
      if pure_ok D c then
        match tdef D t, tdef D f with Some D1, Some D2 => Some (meet D1 D2) | _, _ => None end
      else None
  | ERepeat c b =>
      (* the body may run zero times: it contributes nothing.  On re-entry only MORE temporaries are
         written (tdef_incl), so checking the body and the condition from D covers every iteration. *)
      if pure_ok D c then match tdef D b with Some _ => Some D | None => None end else None
  | ENop | EEmpty => Some D
  | ECall _ args | EPlugin _ args => if forallb (arg_ok D) args then Some D else None
  end.

(* the same analysis, looking into the bodies of the callees [subs] knows (instantiated exactly as [exec]
   instantiates them), to call depth n; a known callee deeper than n is rejected *)
Fixpoint tdefS (subs : subenv) (n : nat) {struct n} : list string -> effect -> option (list string) :=
  fix go (D : list string) (e : effect) {struct e} : option (list string) :=
    match e with
    | ESetL x p => if pure_ok D p then Some (if is_tmp x then x :: D else D) else None
    | EWriteReg _ p => if pure_ok D p then Some D else None
    | EStore a v => if pure_ok D a && pure_ok D v then Some D else None
    | ESeq a b => match go D a with Some D1 => go D1 b | None => None end
    | EBranch c t f =>
        if pure_ok D c then
          match go D t, go D f with Some D1, Some D2 => Some (meet D1 D2) | _, _ => None end
        else None
    | ERepeat c b => if pure_ok D c then match go D b with Some _ => Some D | None => None end else None
    | ENop | EEmpty => Some D
    | ECall f args =>
        match subs f with
        | Some (ps, body) =>
            match n with
            | O => None
            | S m => tdefS subs m D (subst_eff (bind_params ps args) body)
            end
        | None => if forallb (arg_ok D) args then Some D else None
        end
    | EPlugin _ args => if forallb (arg_ok D) args then Some D else None
    end.

(* the state with every temporary outside D removed: what a run that never saw stale temporaries starts from *)
Definition keep (D : list string) (xv : string * val) : bool := negb (is_tmp (fst xv)) || inb (fst xv) D.
Definition clean (D : list string) (s : mstate) : mstate :=
  {| locals := filter (keep D) (locals s); rold := rold s; rnew := rnew s; rnew0 := rnew0 s; imms := imms s;
     pktaddr := pktaddr s; mem := mem s; mem0 := mem0 s; events := events s |}.

(* ---------------------------------------------------------------- the relations the theorems are stated with *)
(* everything but the locals is the same *)
Definition same_machine (s1 s2 : mstate) : Prop :=
  rold s1 = rold s2 /\ rnew s1 = rnew s2 /\ rnew0 s1 = rnew0 s2 /\ imms s1 = imms s2 /\
  pktaddr s1 = pktaddr s2 /\ mem s1 = mem s2 /\ mem0 s1 = mem0 s2 /\ events s1 = events s2.

(* s1 and s2 are equal except for the value / presence of the temporaries outside D *)
Definition agree_off (D : list string) (s1 s2 : mstate) : Prop :=
  same_machine s1 s2 /\
  forall x, is_tmp x = false \/ In x D -> lookup x (locals s1) = lookup x (locals s2).

(* no temporary is bound *)
Definition no_tmp (s : mstate) : Prop := forall x, is_tmp x = true -> lookup x (locals s) = None.

(* a temporary outside D that s1 holds does not clash in sort with what the state s' holds in it *)
Definition stale_compat (D : list string) (s1 s' : mstate) : Prop :=
  forall x v1 v', is_tmp x = true -> ~ In x D ->
    lookup x (locals s1) = Some v1 -> lookup x (locals s') = Some v' -> sort_of_val v1 = sort_of_val v'.

(* the temporaries outside D are bound in both states or in neither, to values of the same sort *)
Definition stale_same_sorts (D : list string) (s1 s2 : mstate) : Prop :=
  forall x, is_tmp x = true -> ~ In x D ->
    option_map sort_of_val (lookup x (locals s1)) = option_map sort_of_val (lookup x (locals s2)).

(* every temporary outside D that s2 holds, s1 holds too, with the same sort (s1 may hold more) *)
Definition stale_fewer (D : list string) (s2 s1 : mstate) : Prop :=
  forall x v2, is_tmp x = true -> ~ In x D -> lookup x (locals s2) = Some v2 ->
    exists v1, lookup x (locals s1) = Some v1 /\ sort_of_val v1 = sort_of_val v2.
