(* The C side: semantics of the shortcode dialect under ISO C11 integer rules with QEMU's
   conventions (two's complement wrap-around, arithmetic >> on signed values), written from the
   standard and INDEPENDENT of the compiler (trusted base T5).  Executable (fuelled) so that the
   same definitions serve the theorems, the refutation witnesses and the failing-input search.
   None = the standard prescribes no value (UB, unspecified read) or the construct is outside
   the dialect: theorems have the form "C gives v -> IL gives v". *)
From Coq Require Import ZArith NArith List Bool String.
From RZ.lib Require Import BV.
From RZ.sem Require Import RzIL.
From RZ.model Require Import Ast.
Import ListNotations.
Local Open Scope string_scope.
Local Open Scope Z_scope.
Local Open Scope list_scope.

(* ------------------------------------------------------------------ types *)
Definition cty := (bool * N)%type.            (* (signed, width) *)
Definition cval := (cty * Z)%type.            (* value kept as unsigned representative 0 <= v < 2^w *)
Definition int_t : cty := (true, 32%N).
Definition interp (t : cty) (v : Z) : Z := if fst t then sval (snd t) v else wrap (snd t) v.
Definition mkval (t : cty) (z : Z) : cval := (t, wrap (snd t) z).
Definition vint (c : cval) : Z := interp (fst c) (snd c).
Definition conv (t : cty) (c : cval) : cval := mkval t (vint c).           (* 6.3.1.3 with wrap *)
Definition promote (t : cty) : cty := if (snd t <? 32)%N then int_t else t.  (* 6.3.1.1, rank = width *)
Definition uac (a b : cty) : cty :=                                          (* 6.3.1.8, rank = width *)
  if Bool.eqb (fst a) (fst b) then (fst a, N.max (snd a) (snd b))
  else let u := if fst a then b else a in let s := if fst a then a else b in
       if (snd s <=? snd u)%N then (false, snd u) else (true, snd s).
Definition arith_ty (a b : cty) : cty := uac (promote a) (promote b).

(* 6.4.4.1: the first type of the list in which the value fits (int = 32, long = long long = 64) *)
Definition fits (t : cty) (v : Z) : bool := if fst t then v <? pow2 (snd t - 1) else v <? pow2 (snd t).
Definition literal_type (v : Z) (hex : bool) (suffix : string) : option cty :=
  let s32 : cty := (true, 32%N) in let u32 : cty := (false, 32%N) in
  let s64 : cty := (true, 64%N) in let u64 : cty := (false, 64%N) in
  let cands : list cty :=
    if String.eqb suffix "" then (if hex then [s32; u32; s64; u64] else [s32; s64])
    else if String.eqb suffix "U" then [u32; u64]
    else if String.eqb suffix "LL" then (if hex then [s64; u64] else [s64])
    else if String.eqb suffix "ULL" then [u64]
    else [] in
  find (fun t => fits t v) cands.

(* documented operand types (the convention the property text refers to): registers are signed,
   predicates 8 bit, pairs double width; immediates 32 bit, signed for letters r R s S *)
Definition class_width (cls : string) : option N :=
  if existsb (String.eqb cls) ["R"; "C"; "M"; "N"] then Some 32%N
  else if String.eqb cls "P" then Some 8%N else None.
Definition is_pair_letters (l : string) : bool := (String.length l =? 2)%nat.

(* ------------------------------------------------------------------ state *)
Record cstate := mkcs {
  cs_vars : list (string * (cty * option Z));   (* declared locals (flat namespace); None = declared, indeterminate value *)
  cs_regw : list (regop * Z);          (* operand registers assigned by this behaviour, most recent first *)
  cs_mem : list (Z * Z);
  cs_jump : option Z;                  (* Some target once JUMP executed *)
  cs_ret : option cval;                (* set by `return` inside a sub-routine *)
  cs_events : list (string * list Z)   (* calls to unknown routines / cancel_slot *)
}.
Definition cs0 : cstate := mkcs [] [] [] None None [].

Record cenv := mkce {
  ce_rold : regop -> Z;
  ce_rnew0 : regop -> Z;
  ce_imms : string -> Z;
  ce_pktaddr : Z;
  ce_mem0 : Z -> Z
}.

(* sub-routine table: name -> (return type, parameter (name,type) list, body) ; None types = by-reference/opaque *)
Record csub := mkcsub { csub_ret : option cty; csub_params : list (string * option cty); csub_body : cstmts }.
Definition csubs := string -> option csub.

Definition set_var (s : cstate) (x : string) (v : cval) : cstate :=
  mkcs ((x, (fst v, Some (snd v))) :: cs_vars s) (cs_regw s) (cs_mem s) (cs_jump s) (cs_ret s) (cs_events s).
Definition set_regw (s : cstate) (r : regop) (v : Z) : cstate :=
  mkcs (cs_vars s) ((r, v) :: cs_regw s) (cs_mem s) (cs_jump s) (cs_ret s) (cs_events s).

(* ------------------------------------------------------------------ lvalues / operands *)
Inductive lval := LVar (x : string) (t : cty) | LReg (r : regop) (t : cty) (fallback : option Z)
                | LImm (l : string) (t : cty).     (* an immediate operand: a C local initialised from the encoding *)

Definition alias_width (name : string) : N :=
  if existsb (String.eqb name) ["UPCYCLE"; "PKTCOUNT"; "UTIMER"] then 64%N else 32%N.

Section WithEnv.
  Variable E : cenv.
  Variable subs : csubs.
  (* explicit register spelling -> (operand handle, width): supplied by the operand tables *)
  Variable explicit_info : string -> bool -> option (regop * N).

  Definition operand_lval (s : cstate) (o : operand) : option lval :=
    match o with
    | OReg cls l =>
        match class_width cls with
        | Some w0 =>
            let w := if is_pair_letters l then (w0 * 2)%N else w0 in
            let id := substring 0 1 l in
            let r := RIsa cls id false in
            (* destination-only operands are C locals initialised to 0 by QEMU's generated helpers *)
            let dest_only := existsb (String.eqb id) ["d"; "e"] in
            Some (LReg r (true, w) (if dest_only then Some 0 else Some (ce_rold E r)))
        | None => None
        end
    | ONewReg cls l =>
        match class_width cls with
        | Some w0 =>
            let w := if is_pair_letters l then (w0 * 2)%N else w0 in
            let id := substring 0 1 l in
            let r := if String.eqb cls "N" then RNreg id else RIsa cls id true in
            Some (LReg r (true, w) (Some (ce_rnew0 E r)))
        | None => None
        end
    | OExplicit name new =>
        match explicit_info name new with
        | Some (r, w) => Some (LReg r (true, w) (Some (if new then ce_rnew0 E r else ce_rold E r)))
        | None => None
        end
    | OAlias name new =>
        let r := RAlias ("HEX_REG_ALIAS_" ++ name)%string new in
        Some (LReg r (false, alias_width name)
                   (Some (if new then ce_rnew0 E r else if String.eqb name "PC" then ce_pktaddr E else ce_rold E r)))
    | OImm l => Some (LImm l (existsb (String.eqb l) ["r"; "R"; "s"; "S"], 32%N))
    | OIdent x =>
        match lookup x (cs_vars s) with
        | Some (t, _) => Some (LVar x t)
        | None =>
            (* dialect convention: EA and the iterators i j k are implicitly declared 32-bit unsigned locals *)
            if existsb (String.eqb x) ["EA"; "i"; "j"; "k"] then Some (LVar x (false, 32%N)) else None
        end
    | _ => None
    end.

  Definition read_lval (s : cstate) (l : lval) : option cval :=
    match l with
    | LVar x _ => match lookup x (cs_vars s) with Some (t, Some v) => Some (t, v) | _ => None end
    | LImm l t => match lookup ("imm:" ++ l)%string (cs_vars s) with
                  | Some (_, Some v) => Some (t, v)
                  | _ => Some (mkval t (ce_imms E l)) end
    | LReg r t fb =>
        match lookup_reg r (cs_regw s) with
        | Some v => Some (mkval t v)
        | None => option_map (mkval t) fb
        end
    end.
  Definition lval_ty (l : lval) : cty := match l with LVar _ t | LReg _ t _ | LImm _ t => t end.
  Definition write_lval (s : cstate) (l : lval) (v : cval) : cstate :=
    match l with
    | LVar x t => set_var s x (conv t v)
    | LReg r t _ => set_regw s r (snd (conv t v))
    | LImm l t => set_var s ("imm:" ++ l)%string (conv t v)
    end.

  Definition imm_signed_c (l : string) : bool := existsb (String.eqb l) ["r"; "R"; "s"; "S"].

  (* ------------------------------------------------------------------ operators *)
  Definition c_arith (f : Z -> Z -> Z) (a b : cval) : cval :=
    let t := arith_ty (fst a) (fst b) in mkval t (f (vint (conv t a)) (vint (conv t b))).
  Definition c_bitop (f : Z -> Z -> Z) (a b : cval) : cval :=
    let t := arith_ty (fst a) (fst b) in mkval t (f (snd (conv t a)) (snd (conv t b))).
  Definition c_cmp (f : Z -> Z -> bool) (a b : cval) : cval :=
    let t := arith_ty (fst a) (fst b) in mkval int_t (if f (vint (conv t a)) (vint (conv t b)) then 1 else 0).
  Definition c_shift (left : bool) (a b : cval) : option cval :=
    let t := promote (fst a) in
    let n := vint (conv (promote (fst b)) b) in
    if (0 <=? n) && (n <? Z.of_N (snd t)) then
      let x := vint (conv t a) in
      Some (mkval t (if left then x * 2 ^ n else x / 2 ^ n))     (* >> on signed: floor division = arithmetic shift *)
    else None.
  Definition c_divmod (is_div : bool) (a b : cval) : option cval :=
    let t := arith_ty (fst a) (fst b) in
    let x := vint (conv t a) in let y := vint (conv t b) in
    if y =? 0 then None
    else if fst t && (x =? - pow2 (snd t - 1)) && (y =? -1) then None
    else Some (mkval t (if is_div then Z.quot x y else Z.rem x y)).

  Definition c_binop (b : Ast.binop) (x y : cval) : option cval :=
    match b with
    | Ast.BAdd => Some (c_arith Z.add x y) | Ast.BSub => Some (c_arith Z.sub x y) | Ast.BMul => Some (c_arith Z.mul x y)
    | Ast.BDiv => c_divmod true x y | Ast.BMod => c_divmod false x y
    | BAnd => Some (c_bitop Z.land x y) | BOr => Some (c_bitop Z.lor x y) | BXor => Some (c_bitop Z.lxor x y)
    | BShl => c_shift true x y | BShr => c_shift false x y
    | BLt => Some (c_cmp Z.ltb x y) | BGt => Some (c_cmp Z.gtb x y) | BLe => Some (c_cmp Z.leb x y) | BGe => Some (c_cmp Z.geb x y)
    | BEq => Some (c_cmp Z.eqb x y) | BNe => Some (c_cmp (fun a b => negb (Z.eqb a b)) x y)
    | BLAnd | BLOr => None   (* short-circuit: handled by the evaluator *)
    end.

  Definition c_unop (u : Ast.unop) (x : cval) : option cval :=
    match u with
    | UNot => let t := promote (fst x) in Some (mkval t (- vint (conv t x) - 1))
    | UMinus => let t := promote (fst x) in Some (mkval t (- vint (conv t x)))
    | UPlus => let t := promote (fst x) in Some (conv t x)
    | ULNot => Some (mkval int_t (if snd x =? 0 then 1 else 0))
    | _ => None
    end.

  Definition asg_binop_c (a : asgop) : option Ast.binop :=
    match a with AAssign => None | AAdd => Some Ast.BAdd | ASub => Some Ast.BSub | AMul => Some Ast.BMul | ADiv => Some Ast.BDiv
               | AMod => Some Ast.BMod | AShl => Some BShl | AShr => Some BShr | AAnd => Some BAnd | AXor => Some BXor | AOr => Some BOr end.

  (* QEMU macros (bitops.h / bswap.h) *)
  Definition c_macro (m : string) (args : list cval) : option cval :=
    let i32 (c : cval) := vint (conv int_t c) in
    match m, args with
    | "extract32", [x; s; l] => if (0 <=? i32 s) && (0 <? i32 l) && (i32 s + i32 l <=? 32)
                                then Some (mkval (false, 32%N) (extract 32 (snd (conv (false, 32%N) x)) (i32 s) (i32 l))) else None
    | "extract64", [x; s; l] => if (0 <=? i32 s) && (0 <? i32 l) && (i32 s + i32 l <=? 64)
                                then Some (mkval (false, 64%N) (extract 64 (snd (conv (false, 64%N) x)) (i32 s) (i32 l))) else None
    | "sextract64", [x; s; l] =>
        if (0 <=? i32 s) && (0 <? i32 l) && (i32 s + i32 l <=? 64) then
          let e := extract 64 (snd (conv (false, 64%N) x)) (i32 s) (i32 l) in
          Some (mkval (true, 64%N) (if 2 ^ (i32 l - 1) <=? e then e - 2 ^ (i32 l) else e))
        else None
    | "deposit32", [x; s; l; f] =>
        if (0 <=? i32 s) && (0 <? i32 l) && (i32 s + i32 l <=? 32) then
          let m := (2 ^ (i32 l) - 1) * 2 ^ (i32 s) in
          Some (mkval (false, 32%N) (Z.lor (Z.land (snd (conv (false, 32%N) x)) (Z.lnot m)) (Z.land (snd (conv (false, 32%N) f) * 2 ^ (i32 s)) m)))
        else None
    | "deposit64", [x; s; l; f] =>
        if (0 <=? i32 s) && (0 <? i32 l) && (i32 s + i32 l <=? 64) then
          let m := (2 ^ (i32 l) - 1) * 2 ^ (i32 s) in
          Some (mkval (false, 64%N) (Z.lor (Z.land (snd (conv (false, 64%N) x)) (Z.lnot m)) (Z.land (snd (conv (false, 64%N) f) * 2 ^ (i32 s)) m)))
        else None
    | "bswap16", [x] => let v := snd (conv (false, 16%N) x) in Some (mkval (false, 16%N) ((v mod 256) * 256 + v / 256))
    | "bswap32", [x] => let v := snd (conv (false, 32%N) x) in
        Some (mkval (false, 32%N) ((v mod 256) * 16777216 + ((v / 256) mod 256) * 65536 + ((v / 65536) mod 256) * 256 + v / 16777216))
    | "bswap64", [x] => let v := snd (conv (false, 64%N) x) in
        Some (mkval (false, 64%N) ((v mod 256) * 72057594037927936 + ((v / 256) mod 256) * 281474976710656
                    + ((v / 65536) mod 256) * 1099511627776 + ((v / 16777216) mod 256) * 4294967296
                    + ((v / 4294967296) mod 256) * 16777216 + ((v / 1099511627776) mod 256) * 65536
                    + ((v / 281474976710656) mod 256) * 256 + v / 72057594037927936))
    | _, _ => None
    end.

  Definition c_read_bytes (s : cstate) (a : Z) (n : nat) : Z :=
    (fix go (a : Z) (n : nat) : Z :=
       match n with O => 0 | S k =>
         (match lookup_mem (wrap 32 a) (cs_mem s) with Some v => v | None => wrap 8 (ce_mem0 E (wrap 32 a)) end) + 256 * go (a + 1) k end) a n.
  Definition c_store (s : cstate) (a v : Z) (n : nat) : cstate :=
    mkcs (cs_vars s) (cs_regw s) (write_bytes (cs_mem s) a v n) (cs_jump s) (cs_ret s) (cs_events s).

  Definition resolve_ty_c (t : tyspec) : option cty :=
    match t with
    | [TS_int] => Some (true, 32%N) | [TS_unsigned] => Some (false, 32%N) | [TS_unsigned; TS_int] => Some (false, 32%N)
    | [TS_intN sg w] => Some (sg, w) | [TS_sizeN b sg] => Some (sg, (b * 8)%N)
    | [TS_const; TS_intN sg w] => Some (sg, w) | [TS_const; TS_int] => Some (true, 32%N)
    | _ => None
    end.

  (* ------------------------------------------------------------------ evaluation (fuelled) *)
  Fixpoint ceval (fuel : nat) (s : cstate) (e : cexpr) {struct fuel} : option (cstate * cval) :=
    match fuel with O => None | S k =>
    match e with

    | EOp (ONum v hex suf) => match literal_type v hex suf with Some t => Some (s, mkval t v) | None => None end
    | EOp o => match operand_lval s o with
               | Some l => match read_lval s l with Some v => Some (s, v) | None => None end
               | None => None end
    | ECast t a =>
        match resolve_ty_c t, ceval k s a with
        | Some ty, Some (s1, v) => Some (s1, conv ty v)
        | _, _ => None end
    | EUn u a => match ceval k s a with Some (s1, v) => option_map (fun r => (s1, r)) (c_unop u v) | None => None end
    | EBin BLAnd a b =>
        match ceval k s a with
        | Some (s1, va) =>
            if snd va =? 0 then Some (s1, mkval int_t 0)
            else match ceval k s1 b with Some (s2, vb) => Some (s2, mkval int_t (if snd vb =? 0 then 0 else 1)) | None => None end
        | None => None end
    | EBin BLOr a b =>
        match ceval k s a with
        | Some (s1, va) =>
            if negb (snd va =? 0) then Some (s1, mkval int_t 1)
            else match ceval k s1 b with Some (s2, vb) => Some (s2, mkval int_t (if snd vb =? 0 then 0 else 1)) | None => None end
        | None => None end
    | EBin b x y =>
        match ceval k s x with
        | Some (s1, vx) => match ceval k s1 y with
                           | Some (s2, vy) => option_map (fun r => (s2, r)) (c_binop b vx vy)
                           | None => None end
        | None => None end
    | ECond c t f =>
        match ceval k s c with
        | Some (s1, vc) =>
            (* the result type is the common type of both arms; only the selected arm is evaluated.
               The type of the other arm is obtained by evaluating it on a scratch copy (types do not depend on values) *)
            match ceval k s1 t, ceval k s1 f with
            | Some (st, vt), Some (sf, vf) =>
                let ty := arith_ty (fst vt) (fst vf) in
                if negb (snd vc =? 0) then Some (st, conv ty vt) else Some (sf, conv ty vf)
            (* the result type needs the type of the unselected arm too; when that arm has no defined
               value here (UB, fuel) no result is prescribed: an under-approximation of C's definedness,
               which only weakens what the theorems demand (found by the expr_correct proof) *)
            | _, _ => None
            end
        | None => None end
    | EAssign a l r =>
        match l with
        | EOp o =>
            match ceval k s r with
            | Some (s1, vr) =>
                match operand_lval s1 o with
                | Some lv =>
                    match asg_binop_c a with
                    | None => let s2 := write_lval s1 lv vr in Some (s2, conv (lval_ty lv) vr)
                    | Some b =>
                        match read_lval s1 lv with
                        | Some old => match c_binop b old vr with
                                      | Some res => Some (write_lval s1 lv res, conv (lval_ty lv) res)
                                      | None => None end
                        | None => None end
                    end
                | None => None end
            | None => None end
        | _ => None end
    | EPost inc (EOp o) =>
        match operand_lval s o with
        | Some lv => match read_lval s lv with
                     | Some old => Some (write_lval s lv (c_arith (if inc then Z.add else Z.sub) old (mkval int_t 1)), old)
                     | None => None end
        | None => None end
    | ECall f args =>
        match subs f with
        | Some sr =>
            match (fix evs (s : cstate) (l : cexprs) (ps : list (string * option cty)) : option (cstate * list (string * cval)) :=
                     match l, ps with
                     | ENil, [] => Some (s, [])
                     | ECons a t, (pn, Some pt) :: ps' =>
                         match ceval k s a with
                         | Some (s1, v) => match evs s1 t ps' with Some (s2, r) => Some (s2, (pn, conv pt v) :: r) | None => None end
                         | None => None end
                     | ECons _ t, (_, None) :: ps' => evs s t ps'       (* operands passed by reference *)
                     | _, _ => None
                     end) s args (csub_params sr) with
            | Some (s1, binds) =>
                (* the callee runs with its own locals; registers, memory, jump state are shared *)
                match cexecs k (mkcs (map (fun b => (fst b, (fst (snd b), Some (snd (snd b))))) binds) (cs_regw s1) (cs_mem s1) (cs_jump s1) None (cs_events s1)) (csub_body sr) with
                | Some s2 =>
                    let s3 := mkcs (cs_vars s1) (cs_regw s2) (cs_mem s2) (cs_jump s2) (cs_ret s1) (cs_events s2) in
                    match csub_ret sr, cs_ret s2 with
                    | Some rt, Some v => Some (s3, conv rt v)
                    | None, _ => Some (s3, mkval int_t 0)          (* void: value never used *)
                    | Some _, None => None
                    end
                | None => None end
            | None => None end
        | None => None end
    | EMacro m args =>
        match (fix evs (s : cstate) (l : cexprs) : option (cstate * list cval) :=
                 match l with
                 | ENil => Some (s, [])
                 | ECons a t => match ceval k s a with
                                | Some (s1, v) => match evs s1 t with Some (s2, r) => Some (s2, v :: r) | None => None end
                                | None => None end
                 end) s args with
        | Some (s1, vs) => option_map (fun r => (s1, r)) (c_macro m vs)
        | None => None end
    | ELoad sg w (ECons a ENil) =>
        match ceval k s a with
        | Some (s1, va) => Some (s1, mkval (sg, w) (c_read_bytes s1 (snd (conv (false, 32%N) va)) (N.to_nat (w / 8))))
        | None => None end
    | EStmtExpr items (SExpr last) =>
        match cexecs k s items with
        | Some s1 => ceval k s1 last
        | None => None end
    | _ => None
    end end
  with cexec (fuel : nat) (s : cstate) (st : cstmt) {struct fuel} : option cstate :=
    match fuel with O => None | S k =>
    match cs_ret s with Some _ => Some s | None =>     (* after `return` nothing else of the routine runs *)
    match st with
    | SExpr e => option_map fst (ceval k s e)
    | SEmpty => Some s
    | SDecl t x None =>
        match resolve_ty_c t with
        | Some ty => Some (mkcs ((x, (ty, None)) :: cs_vars s) (cs_regw s) (cs_mem s) (cs_jump s) (cs_ret s) (cs_events s))
        | None => None end
    | SDecl t x (Some e) =>
        match resolve_ty_c t, ceval k s e with
        | Some ty, Some (s1, v) => Some (set_var s1 x (conv ty v))
        | _, _ => None end
    | SIf c t f =>
        match ceval k s c with
        | Some (s1, vc) => if negb (snd vc =? 0) then cexec k s1 t else match f with Some fs => cexec k s1 fs | None => Some s1 end
        | None => None end
    | SFor i c (Some step) b =>
        match cexec k s i with
        | Some s1 =>
            (fix loop (n : nat) (s : cstate) : option cstate :=
               match n with O => None | S n' =>
                 match cs_ret s with Some _ => Some s | None =>
                 match c with
                 | SExpr ce =>
                     match ceval k s ce with
                     | Some (s1, vc) =>
                         if snd vc =? 0 then Some s1
                         else match cexec k s1 b with
                              | Some s2 => match cs_ret s2 with
                                           | Some _ => Some s2
                                           | None => match ceval k s2 step with Some (s3, _) => loop n' s3 | None => None end
                                           end
                              | None => None end
                     | None => None end
                 | _ => None
                 end end end) k s1
        | None => None end
    | SBlock l => cexecs k s l
    | SStore sg w (ECons a (ECons v ENil)) =>
        match ceval k s a with
        | Some (s1, va) => match ceval k s1 v with
                           | Some (s2, vv) => Some (c_store s2 (snd (conv (false, 32%N) va)) (snd (conv (sg, w) vv)) (N.to_nat (w / 8)))
                           | None => None end
        | None => None end
    | SJump e =>
        match ceval k s e with
        | Some (s1, v) => Some (mkcs (cs_vars s1) (cs_regw s1) (cs_mem s1) (Some (snd (conv (false, 32%N) v))) (cs_ret s1) (cs_events s1))
        | None => None end
    | SNop => Some s
    | SReturn (Some e) =>
        match ceval k s e with
        | Some (s1, v) => Some (mkcs (cs_vars s1) (cs_regw s1) (cs_mem s1) (cs_jump s1) (Some v) (cs_events s1))
        | None => None end
    | _ => None
    end end end
  with cexecs (fuel : nat) (s : cstate) (l : cstmts) {struct fuel} : option cstate :=
    match fuel with O => None | S k =>
    match l with
    | SNil => Some s
    | SCons st t => match cexec k s st with Some s1 => cexecs k s1 t | None => None end
    end end.
End WithEnv.
