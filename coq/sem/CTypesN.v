(* The C11 type rules the properties refer to, over (signedness, width) with width any N:
   6.3.1.1 integer promotion and 6.3.1.8 usual arithmetic conversions, rank = bit width
   (the convention fixed by the property text).  Written from the standard, not from the code. *)
From Coq Require Import NArith Bool.
From RZ.lib Require Import PyHeap.
Local Open Scope N_scope.

(* 6.3.1.8: same signedness -> the wider; otherwise if the unsigned one is at least as wide ->
   the unsigned type; otherwise (signed strictly wider, so it can represent every value of the
   unsigned one) -> the signed type. *)
Definition uac (a b : vt) : vt :=
  if Bool.eqb (vsigned a) (vsigned b) then {| vsigned := vsigned a; vbw := N.max (vbw a) (vbw b) |}
  else let u := if vsigned a then b else a in
       let s := if vsigned a then a else b in
       if vbw s <=? vbw u then {| vsigned := false; vbw := vbw u |} else {| vsigned := true; vbw := vbw s |}.

(* 6.3.1.1: everything narrower than int becomes (signed) int *)
Definition promote (a : vt) : vt := if vbw a <? 32 then {| vsigned := true; vbw := 32 |} else a.
