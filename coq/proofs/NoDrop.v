(* C15 support: nothing is silently dropped.
   For EVERY program and EVERY configuration whose switch fx_reject_dropped is on (all other
   fields of the configuration, including the other repair switches, are universally quantified):
   (T1) no_raw_items        : the item list returned by the traversal contains no ITree, and an
                              ITok only where a string literal is used as an expression statement;
   (T2) unsupported_rejected: a program mentioning an unsupported construct at ANY depth is
                              rejected with an error. *)
From Coq Require Import ZArith NArith List Bool String.
From RZ.sem Require Import RzIL.
From RZ.model Require Import Ast Types OpTables Lower Guards.
From RZ.gen Require Import Resources.
Import ListNotations.
Local Open Scope string_scope.

(* ================================================================== monad inversion *)
Lemma bind_ok_inv {A B} (m : M A) (f : A -> M B) s x s' :
  bind m f s = OK (x, s') -> exists y s1, m s = OK (y, s1) /\ f y s1 = OK (x, s').
Proof.
  unfold bind. intros Hb. destruct (m s) as [[y s1]|e] eqn:Hm.
  - exists y, s1. split; [reflexivity | exact Hb].
  - discriminate Hb.
Qed.

Lemma bind_err {A B} (m : M A) (f : A -> M B) s e : m s = Err e -> bind m f s = Err e.
Proof. unfold bind. intros Hm. rewrite Hm. reflexivity. Qed.

(* a computation that fails from every state *)
Definition fails {A} (m : M A) : Prop := forall s, exists msg, m s = Err msg.

Lemma fails_fail {A} msg : fails (@fail A msg).
Proof. intros s. exists msg. reflexivity. Qed.

Lemma fails_bind_l {A B} (m : M A) (f : A -> M B) : fails m -> fails (bind m f).
Proof. intros Hm s. destruct (Hm s) as [msg Hs]. exists msg. apply bind_err. exact Hs. Qed.

Lemma fails_bind_r {A B} (m : M A) (f : A -> M B) : (forall a, fails (f a)) -> fails (bind m f).
Proof.
  intros Hf s. unfold bind. destruct (m s) as [[a s1]|e].
  - apply Hf.
  - exists e. reflexivity.
Qed.

(* every successful run returns a value satisfying Q *)
Definition yields {A} (Q : A -> Prop) (m : M A) : Prop := forall s a s', m s = OK (a, s') -> Q a.

Lemma yields_ret {A} (Q : A -> Prop) a : Q a -> yields Q (ret a).
Proof. intros Hq s a' s' Hr. unfold ret in Hr. inversion Hr; subst. exact Hq. Qed.

Lemma yields_fail {A} (Q : A -> Prop) msg : yields Q (@fail A msg).
Proof. intros s a s' Hr. discriminate Hr. Qed.

Lemma yields_bind2 {A B} (P : A -> Prop) (Q : B -> Prop) (m : M A) (f : A -> M B) :
  yields P m -> (forall x, P x -> yields Q (f x)) -> yields Q (bind m f).
Proof.
  intros Hm Hf s b s' Hb. apply bind_ok_inv in Hb. destruct Hb as (y & s1 & Hy & Hfy).
  exact (Hf y (Hm _ _ _ Hy) _ _ _ Hfy).
Qed.

Lemma yields_bind {A B} (Q : B -> Prop) (m : M A) (f : A -> M B) :
  (forall x, yields Q (f x)) -> yields Q (bind m f).
Proof.
  intros Hf. apply (yields_bind2 (fun _ => True)).
  - intros s a s' _. exact I.
  - intros x _. apply Hf.
Qed.

Lemma yields_weaken {A} (P Q : A -> Prop) (m : M A) : (forall a, P a -> Q a) -> yields P m -> yields Q m.
Proof. intros Hpq Hm s a s' Hr. apply Hpq. exact (Hm _ _ _ Hr). Qed.

(* ================================================================== induction principle *)
(* The generated scheme Ast.ast_mutind gives no hypothesis for the sub-terms that sit under an
   `option` (else branch, for-step, initialiser, return value); this one does. *)
Definition opt_all {A} (P : A -> Prop) (o : option A) : Prop := match o with Some a => P a | None => True end.

Section AstInd.
  Variable Pe : cexpr -> Prop.
  Variable Pes : cexprs -> Prop.
  Variable Ps : cstmt -> Prop.
  Variable Pss : cstmts -> Prop.
  Hypothesis HOp : forall o, Pe (EOp o).
  Hypothesis HCast : forall t e, Pe e -> Pe (ECast t e).
  Hypothesis HUn : forall u e, Pe e -> Pe (EUn u e).
  Hypothesis HBin : forall b l r, Pe l -> Pe r -> Pe (EBin b l r).
  Hypothesis HCond : forall c t e, Pe c -> Pe t -> Pe e -> Pe (ECond c t e).
  Hypothesis HAssign : forall a l r, Pe l -> Pe r -> Pe (EAssign a l r).
  Hypothesis HPost : forall i e, Pe e -> Pe (EPost i e).
  Hypothesis HCall : forall f args, Pes args -> Pe (ECall f args).
  Hypothesis HMacro : forall m args, Pes args -> Pe (EMacro m args).
  Hypothesis HLoad : forall sg w args, Pes args -> Pe (ELoad sg w args).
  Hypothesis HStmtExpr : forall items last, Pss items -> Ps last -> Pe (EStmtExpr items last).
  Hypothesis HComma : forall l r, Pe l -> Pe r -> Pe (EComma l r).
  Hypothesis HIndex : forall a i, Pe a -> Pe i -> Pe (EIndex a i).
  Hypothesis HMember : forall a f, Pe a -> Pe (EMember a f).
  Hypothesis HPtrMember : forall a f, Pe a -> Pe (EPtrMember a f).
  Hypothesis HCallEmpty : forall a, Pe a -> Pe (ECallEmpty a).
  Hypothesis HSizeofT : forall t, Pe (ESizeofT t).
  Hypothesis HOther : forall w, Pe (EOther w).
  Hypothesis HENil : Pes ENil.
  Hypothesis HECons : forall e t, Pe e -> Pes t -> Pes (ECons e t).
  Hypothesis HSExpr : forall e, Pe e -> Ps (SExpr e).
  Hypothesis HSEmpty : Ps SEmpty.
  Hypothesis HSDecl : forall t x init, opt_all Pe init -> Ps (SDecl t x init).
  Hypothesis HSDeclOther : forall w, Ps (SDeclOther w).
  Hypothesis HSIf : forall c t e, Pe c -> Ps t -> opt_all Ps e -> Ps (SIf c t e).
  Hypothesis HSFor : forall i c s b, Ps i -> Ps c -> opt_all Pe s -> Ps b -> Ps (SFor i c s b).
  Hypothesis HSBlock : forall l, Pss l -> Ps (SBlock l).
  Hypothesis HSStore : forall sg w args, Pes args -> Ps (SStore sg w args).
  Hypothesis HSJump : forall e, Pe e -> Ps (SJump e).
  Hypothesis HSNop : Ps SNop.
  Hypothesis HSCancel : Ps SCancel.
  Hypothesis HSReturn : forall e, opt_all Pe e -> Ps (SReturn e).
  Hypothesis HSWhile : forall c b, Pe c -> Ps b -> Ps (SWhile c b).
  Hypothesis HSDo : forall b c, Ps b -> Pe c -> Ps (SDo b c).
  Hypothesis HSSwitch : forall c b, Pe c -> Ps b -> Ps (SSwitch c b).
  Hypothesis HSLabel : forall l s, Ps s -> Ps (SLabel l s).
  Hypothesis HSCase : forall s, Ps s -> Ps (SCase s).
  Hypothesis HSGoto : forall l, Ps (SGoto l).
  Hypothesis HSBreak : Ps SBreak.
  Hypothesis HSContinue : Ps SContinue.
  Hypothesis HSNil : Pss SNil.
  Hypothesis HSCons : forall s t, Ps s -> Pss t -> Pss (SCons s t).

  Fixpoint ind_e (e : cexpr) : Pe e :=
    match e with
    | EOp o => HOp o
    | ECast t a => HCast t a (ind_e a)
    | EUn u a => HUn u a (ind_e a)
    | EBin b l r => HBin b l r (ind_e l) (ind_e r)
    | ECond c t f => HCond c t f (ind_e c) (ind_e t) (ind_e f)
    | EAssign a l r => HAssign a l r (ind_e l) (ind_e r)
    | EPost i a => HPost i a (ind_e a)
    | ECall f args => HCall f args (ind_es args)
    | EMacro m args => HMacro m args (ind_es args)
    | ELoad sg w args => HLoad sg w args (ind_es args)
    | EStmtExpr items last => HStmtExpr items last (ind_ss items) (ind_s last)
    | EComma l r => HComma l r (ind_e l) (ind_e r)
    | EIndex a i => HIndex a i (ind_e a) (ind_e i)
    | EMember a f => HMember a f (ind_e a)
    | EPtrMember a f => HPtrMember a f (ind_e a)
    | ECallEmpty a => HCallEmpty a (ind_e a)
    | ESizeofT t => HSizeofT t
    | EOther w => HOther w
    end
  with ind_es (l : cexprs) : Pes l :=
    match l with
    | ENil => HENil
    | ECons e t => HECons e t (ind_e e) (ind_es t)
    end
  with ind_s (s : cstmt) : Ps s :=
    match s with
    | SExpr e => HSExpr e (ind_e e)
    | SEmpty => HSEmpty
    | SDecl t x init =>
        HSDecl t x init (match init return opt_all Pe init with Some e => ind_e e | None => I end)
    | SDeclOther w => HSDeclOther w
    | SIf c t e =>
        HSIf c t e (ind_e c) (ind_s t) (match e return opt_all Ps e with Some x => ind_s x | None => I end)
    | SFor i c st b =>
        HSFor i c st b (ind_s i) (ind_s c)
              (match st return opt_all Pe st with Some x => ind_e x | None => I end) (ind_s b)
    | SBlock l => HSBlock l (ind_ss l)
    | SStore sg w args => HSStore sg w args (ind_es args)
    | SJump e => HSJump e (ind_e e)
    | SNop => HSNop
    | SCancel => HSCancel
    | SReturn e => HSReturn e (match e return opt_all Pe e with Some x => ind_e x | None => I end)
    | SWhile c b => HSWhile c b (ind_e c) (ind_s b)
    | SDo b c => HSDo b c (ind_s b) (ind_e c)
    | SSwitch c b => HSSwitch c b (ind_e c) (ind_s b)
    | SLabel l s0 => HSLabel l s0 (ind_s s0)
    | SCase s0 => HSCase s0 (ind_s s0)
    | SGoto l => HSGoto l
    | SBreak => HSBreak
    | SContinue => HSContinue
    end
  with ind_ss (l : cstmts) : Pss l :=
    match l with
    | SNil => HSNil
    | SCons s t => HSCons s t (ind_s s) (ind_ss t)
    end.

  Lemma ast_full_ind : (forall e, Pe e) /\ (forall l, Pes l) /\ (forall s, Ps s) /\ (forall l, Pss l).
  Proof. exact (conj ind_e (conj ind_es (conj ind_s ind_ss))). Qed.
End AstInd.

Ltac refold cfg := fold (lower_expr cfg) (lower_exprs cfg) (lower_stmt cfg) (lower_stmts cfg).
Ltac unf cfg := cbn [lower_expr lower_exprs lower_stmt lower_stmts]; refold cfg.

(* ================================================================== T2: unsupported constructs *)
(* node-level: forms on which the traversal fails whatever their sub-terms are *)
Definition unsupported_operand (o : operand) : bool := match o with OFloat _ => true | _ => false end.
Definition unsupported_unop (u : unop) : bool :=
  match u with UDeref | UAddr | UPreInc | UPreDec | USizeofE => true | _ => false end.

(* true iff an unsupported construct occurs ANYWHERE in the tree: every sub-expression and
   sub-statement position of every constructor is descended into *)
Fixpoint mu_expr (e : cexpr) : bool :=
  match e with
  | EOp o => unsupported_operand o
  | ECast _ a => mu_expr a
  | EUn u a => unsupported_unop u || mu_expr a
  | EBin _ l r => mu_expr l || mu_expr r
  | ECond c t f => mu_expr c || mu_expr t || mu_expr f
  | EAssign _ l r => mu_expr l || mu_expr r
  | EPost _ a => mu_expr a
  | ECall _ args => mu_exprs args
  | EMacro _ args => mu_exprs args
  | ELoad _ _ args => mu_exprs args
  | EStmtExpr items last => mu_stmts items || mu_stmt last
  | EComma _ _ => true
  | EIndex _ _ | EMember _ _ | EPtrMember _ _ | ECallEmpty _ | ESizeofT _ | EOther _ => true
  end
with mu_exprs (l : cexprs) : bool :=
  match l with
  | ENil => false
  | ECons e t => mu_expr e || mu_exprs t
  end
with mu_stmt (s : cstmt) : bool :=
  match s with
  | SExpr e => mu_expr e
  | SEmpty | SNop | SCancel => false
  | SDecl _ _ None => false
  | SDecl _ _ (Some init) => mu_expr init
  | SDeclOther _ => true
  | SIf c t None => mu_expr c || mu_stmt t
  | SIf c t (Some e) => mu_expr c || mu_stmt t || mu_stmt e
  | SFor _ _ None _ => true
  | SFor i c (Some st) b => mu_stmt i || mu_stmt c || mu_expr st || mu_stmt b
  | SBlock l => mu_stmts l
  | SStore _ _ args => mu_exprs args
  | SJump e => mu_expr e
  | SReturn None => true
  | SReturn (Some e) => mu_expr e
  | SWhile _ _ | SDo _ _ | SSwitch _ _ => true
  | SLabel _ _ | SCase _ => true
  | SGoto _ | SBreak | SContinue => true
  end
with mu_stmts (l : cstmts) : bool :=
  match l with
  | SNil => false
  | SCons s t => mu_stmt s || mu_stmts t
  end.

Definition mentions_unsupported (prog : cstmts) : bool := mu_stmts prog.

Ltac refold_mu := fold mu_expr mu_exprs mu_stmt mu_stmts in *.
Ltac split_or H :=
  repeat match type of H with (_ || _) = true => apply orb_true_iff in H; destruct H as [H|H] end.

Section T2.
  Variable cfg : config.
  Hypothesis Hfx : fx_reject_dropped (cfg_fx cfg) = true.

  Lemma lower_operand_unsupported o : unsupported_operand o = true -> fails (lower_operand cfg o).
  Proof.
    intros Hu. destruct o; cbn [unsupported_operand] in Hu; try discriminate Hu.
    cbn [lower_operand]. apply fails_fail.
  Qed.

  Lemma lower_unop_unsupported u i : unsupported_unop u = true -> fails (lower_unop cfg u i).
  Proof.
    intros Hu. destruct u; cbn [unsupported_unop] in Hu; try discriminate Hu;
      cbn [lower_unop]; apply fails_fail.
  Qed.

  (* walk down a `do` chain: fail at the first sub-computation known to fail *)
  Ltac fsearch :=
    cbv beta iota;
    match goal with
    | |- fails (fail _) => apply fails_fail
    | |- fails (bind _ _) =>
        first [ apply fails_bind_l; solve [ fsearch ]
              | apply fails_bind_r; intro; fsearch ]
    | |- fails (match ?x with _ => _ end) => destruct x; fsearch
    | |- _ => solve [ auto ]
    end.

  Ltac t2case :=
    intros; unf cfg; unfold fx; rewrite ?Hfx;
    cbn [mu_expr mu_exprs mu_stmt mu_stmts opt_all] in *; refold_mu;
    try match goal with H : false = true |- _ => discriminate H end.

  Lemma unsupported_fails_all :
    (forall e, mu_expr e = true -> fails (lower_expr cfg e)) /\
    (forall l, mu_exprs l = true -> fails (lower_exprs cfg l)) /\
    (forall s, mu_stmt s = true -> fails (lower_stmt cfg s)) /\
    (forall l, mu_stmts l = true -> fails (lower_stmts cfg l)).
  Proof.
    apply ast_full_ind.
    - (* EOp *) intros o Hm. t2case. apply lower_operand_unsupported. exact Hm.
    - (* ECast *) intros t e IHe Hm. t2case. fsearch.
    - (* EUn *) intros u e IHe Hm. t2case. split_or Hm.
      + apply fails_bind_r. intro ia. apply lower_unop_unsupported. exact Hm.
      + fsearch.
    - (* EBin *) intros b l r IHl IHr Hm. t2case. split_or Hm; fsearch.
    - (* ECond *) intros c t e IHc IHt IHe Hm. t2case. split_or Hm; fsearch.
    - (* EAssign *) intros a l r IHl IHr Hm. t2case. split_or Hm; fsearch.
    - (* EPost *) intros i e IHe Hm. t2case. fsearch.
    - (* ECall *) intros f args IHa Hm. t2case. fsearch.
    - (* EMacro *) intros m args IHa Hm. t2case. fsearch.
    - (* ELoad *) intros sg w args IHa Hm. t2case. fsearch.
    - (* EStmtExpr *) intros items last IHi IHl Hm. t2case. split_or Hm; fsearch.
    - (* EComma *) intros l r IHl IHr Hm. t2case. fsearch.
    - (* EIndex *) intros a i IHa IHi Hm. t2case. fsearch.
    - (* EMember *) intros a f IHa Hm. t2case. fsearch.
    - (* EPtrMember *) intros a f IHa Hm. t2case. fsearch.
    - (* ECallEmpty *) intros a IHa Hm. t2case. fsearch.
    - (* ESizeofT *) intros t Hm. t2case. fsearch.
    - (* EOther *) intros w Hm. t2case. fsearch.
    - (* ENil *) intros Hm. t2case.
    - (* ECons *) intros e t IHe IHt Hm. t2case. split_or Hm; fsearch.
    - (* SExpr *) intros e IHe Hm. t2case. fsearch.
    - (* SEmpty *) intros Hm. t2case.
    - (* SDecl *) intros t x init IHi Hm. destruct init as [e|]; t2case. fsearch.
    - (* SDeclOther *) intros w Hm. t2case. fsearch.
    - (* SIf *) intros c t e IHc IHt IHe Hm. destruct e as [e|]; t2case; split_or Hm; fsearch.
    - (* SFor *) intros i c s b IHi IHc IHs IHb Hm. destruct s as [st|]; t2case.
      + split_or Hm; fsearch.
      + fsearch.
    - (* SBlock *) intros l IHl Hm. destruct l as [|s0 t0].
      + t2case.
      + specialize (IHl Hm). cbn [lower_stmt]. refold cfg. exact IHl.
    - (* SStore *) intros sg w args IHa Hm. t2case. fsearch.
    - (* SJump *) intros e IHe Hm. t2case. fsearch.
    - (* SNop *) intros Hm. t2case.
    - (* SCancel *) intros Hm. t2case.
    - (* SReturn *) intros e IHe Hm. destruct e as [e|]; t2case; fsearch.
    - (* SWhile *) intros c b IHc IHb Hm. t2case. fsearch.
    - (* SDo *) intros b c IHb IHc Hm. t2case. fsearch.
    - (* SSwitch *) intros c b IHc IHb Hm. t2case. fsearch.
    - (* SLabel *) intros l s IHs Hm. t2case. fsearch.
    - (* SCase *) intros s IHs Hm. t2case. fsearch.
    - (* SGoto *) intros l Hm. t2case. fsearch.
    - (* SBreak *) intros Hm. t2case. fsearch.
    - (* SContinue *) intros Hm. t2case. fsearch.
    - (* SNil *) intros Hm. t2case.
    - (* SCons *) intros s t IHs IHt Hm. t2case. split_or Hm; fsearch.
  Qed.
End T2.

(* T2, from every state: failure propagates from any depth *)
Theorem unsupported_rejected_from cfg prog st :
  fx_reject_dropped (cfg_fx cfg) = true ->
  mentions_unsupported prog = true ->
  exists msg, lower_stmts cfg prog st = Err msg.
Proof.
  intros Hfx Hm. destruct (unsupported_fails_all cfg Hfx) as (_ & _ & _ & Hss).
  exact (Hss prog Hm st).
Qed.

Theorem unsupported_rejected cfg prog :
  fx_reject_dropped (cfg_fx cfg) = true ->
  mentions_unsupported prog = true ->
  exists msg, tlower_info cfg prog = Err msg.
Proof.
  intros Hfx Hm.
  destruct (unsupported_rejected_from cfg prog (init_state cfg) Hfx Hm) as [msg Hl].
  exists msg. unfold tlower_info. rewrite Hl. reflexivity.
Qed.
Print Assumptions unsupported_rejected.

Corollary unsupported_rejected_tlower cfg prog :
  fx_reject_dropped (cfg_fx cfg) = true ->
  mentions_unsupported prog = true ->
  exists msg, tlower cfg prog = Err msg.
Proof.
  intros Hfx Hm. destruct (unsupported_rejected cfg prog Hfx Hm) as [msg Ht].
  exists msg. unfold tlower. rewrite Ht. reflexivity.
Qed.

(* ================================================================== T1: no raw items *)
(* where a token item can still arise: a string-literal operand, possibly selected by a ?: whose
   condition folds to a constant (the live arm is returned as it is) *)
Fixpoint expr_may_tok (e : cexpr) : bool :=
  match e with
  | EOp (OString _) => true
  | ECond _ t f => expr_may_tok t || expr_may_tok f
  | _ => false
  end.
(* ... used as an expression statement of the list, directly or inside nested blocks (a block
   returns the items of its statements; every other statement form returns one effect) *)
Fixpoint stmt_may_tok (s : cstmt) : bool :=
  match s with
  | SExpr e => expr_may_tok e
  | SBlock l => stmts_may_tok l
  | _ => false
  end
with stmts_may_tok (l : cstmts) : bool :=
  match l with
  | SNil => false
  | SCons s t => stmt_may_tok s || stmts_may_tok t
  end.
Definition has_string_stmt (prog : cstmts) : bool := stmts_may_tok prog.

(* never a raw tree; a token only if allowed *)
Definition tok_ok (allowed : bool) (i : item) : Prop :=
  match i with ITree _ => False | ITok _ => allowed = true | _ => True end.
Definition clean (i : item) : Prop := tok_ok false i.

Lemma tok_ok_mono a b i : tok_ok a i -> tok_ok (a || b) i /\ tok_ok (b || a) i.
Proof.
  destruct i; cbn [tok_ok]; auto. intros Ha. subst a. split; [reflexivity | apply orb_true_r].
Qed.
Lemma tok_ok_true i : forall a, tok_ok a i -> tok_ok true i.
Proof. intros a. destruct i; cbn [tok_ok]; auto. Qed.
Lemma clean_any a i : clean i -> tok_ok a i.
Proof. unfold clean. destruct i; cbn [tok_ok]; auto. discriminate. Qed.
Lemma Forall_tok_ok_mono a b l : Forall (tok_ok a) l -> Forall (tok_ok (a || b)) l /\ Forall (tok_ok (b || a)) l.
Proof.
  intros Hl. split; (eapply Forall_impl; [| exact Hl]); intros i Hi; apply (tok_ok_mono a b i Hi).
Qed.

Section T1.
  Variable cfg : config.
  Hypothesis Hfx : fx_reject_dropped (cfg_fx cfg) = true.

  (* one step through the TAIL of a `do` chain: only the last computation decides the item *)
  Ltac ystep :=
    cbv beta zeta;
    match goal with
    | |- yields _ (ret _) => apply yields_ret; cbn [clean tok_ok]; try exact I
    | |- yields _ (fail _) => apply yields_fail
    | |- yields _ (bind _ _) => apply yields_bind; intro
    | |- yields _ (match ?x with _ => _ end) => destruct x
    end.

  Lemma resolve_hybrid_clean t rdp hyb ef gcc tmps tree :
    yields clean (resolve_hybrid t rdp hyb ef gcc tmps tree).
  Proof. unfold resolve_hybrid. repeat ystep. Qed.

  Lemma lower_operand_ok o :
    yields (tok_ok (match o with OString _ => true | _ => false end)) (lower_operand cfg o).
  Proof. destruct o; cbn [lower_operand]; repeat ystep. reflexivity. Qed.

  Lemma lower_cast_clean t i : yields clean (lower_cast cfg t i).
  Proof. unfold lower_cast. repeat ystep. Qed.

  Lemma lower_unop_clean u i : yields clean (lower_unop cfg u i).
  Proof. destruct u; cbn [lower_unop]; repeat ystep. Qed.

  Lemma lower_binop_clean b ia ib : yields clean (lower_binop cfg b ia ib).
  Proof. destruct b; cbn [lower_binop]; repeat ystep. Qed.

  Ltac t1case :=
    intros; unf cfg; unfold fx; rewrite ?Hfx;
    cbn [expr_may_tok stmt_may_tok stmts_may_tok opt_all] in *;
    fold stmt_may_tok stmts_may_tok in *.

  Ltac ysteps := repeat ystep; try solve [ apply resolve_hybrid_clean | repeat constructor ].

  Lemma no_raw_all :
    (forall e, yields (tok_ok (expr_may_tok e)) (lower_expr cfg e)) /\
    (forall l, yields (Forall (tok_ok true)) (lower_exprs cfg l)) /\
    (forall s, yields (Forall (tok_ok (stmt_may_tok s))) (lower_stmt cfg s)) /\
    (forall l, yields (Forall (tok_ok (stmts_may_tok l))) (lower_stmts cfg l)).
  Proof.
    apply ast_full_ind.
    - (* EOp *) intros o. t1case. eapply yields_weaken; [| apply lower_operand_ok].
      intros i. destruct o; auto.
    - (* ECast *) intros t e IHe. t1case. apply yields_bind. intro ia. apply lower_cast_clean.
    - (* EUn *) intros u e IHe. t1case. apply yields_bind. intro ia. apply lower_unop_clean.
    - (* EBin *) intros b l r IHl IHr. t1case. apply yields_bind. intro il. apply yields_bind. intro ir.
      apply lower_binop_clean.
    - (* ECond *) intros c t e IHc IHt IHe. t1case.
      apply yields_bind. intro ic.
      apply (yields_bind2 _ _ _ _ IHt). intros it Hit.
      apply (yields_bind2 _ _ _ _ IHe). intros ie Hie.
      ysteps. destruct b.
      + apply (tok_ok_mono _ (expr_may_tok e) _ Hit).
      + apply (tok_ok_mono _ (expr_may_tok t) _ Hie).
    - (* EAssign *) intros a l r IHl IHr. t1case. ysteps.
    - (* EPost *) intros i e IHe. t1case. ysteps.
    - (* ECall *) intros f args IHa. t1case. ysteps.
    - (* EMacro *) intros m args IHa. t1case. ysteps.
    - (* ELoad *) intros sg w args IHa. t1case. ysteps.
    - (* EStmtExpr *) intros items last IHi IHl. t1case. ysteps.
    - (* EComma *) intros l r IHl IHr. t1case. ysteps.
    - (* EIndex *) intros a i IHa IHi. t1case. ysteps.
    - (* EMember *) intros a f IHa. t1case. ysteps.
    - (* EPtrMember *) intros a f IHa. t1case. ysteps.
    - (* ECallEmpty *) intros a IHa. t1case. ysteps.
    - (* ESizeofT *) intros t. t1case. ysteps.
    - (* EOther *) intros w. t1case. ysteps.
    - (* ENil *) t1case. ysteps.
    - (* ECons *) intros e t IHe IHt. t1case.
      apply (yields_bind2 _ _ _ _ IHe). intros i Hi.
      apply (yields_bind2 _ _ _ _ IHt). intros r Hr.
      apply yields_ret. constructor; [exact (tok_ok_true _ _ Hi) | exact Hr].
    - (* SExpr *) intros e IHe. t1case.
      apply (yields_bind2 _ _ _ _ IHe). intros i Hi. apply yields_ret. constructor; [exact Hi | constructor].
    - (* SEmpty *) t1case. ysteps.
    - (* SDecl *) intros t x init IHi. destruct init as [e|]; t1case; ysteps.
    - (* SDeclOther *) intros w. t1case. ysteps.
    - (* SIf *) intros c t e IHc IHt IHe. destruct e as [e|]; t1case; ysteps.
    - (* SFor *) intros i c s b IHi IHc IHs IHb. t1case. ysteps.
    - (* SBlock *) intros l IHl. destruct l as [|s0 t0].
      + t1case. ysteps.
      + cbn [lower_stmt]. refold cfg. cbn [stmt_may_tok]. fold stmts_may_tok. exact IHl.
    - (* SStore *) intros sg w args IHa. t1case. ysteps.
    - (* SJump *) intros e IHe. t1case. ysteps.
    - (* SNop *) t1case. ysteps.
    - (* SCancel *) t1case. ysteps.
    - (* SReturn *) intros e IHe. destruct e as [e|]; t1case; ysteps.
    - (* SWhile *) intros c b IHc IHb. t1case. ysteps.
    - (* SDo *) intros b c IHb IHc. t1case. ysteps.
    - (* SSwitch *) intros c b IHc IHb. t1case. ysteps.
    - (* SLabel *) intros l s IHs. t1case. ysteps.
    - (* SCase *) intros s IHs. t1case. ysteps.
    - (* SGoto *) intros l. t1case. ysteps.
    - (* SBreak *) t1case. ysteps.
    - (* SContinue *) t1case. ysteps.
    - (* SNil *) t1case. ysteps.
    - (* SCons *) intros s t IHs IHt. t1case.
      apply (yields_bind2 _ _ _ _ IHs). intros a Ha.
      apply (yields_bind2 _ _ _ _ IHt). intros b Hb.
      apply yields_ret. apply Forall_app. split.
      + apply (Forall_tok_ok_mono _ (stmts_may_tok t) _ Ha).
      + apply (Forall_tok_ok_mono _ (stmt_may_tok s) _ Hb).
  Qed.
End T1.

(* ------------------------------------------------------------------ T1, readable forms *)
Lemma Forall_tok_ok_In a l :
  Forall (tok_ok a) l -> (forall w, ~ In (ITree w) l) /\ (forall s, In (ITok s) l -> a = true).
Proof.
  intros Hl. rewrite Forall_forall in Hl. split.
  - intros w Hin. exact (Hl _ Hin).
  - intros s Hin. exact (Hl _ Hin).
Qed.

Theorem no_raw_items cfg prog st items st' :
  fx_reject_dropped (cfg_fx cfg) = true ->
  lower_stmts cfg prog st = OK (items, st') ->
  (forall w, ~ In (ITree w) items) /\ (forall s, In (ITok s) items -> has_string_stmt prog = true).
Proof.
  intros Hfx Hl. destruct (no_raw_all cfg Hfx) as (_ & _ & _ & Hss).
  apply Forall_tok_ok_In. exact (Hss prog st items st' Hl).
Qed.
Print Assumptions no_raw_items.

Theorem no_raw_items_stmt cfg s st items st' :
  fx_reject_dropped (cfg_fx cfg) = true ->
  lower_stmt cfg s st = OK (items, st') ->
  (forall w, ~ In (ITree w) items) /\ (forall x, In (ITok x) items -> stmt_may_tok s = true).
Proof.
  intros Hfx Hl. destruct (no_raw_all cfg Hfx) as (_ & _ & Hs & _).
  apply Forall_tok_ok_In. exact (Hs s st items st' Hl).
Qed.

Theorem no_raw_item_expr cfg e st i st' :
  fx_reject_dropped (cfg_fx cfg) = true ->
  lower_expr cfg e st = OK (i, st') ->
  (forall w, i <> ITree w) /\ (forall x, i = ITok x -> expr_may_tok e = true).
Proof.
  intros Hfx Hl. destruct (no_raw_all cfg Hfx) as (He & _ & _ & _).
  pose proof (He e st i st' Hl) as Hi. split.
  - intros w Hw. subst i. exact Hi.
  - intros x Hx. subst i. exact Hi.
Qed.

Lemma no_tree_has_tree items : Forall (tok_ok true) items -> has_tree items = false.
Proof.
  intros Hf. unfold has_tree. induction Hf as [|i r Hi Hr IH]; [reflexivity|].
  cbn [existsb]. rewrite IH. destruct i; cbn [tok_ok] in Hi; try reflexivity. destruct Hi.
Qed.

(* the argument lists of calls / macros / loads / stores never contain a raw tree: under the
   switch the `tree_in` flag handed to chk_hybrid_dep / resolve_hybrid is always false *)
Theorem no_raw_items_exprs cfg l st items st' :
  fx_reject_dropped (cfg_fx cfg) = true ->
  lower_exprs cfg l st = OK (items, st') ->
  (forall w, ~ In (ITree w) items) /\ has_tree items = false.
Proof.
  intros Hfx Hl. destruct (no_raw_all cfg Hfx) as (_ & Hes & _ & _).
  pose proof (Hes l st items st' Hl) as Hf. split.
  - apply (Forall_tok_ok_In true). exact Hf.
  - apply no_tree_has_tree. exact Hf.
Qed.

Lemma clean_not_dropped items :
  Forall (tok_ok false) items ->
  existsb (fun i => match i with ITree _ | ITok _ => true | _ => false end) items = false.
Proof.
  intros Hf. induction Hf as [|i r Hi Hr IH]; [reflexivity|].
  cbn [existsb]. rewrite IH. destruct i; cbn [tok_ok] in Hi; first [ reflexivity | discriminate Hi | destruct Hi ].
Qed.

(* T1 corollary: an accepted program without a string-literal expression statement drops nothing *)
Theorem nothing_dropped cfg prog i :
  fx_reject_dropped (cfg_fx cfg) = true ->
  tlower_info cfg prog = OK i ->
  has_string_stmt prog = false ->
  ti_dropped i = false.
Proof.
  intros Hfx Ht Hs. unfold tlower_info in Ht.
  destruct (lower_stmts cfg prog (init_state cfg)) as [[items s]|e] eqn:Hl; [| discriminate Ht].
  destruct (no_raw_all cfg Hfx) as (_ & _ & _ & Hss).
  pose proof (Hss prog _ _ _ Hl) as Hf. unfold has_string_stmt in Hs. rewrite Hs in Hf.
  pose proof (clean_not_dropped items Hf) as Hd.
  destruct (negb (st_nonempty s)); inversion Ht; subst i; cbn [ti_dropped]; exact Hd.
Qed.
Print Assumptions nothing_dropped.

(* translated completely or rejected *)
Corollary translated_or_rejected cfg prog :
  fx_reject_dropped (cfg_fx cfg) = true ->
  has_string_stmt prog = false ->
  match tlower_info cfg prog with OK i => ti_dropped i = false | Err _ => True end.
Proof.
  intros Hfx Hs. destruct (tlower_info cfg prog) as [i|e] eqn:Ht; [| exact I].
  exact (nothing_dropped cfg prog i Hfx Ht Hs).
Qed.

(* ------------------------------------------------------------------ the configuration of the repository *)
Lemma faithful_rejects : fx_reject_dropped faithful = true. Proof. reflexivity. Qed.
Lemma cfg_insn_rejects h : fx_reject_dropped (cfg_fx (cfg_insn h)) = true. Proof. reflexivity. Qed.

(* props/C15.silently_dropped p unfolds to the premise below (h = 0) *)
Theorem C15_all_programs h p :
  has_string_stmt p = false ->
  ~ match tlower_info (cfg_insn h) p with OK i => ti_dropped i = true | Err _ => False end.
Proof.
  intros Hs Hd. pose proof (translated_or_rejected (cfg_insn h) p (cfg_insn_rejects h) Hs) as Ht.
  destruct (tlower_info (cfg_insn h) p) as [i|e]; [| exact Hd].
  rewrite Ht in Hd. discriminate Hd.
Qed.
Print Assumptions C15_all_programs.

Theorem C15_unsupported_rejected h p :
  mentions_unsupported p = true -> exists msg, tlower_info (cfg_insn h) p = Err msg.
Proof. apply unsupported_rejected. apply cfg_insn_rejects. Qed.

(* ------------------------------------------------------------------ the side condition of T1 is necessary *)
(* a string literal used as an expression statement IS a token item, in every configuration *)
Lemma string_stmt_is_tok cfg s st :
  lower_stmts cfg (SCons (SExpr (EOp (OString s))) SNil) st = OK ([ITok s], st).
Proof. reflexivity. Qed.

(* ... and the final filter discards it without an error: { "abc"; } *)
Theorem string_stmt_dropped cfg s :
  exists i, tlower_info cfg (SCons (SExpr (EOp (OString s))) SNil) = OK i /\ ti_dropped i = true.
Proof. eexists. split; reflexivity. Qed.

(* { RdV = 1; "abc"; } under the configuration of the repository *)
Definition w_string : cstmts :=
  SCons (SExpr (EAssign AAssign (EOp (OReg "R" "d")) (EOp (ONum 1 false ""))))
 (SCons (SExpr (EOp (OString "abc"))) SNil).
Example string_stmt_refuted :
  has_string_stmt w_string = true /\ mentions_unsupported w_string = false /\
  match tlower_info (cfg_insn 0) w_string with OK i => ti_dropped i = true | Err _ => False end.
Proof. vm_compute. auto. Qed.

(* { 1 ? "abc" : 2; } : the live arm of a folded ?: is returned as it is *)
Definition w_cond_string : cstmts :=
  SCons (SExpr (ECond (EOp (ONum 1 false "")) (EOp (OString "abc")) (EOp (ONum 2 false "")))) SNil.
Example cond_string_refuted :
  has_string_stmt w_cond_string = true /\ mentions_unsupported w_cond_string = false /\
  match tlower_info (cfg_insn 0) w_cond_string with OK i => ti_dropped i = true | Err _ => False end.
Proof. vm_compute. auto. Qed.

(* ------------------------------------------------------------------ break, three levels deep *)
(* if (RsV) { for (i = 0; i < 2; i++) { RdV = ({ break; RsV; }); } } *)
Definition nest3 (inner : cstmt) : cstmts :=
  SCons (SIf (EOp (OReg "R" "s"))
             (SBlock (SCons
                (SFor (SExpr (EAssign AAssign (EOp (OIdent "i")) (EOp (ONum 0 false ""))))
                      (SExpr (EBin BLt (EOp (OIdent "i")) (EOp (ONum 2 false ""))))
                      (Some (EPost true (EOp (OIdent "i"))))
                      (SBlock (SCons
                         (SExpr (EAssign AAssign (EOp (OReg "R" "d"))
                                   (EStmtExpr (SCons inner SNil) (SExpr (EOp (OReg "R" "s"))))))
                         SNil)))
                SNil))
             None)
        SNil.
Definition w_break3 : cstmts := nest3 SBreak.

Example break3_mentions : mentions_unsupported w_break3 = true.
Proof. vm_compute. reflexivity. Qed.
Example break3_rejected : tlower_info (cfg_insn 0) w_break3 = Err "Jump statement is not supported".
Proof. vm_compute. reflexivity. Qed.
(* the same by the general theorem, for every hybrid counter *)
Example break3_rejected_thm h : exists msg, tlower_info (cfg_insn h) w_break3 = Err msg.
Proof. apply C15_unsupported_rejected. exact break3_mentions. Qed.
(* control: the same nest around an ordinary statement is accepted, nothing dropped *)
Example nest3_control :
  match tlower_info (cfg_insn 0) (nest3 (SExpr (EAssign AAssign (EOp (OReg "R" "e")) (EOp (ONum 1 false "")))))
  with OK i => ti_dropped i = false | Err _ => False end.
Proof. vm_compute. reflexivity. Qed.

(* further positions, each decided by the general theorem (no evaluation of the transformer):
   comma inside a sub-routine argument; goto in an else branch; label in a for body; while inside a
   statement-expression inside a ?: arm; continue in the initialiser of a declaration; switch in a
   for-init; do-while under a cast under a store argument *)
Definition rs := EOp (OReg "R" "s").
Definition one := EOp (ONum 1 false "").
Example rejected_wherever h :
  (exists m, tlower_info (cfg_insn h) (SCons (SExpr (ECall "fcirc_add" (ECons (EComma rs one) ENil))) SNil) = Err m) /\
  (exists m, tlower_info (cfg_insn h) (SCons (SIf rs SEmpty (Some (SBlock (SCons (SGoto "l") SNil)))) SNil) = Err m) /\
  (exists m, tlower_info (cfg_insn h) (SCons (SFor SEmpty (SExpr rs) (Some one) (SLabel "l" SEmpty)) SNil) = Err m) /\
  (exists m, tlower_info (cfg_insn h)
     (SCons (SExpr (ECond rs (EStmtExpr (SCons (SWhile rs SEmpty) SNil) (SExpr one)) one)) SNil) = Err m) /\
  (exists m, tlower_info (cfg_insn h)
     (SCons (SDecl [TS_int] "x" (Some (EStmtExpr (SCons SContinue SNil) (SExpr one)))) SNil) = Err m) /\
  (exists m, tlower_info (cfg_insn h) (SCons (SFor (SSwitch rs SEmpty) (SExpr rs) (Some one) SEmpty) SNil) = Err m) /\
  (exists m, tlower_info (cfg_insn h)
     (SCons (SStore false 4 (ECons rs (ECons (ECast [TS_int] (EStmtExpr (SCons (SDo SEmpty rs) SNil) (SExpr one))) ENil))) SNil) = Err m).
Proof. repeat split; apply C15_unsupported_rejected; reflexivity. Qed.
