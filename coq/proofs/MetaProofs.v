(* Obligations over the REGENERATED gen/MetaTables.v (they break when the source changes in a way
   that matters) and the history part of C13. *)
From Coq Require Import ZArith NArith List Bool String.
From RZ.model Require Import Ast Meta.
From RZ.gen Require Import MetaTables.
Import ListNotations.
Local Open Scope string_scope.

Definition mem (x : string) (l : list string) : bool := existsb (String.eqb x) l.

(* every attribute-relevant callback still sends its token *)
Lemma relevant_callbacks_send :
  sends "new_reg" "new_reg" = true /\ sends "explicit_reg" "explicit_reg" = true /\ sends "jump" "jump" = true
  /\ sends "mem_load" "mem_load" = true /\ sends "mem_store" "mem_store" = true
  /\ sends "selection_stmt" "selection_stmt" = true /\ sends "assignment_expr" "pred_write" = true
  /\ alias_new_sends_new_reg = true.
Proof. repeat split; vm_compute; reflexivity. Qed.

(* no other callback sends an attribute-relevant token (e.g. a for loop must not set COND) *)
Definition relevant_tokens := ["mem_store"; "mem_load"; "new_reg"; "jump"; "selection_stmt"; "explicit_reg"; "pred_write"].
Lemma only_expected_senders :
  forallb (fun p => forallb (fun tok => negb (mem tok relevant_tokens)
                                         || (String.eqb (fst p) tok)
                                         || (String.eqb (fst p) "assignment_expr" && String.eqb tok "pred_write")) (snd p))
          callback_tokens = true.
Proof. vm_compute. reflexivity. Qed.

(* the token table itself: each relevant token sets exactly its own flag on a clean state *)
Lemma token_effects :
  get_meta (token_effect "selection_stmt" false 0 clean) = ["HEX_IL_INSN_ATTR_COND"]
  /\ get_meta (token_effect "new_reg" false 0 clean) = ["HEX_IL_INSN_ATTR_NEW"]
  /\ get_meta (token_effect "explicit_reg" true 0 clean) = ["HEX_IL_INSN_ATTR_NEW"]
  /\ get_meta (token_effect "explicit_reg" false 0 clean) = ["HEX_IL_INSN_ATTR_NONE"]
  /\ get_meta (token_effect "mem_store" false 0 clean) = ["HEX_IL_INSN_ATTR_MEM_WRITE"]
  /\ get_meta (token_effect "mem_load" false 0 clean) = ["HEX_IL_INSN_ATTR_MEM_READ"]
  /\ get_meta (token_effect "jump" false 0 clean) = ["HEX_IL_INSN_ATTR_BRANCH"]
  /\ get_meta (token_effect "pred_write" false (-1) clean) = ["HEX_IL_INSN_ATTR_WPRED"]
  /\ get_meta (token_effect "pred_write" false 2 clean) = ["HEX_IL_INSN_ATTR_WPRED"; "HEX_IL_INSN_ATTR_WRITE_P2"]
  /\ get_meta clean = ["HEX_IL_INSN_ATTR_NONE"].
Proof. repeat split; vm_compute; reflexivity. Qed.

(* ---------------------------------------------------------------- history *)
(* reset_flags as the source has it: a field is cleared iff it is assigned there *)
Definition reset_flags_model (f : mflags) : mflags :=
  mkmf (if mem "is_conditional" ext_reset_fields then false else f_cond f)
       (if mem "uses_new" ext_reset_fields then false else f_new f)
       (if mem "writes_mem" ext_reset_fields then false else f_memw f)
       (if mem "reads_mem" ext_reset_fields then false else f_memr f)
       (if mem "branches" ext_reset_fields then false else f_branch f)
       (if mem "writes_predicate" ext_reset_fields then false else f_wpred f)
       (if mem "preds_written" ext_reset_fields then [] else f_preds f).

Theorem reset_establishes_clean : forall f, reset_flags_model f = clean.
Proof. intros f. vm_compute. reflexivity. Qed.

(* everything get_meta reads is cleared by reset_flags; the only field mutated in place (preds_written.append)
   is re-bound per instance, so a class-level object is never shared between extensions *)
Lemma get_meta_reads_are_reset : forallb (fun x => mem x ext_reset_fields) ext_get_meta_reads = true.
Proof. vm_compute. reflexivity. Qed.
Lemma in_place_mutated_field_is_per_instance : mem "preds_written" ext_init_fields = true.
Proof. vm_compute. reflexivity. Qed.
(* the transformer's reset() calls reset_flags, and transform_insn resets before every part and on every exit path *)
Lemma entry_points_reset :
  mem "self.ext.reset_flags()" transformer_reset_calls = true
  /\ transform_insn_resets_before_each_part = true /\ entry_reset_transform_insn = "finally" /\ entry_reset_compile_c_stmt = "finally".
Proof. repeat split; vm_compute; reflexivity. Qed.

(* a history is a list of behaviours compiled one after the other on the same extension object;
   each compilation starts with reset_flags (entry_points_reset) *)
Definition compile_step (f : mflags) (p : cstmts) : mflags * list string :=
  let f' := meta_ss p (reset_flags_model f) in (f', get_meta f').
Fixpoint run_history (f : mflags) (h : list cstmts) : mflags :=
  match h with [] => f | p :: t => run_history (fst (compile_step f p)) t end.
Theorem attrs_history : forall (h : list cstmts) (f0 : mflags) (p : cstmts),
  snd (compile_step (run_history f0 h) p) = attrs p.
Proof. intros h f0 p. unfold compile_step, attrs. rewrite reset_establishes_clean. reflexivity. Qed.
