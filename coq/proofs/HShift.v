(* C14 support: the result of a compilation depends on the surviving counter hybrid_op_count only
   through the NUMBERING of the h_tmpN temporaries (counter-shift equivariance).

   Main theorem (hshift_tlower_info, end of file): for every configuration cfg, every start value n of
   the counter and every program prog,
       no_htmp_ident prog = true  ->  n + hyb_bound prog <= 10^40  ->
       tlower_info (cfg with hstart := n) prog = rres n (tlower_info (cfg with hstart := 0) prog)
   where rres n maps  Err msg |-> Err msg  and  OK i |-> OK (rename_tinfo n i):  the effect with every
   local-variable occurrence x (SETL x, VARL x) replaced by shift n x, the counter n + ti_hcount i, the same
   leftover / dropped facts and the renamed list of removed names.  shift n maps "h_tmp<k>" (canonical
   decimal) to "h_tmp<k+n>" and every other name to itself.  Corollaries: hshift_error_iff, hshift_ok,
   hshift_tlower, hshift_tlower_checked, C14_history_independent (cfg_insn h).

   Side conditions, both with witnesses at the end of the file:
   (1) no_htmp_ident: no identifier / immediate / declared name of the program starts with "h_tmp".
       NECESSARY (htmp_ident_refuted): a user variable spelled h_tmp7 is kept apart from the temporary of
       x++ by a fresh compiler and is overwritten by it after seven earlier hybrids.
   (2) n + hyb_bound prog <= 10^40: an artefact of the MODEL (string_of_N renders 40 digits: lim_artefact),
       not of the compiler.
   Proof: a lock-step simulation (sim) between the run from a state and the run from the renamed state,
   helper by helper, then by mutual induction over the AST (NoDrop.ast_full_ind), then through the
   finalisation (fin_eff commutes with the renaming). *)
From Coq Require Import ZArith NArith List Bool String Ascii Lia.
From RZ.sem Require Import RzIL.
From RZ.model Require Import Ast Types OpTables Lower Guards.
From RZ.gen Require Import Resources.
From RZ.proofs Require Import NoDrop.
Import ListNotations.
Local Open Scope string_scope.

(* ================================================================== names of temporaries *)
Definition hname (k : N) : string := "h_tmp" +++ string_of_N k.
(* the very test the model applies to identifiers (Lower.v, lower_operand, OIdent) *)
Definition is_htmp (x : string) : bool := String.eqb (substring 0 5 x) "h_tmp".

Fixpoint parse_dec (s : string) (a : N) : N :=
  match s with
  | EmptyString => a
  | String c t => parse_dec t (10 * a + (N_of_ascii c - 48))%N
  end.

(* string_of_N (model/Types.v) renders at most 40 digits: it is injective below 10^40 only *)
Definition LIM : N := (10 ^ 40)%N.

Lemma parse_lin s : forall a, parse_dec s a = (a * 10 ^ N.of_nat (String.length s) + parse_dec s 0)%N.
Proof.
  induction s as [|c t IH]; intros a.
  - cbn [parse_dec String.length N.of_nat]. rewrite N.pow_0_r. lia.
  - cbn [parse_dec String.length]. rewrite (IH (10 * a + _)%N). rewrite (IH (10 * 0 + _)%N).
    rewrite Nat2N.inj_succ, N.pow_succ_r'. lia.
Qed.

Lemma digit_val d : (d < 10)%N -> (N_of_ascii (ascii_of_N (48 + d)) - 48 = d)%N.
Proof. intros Hd. rewrite N_ascii_embedding by lia. lia. Qed.

Lemma fuel_val f : forall k acc, (k < 10 ^ N.of_nat (S f))%N ->
  parse_dec (string_of_N_fuel (S f) k acc) 0 = (k * 10 ^ N.of_nat (String.length acc) + parse_dec acc 0)%N.
Proof.
  induction f as [|f IH]; intros k acc Hk.
  - cbn [string_of_N_fuel].
    change (10 ^ N.of_nat 1)%N with 10%N in Hk.
    assert (Hq : (k / 10 = 0)%N). { apply N.div_small. lia. }
    rewrite Hq. cbn [N.eqb]. unfold digit_char. cbn [append parse_dec].
    rewrite parse_lin. rewrite digit_val by (apply N.mod_lt; lia).
    rewrite N.mod_small by lia. lia.
  - remember (S f) as f1 eqn:Hf1. cbn [string_of_N_fuel].
    destruct (N.eqb_spec (k / 10) 0) as [Hq|Hq].
    + unfold digit_char. cbn [append parse_dec]. rewrite parse_lin. rewrite digit_val by (apply N.mod_lt; lia).
      assert (Hlt : (k < 10)%N).
      { destruct (N.lt_ge_cases k 10) as [H|H]; [exact H|]. exfalso.
        pose proof (N.div_le_mono 10 k 10 ltac:(lia) H) as H1. rewrite N.div_same in H1 by lia. lia. }
      rewrite N.mod_small by lia. lia.
    + subst f1. rewrite IH.
      * unfold digit_char. cbn [append parse_dec String.length]. rewrite (parse_lin acc).
        rewrite digit_val by (apply N.mod_lt; lia). rewrite Nat2N.inj_succ, N.pow_succ_r'.
        pose proof (N.div_mod k 10 ltac:(lia)) as Hdm.
        set (P := (10 ^ N.of_nat (String.length acc))%N) in *.
        set (q := (k / 10)%N) in *. set (r := (k mod 10)%N) in *.
        rewrite Hdm. lia.
      * apply N.div_lt_upper_bound; [lia|]. rewrite <- N.pow_succ_r'. rewrite <- Nat2N.inj_succ. exact Hk.
Qed.

Lemma parse_string_of_N k : (k < LIM)%N -> parse_dec (string_of_N k) 0 = k.
Proof.
  intros Hk. unfold string_of_N. rewrite fuel_val.
  - cbn [String.length N.of_nat parse_dec]. rewrite N.pow_0_r. lia.
  - exact Hk.
Qed.

Lemma substring_all s : substring 0 (String.length s) s = s.
Proof. induction s as [|c t IH]; [reflexivity|]. cbn [String.length substring]. rewrite IH. reflexivity. Qed.

Lemma is_htmp_hname k : is_htmp (hname k) = true.
Proof. unfold is_htmp, hname. generalize (string_of_N k) as s. intros s. destruct s; reflexivity. Qed.

Lemma hname_suffix k : substring 5 (String.length (hname k) - 5) (hname k) = string_of_N k.
Proof.
  unfold hname. generalize (string_of_N k) as s. intros s. cbn [append String.length Nat.sub]. cbn [substring].
  rewrite Nat.sub_0_r. apply substring_all.
Qed.

Lemma hname_inj k k' : (k < LIM)%N -> (k' < LIM)%N -> hname k = hname k' -> k = k'.
Proof.
  intros Hk Hk' He. unfold hname in He. cbn [append] in He. injection He as He'.
  rewrite <- (parse_string_of_N k Hk), <- (parse_string_of_N k' Hk'). rewrite He'. reflexivity.
Qed.

Lemma eqb_htmp_diff a b : is_htmp a = false -> is_htmp b = true -> String.eqb a b = false.
Proof.
  intros Ha Hb. destruct (String.eqb_spec a b) as [He|He]; [|reflexivity].
  subst b. rewrite Ha in Hb. discriminate Hb.
Qed.

(* ================================================================== the renaming *)
Section Shift.
  Variable n : N.

  (* "h_tmp<k>" |-> "h_tmp<k+n>" (canonical decimal spelling only); every other name is unchanged *)
  Definition shn (x : string) : string :=
    if is_htmp x then
      let k := parse_dec (substring 5 (String.length x - 5) x) 0 in
      if String.eqb (hname k) x then hname (k + n) else x
    else x.

  (* the names on which shn is injective: user names, and the temporaries whose shifted number is
     still below the rendering limit *)
  Definition gname (x : string) : Prop := is_htmp x = false \/ exists k, (k + n < LIM)%N /\ x = hname k.

  Lemma shn_user x : is_htmp x = false -> shn x = x.
  Proof. intros Hx. unfold shn. rewrite Hx. reflexivity. Qed.

  Lemma shn_hname k : (k < LIM)%N -> shn (hname k) = hname (k + n).
  Proof.
    intros Hk. unfold shn. rewrite is_htmp_hname. cbv zeta. rewrite hname_suffix.
    rewrite (parse_string_of_N k Hk). rewrite String.eqb_refl. reflexivity.
  Qed.

  Lemma is_htmp_shn x : is_htmp (shn x) = is_htmp x.
  Proof.
    unfold shn. destruct (is_htmp x) eqn:Hx; [|exact Hx]. cbv zeta.
    destruct (String.eqb _ x); [apply is_htmp_hname | exact Hx].
  Qed.

  Lemma gname_user x : is_htmp x = false -> gname x.
  Proof. intros Hx. left. exact Hx. Qed.

  Lemma gname_hname k : (k + n < LIM)%N -> gname (hname k).
  Proof. intros Hk. right. exists k. split; [exact Hk | reflexivity]. Qed.

  Lemma shn_eqb x y : gname x -> gname y -> String.eqb (shn x) (shn y) = String.eqb x y.
  Proof.
    intros [Hx|(k & Hk & Hx)] [Hy|(k' & Hk' & Hy)].
    - rewrite (shn_user x Hx), (shn_user y Hy). reflexivity.
    - subst y. rewrite (shn_user x Hx). rewrite shn_hname by lia.
      rewrite (eqb_htmp_diff _ _ Hx (is_htmp_hname _)). rewrite (eqb_htmp_diff _ _ Hx (is_htmp_hname _)). reflexivity.
    - subst x. rewrite (shn_user y Hy). rewrite shn_hname by lia.
      rewrite String.eqb_sym. rewrite (eqb_htmp_diff _ _ Hy (is_htmp_hname _)).
      rewrite String.eqb_sym. rewrite (eqb_htmp_diff _ _ Hy (is_htmp_hname _)). reflexivity.
    - subst x y. rewrite !shn_hname by lia.
      destruct (String.eqb_spec (hname k) (hname k')) as [He|He].
      + apply hname_inj in He; [|lia|lia]. subst k'. apply String.eqb_refl.
      + destruct (String.eqb_spec (hname (k + n)) (hname (k' + n))) as [He'|He']; [|reflexivity].
        apply hname_inj in He'; [|lia|lia]. assert (k = k') by lia. subst k'. contradiction He. reflexivity.
  Qed.

  (* comparison with a name that is no temporary: insensitive to the renaming, for EVERY other name *)
  Lemma shn_eqb_user a x : is_htmp a = false -> String.eqb a (shn x) = String.eqb a x.
  Proof.
    intros Ha. destruct (is_htmp x) eqn:Hx.
    - rewrite (eqb_htmp_diff a x Ha Hx). apply eqb_htmp_diff; [exact Ha|]. rewrite is_htmp_shn. exact Hx.
    - rewrite (shn_user x Hx). reflexivity.
  Qed.

  (* ------------------------------------------------------------------ terms *)
  Fixpoint rpure (p : pure) : pure :=
    match p with
    | PVarL x => PVarL (shn x)
    | PLet x e b => PLet x (rpure e) (rpure b)
    | PUn o a => PUn o (rpure a)
    | PBin o a b => PBin o (rpure a) (rpure b)
    | PCmp o a b => PCmp o (rpure a) (rpure b)
    | PCast w f a => PCast w (rpure f) (rpure a)
    | PMsb a => PMsb (rpure a)
    | PNonZero a => PNonZero (rpure a)
    | PInv a => PInv (rpure a)
    | PAnd a b => PAnd (rpure a) (rpure b)
    | POr a b => POr (rpure a) (rpure b)
    | PIte c a b => PIte (rpure c) (rpure a) (rpure b)
    | PLoad w a => PLoad w (rpure a)
    | PSignExt sg w a => PSignExt sg w (rpure a)
    | PIncDec i a w => PIncDec i (rpure a) w
    | PApp h l => PApp h (map rpure l)
    | _ => p
    end.
  Definition rarg (a : arg) : arg := match a with APure p => APure (rpure p) | _ => a end.
  Fixpoint reff (e : effect) : effect :=
    match e with
    | ESetL x p => ESetL (shn x) (rpure p)
    | EWriteReg r p => EWriteReg r (rpure p)
    | EStore a v => EStore (rpure a) (rpure v)
    | ESeq a b => ESeq (reff a) (reff b)
    | EBranch c t f => EBranch (rpure c) (reff t) (reff f)
    | ERepeat c b => ERepeat (rpure c) (reff b)
    | RzIL.ECall f l => RzIL.ECall f (map rarg l)
    | EPlugin f l => EPlugin f (map rarg l)
    | ENop => ENop
    | EEmpty => EEmpty
    end.

  (* ------------------------------------------------------------------ values of the traversal *)
  Definition rkind (k : kind) : kind :=
    match k with KVar x => KVar (shn x) | KTmp x g => KTmp (shn x) g | _ => k end.
  Definition rpval (p : pval) : pval := mkpv (rpure (pv_term p)) (pv_ty p) (rkind (pv_kind p)) (map shn (pv_tmps p)).
  Definition rleff (e : leff) : leff := mkle (reff (le_term e)) (map shn (le_tmps e)) (le_empty e).
  Definition ritem (i : item) : item :=
    match i with
    | IPure p => IPure (rpval p)
    | IEff e => IEff (rleff e)
    | IAsg e p => IAsg (rleff e) (rpval p)
    | IVoid e => IVoid (rleff e)
    | _ => i
    end.
  Definition rpend (p : pend) : pend :=
    mkpend (shn (pd_name p)) (map reff (pd_pre p)) (reff (pd_hyb p)) (reff (pd_set p)) (pd_exec_first p) (map shn (pd_tmps p)).
  Definition rvar (v : string * option vtype) : string * option vtype := (shn (fst v), snd v).
  Definition rstate (s : lstate) : lstate :=
    mkst (map rvar (st_vars s)) (st_regs s) (map rpend (st_pending s)) (n + st_hcount s)
         (map reff (st_imms s)) (st_nonempty s) (map shn (st_removed s)).

  Definition gkind (k : kind) : Prop := match k with KVar x | KTmp x _ => gname x | _ => True end.
  Definition gpval (p : pval) : Prop := gkind (pv_kind p) /\ Forall gname (pv_tmps p).
  Definition gleff (e : leff) : Prop := Forall gname (le_tmps e).
  Definition gitem (i : item) : Prop :=
    match i with
    | IPure p => gpval p
    | IEff e | IVoid e => gleff e
    | IAsg e p => gleff e /\ gpval p
    | _ => True
    end.
  Definition gpend (p : pend) : Prop := gname (pd_name p) /\ Forall gname (pd_tmps p).
  Definition gimm (e : effect) : Prop := match e with ESetL x _ => is_htmp x = false | _ => True end.
  Definition gst (s : lstate) : Prop :=
    Forall gname (map fst (st_vars s)) /\ Forall gpend (st_pending s) /\ Forall gimm (st_imms s).

  (* ------------------------------------------------------------------ canonical renaming per type *)
  Class Ren (A : Type) := { ren : A -> A; good : A -> Prop }.
  #[local] Instance Ren_unit : Ren unit := {| ren := fun x => x; good := fun _ => True |}.
  #[local] Instance Ren_bool : Ren bool := {| ren := fun x => x; good := fun _ => True |}.
  #[local] Instance Ren_Z : Ren Z := {| ren := fun x => x; good := fun _ => True |}.
  #[local] Instance Ren_vtype : Ren vtype := {| ren := fun x => x; good := fun _ => True |}.
  #[local] Instance Ren_string : Ren string := {| ren := shn; good := gname |}.
  #[local] Instance Ren_pure : Ren pure := {| ren := rpure; good := fun _ => True |}.
  #[local] Instance Ren_arg : Ren arg := {| ren := rarg; good := fun _ => True |}.
  #[local] Instance Ren_pval : Ren pval := {| ren := rpval; good := gpval |}.
  #[local] Instance Ren_leff : Ren leff := {| ren := rleff; good := gleff |}.
  #[local] Instance Ren_item : Ren item := {| ren := ritem; good := gitem |}.
  #[local] Instance Ren_lstate : Ren lstate := {| ren := rstate; good := gst |}.
  #[local] Instance Ren_prod {A B} `{Ren A} `{Ren B} : Ren (A * B) :=
    {| ren := fun p => (ren (fst p), ren (snd p)); good := fun p => good (fst p) /\ good (snd p) |}.
  #[local] Instance Ren_list {A} `{Ren A} : Ren (list A) := {| ren := map ren; good := Forall good |}.
  #[local] Instance Ren_option {A} `{Ren A} : Ren (option A) :=
    {| ren := option_map ren; good := fun o => match o with Some a => good a | None => True end |}.

  (* ------------------------------------------------------------------ the simulation *)
  (* budget b: the run creates at most b temporaries; the run from the renamed state with renamed
     inputs (mn) mirrors the run from the original state (m0) *)
  Definition sim {A} `{Ren A} (b : N) (m0 mn : M A) : Prop :=
    forall s, gst s -> (n + st_hcount s + b <= LIM)%N ->
    match m0 s with
    | OK (a, s') => mn (rstate s) = OK (ren a, rstate s') /\ gst s' /\ (st_hcount s' <= st_hcount s + b)%N /\ good a
    | Err e => mn (rstate s) = Err e
    end.

  Lemma sim_ret {A} `{Ren A} b (a an : A) : an = ren a -> good a -> sim b (ret a) (ret an).
  Proof.
    intros He Hg s Hs Hb. unfold ret. subst an. split; [reflexivity|]. split; [exact Hs|]. split; [lia | exact Hg].
  Qed.

  Lemma sim_fail {A} `{Ren A} b msg : sim b (@fail A msg) (fail msg).
  Proof. intros s Hs Hb. reflexivity. Qed.

  Lemma sim_bind {A B} `{Ren A} `{Ren B} b1 b (m0 mn : M A) (f0 fn : A -> M B) :
    sim b1 m0 mn -> (b1 <= b)%N ->
    (forall a, good a -> sim (b - b1) (f0 a) (fn (ren a))) ->
    sim b (bind m0 f0) (bind mn fn).
  Proof.
    intros Hm Hle Hf s Hs Hb. unfold bind.
    specialize (Hm s Hs ltac:(lia)). destruct (m0 s) as [[a s1]|e].
    - destruct Hm as (Hmn & Hs1 & Hc1 & Ha). rewrite Hmn.
      specialize (Hf a Ha s1 Hs1 ltac:(lia)). destruct (f0 a s1) as [[r s2]|e2].
      + destruct Hf as (Hfn & Hs2 & Hc2 & Hr). split; [exact Hfn|]. split; [exact Hs2|]. split; [lia | exact Hr].
      + exact Hf.
    - rewrite Hm. reflexivity.
  Qed.

  Lemma sim_weaken {A} `{Ren A} b b' (m0 mn : M A) : sim b m0 mn -> (b <= b')%N -> sim b' m0 mn.
  Proof.
    intros Hm Hle s Hs Hb. specialize (Hm s Hs ltac:(lia)). destruct (m0 s) as [[a s1]|e]; [|exact Hm].
    destruct Hm as (H1 & H2 & H3 & H4). split; [exact H1|]. split; [exact H2|]. split; [lia | exact H4].
  Qed.

  Lemma sim_get b : sim b get get.
  Proof. intros s Hs Hb. unfold get. split; [reflexivity|]. split; [exact Hs|]. split; [lia | exact Hs]. Qed.


  (* ================================================================== the traversal, helper by helper *)
  Variable cfg : config.

  Lemma sim_bind0 {A B} `{Ren A} `{Ren B} b (m0 mn : M A) (f0 fn : A -> M B) :
    sim 0 m0 mn -> (forall a, good a -> sim b (f0 a) (fn (ren a))) -> sim b (bind m0 f0) (bind mn fn).
  Proof.
    intros Hm Hf. apply (sim_bind 0 b m0 mn f0 fn Hm); [lia|]. intros a Ha. rewrite N.sub_0_r. apply Hf. exact Ha.
  Qed.

  (* ------------------------------------------------------------------ term builders commute with the renaming *)
  Lemma reff_seqn l : reff (seqn l) = seqn (map reff l).
  Proof.
    induction l as [|e t IH]; [reflexivity|]. destruct t as [|e' t']; [reflexivity|].
    change (seqn (e :: e' :: t')) with (ESeq e (seqn (e' :: t'))).
    change (map reff (e :: e' :: t')) with (reff e :: map reff (e' :: t')).
    cbn [reff]. rewrite IH. reflexivity.
  Qed.

  Lemma rp_cast t s nn x : cast_il_exec t s nn (rpure x) = rpure (cast_il_exec t s nn x).
  Proof. unfold cast_il_exec. destruct ((vt_sg t && vt_sg s) || (vt_sg s && (vt_w s <? vt_w t)%N && negb nn)); reflexivity. Qed.
  Ltac ifs := repeat match goal with |- context [if ?c then _ else _] => destruct c end; try reflexivity.
  Lemma rp_bitop op ty a b : bitop_il_exec op ty (rpure a) (rpure b) = rpure (bitop_il_exec op ty a b).
  Proof. unfold bitop_il_exec. ifs. Qed.
  Lemma rp_arith o ta tb a b : arith_il_exec o ta tb (rpure a) (rpure b) = rpure (arith_il_exec o ta tb a b).
  Proof. unfold arith_il_exec. ifs. Qed.
  Lemma rp_cmp op ta tb a b : cmp_il_exec op ta tb (rpure a) (rpure b) = rpure (cmp_il_exec op ta tb a b).
  Proof. unfold cmp_il_exec. ifs. Qed.
  Lemma rp_cond_wrap c x : cond_wrap c (rpure x) = rpure (cond_wrap c x).
  Proof. unfold cond_wrap. ifs. Qed.
  Lemma rp_boolop op ab bb a b : boolop_il_exec op ab bb (rpure a) (rpure b) = rpure (boolop_il_exec op ab bb a b).
  Proof. unfold boolop_il_exec. rewrite !rp_cond_wrap. ifs. Qed.

  Lemma is_boolop_ren p : is_boolop cfg (rpval p) = is_boolop cfg p.
  Proof. unfold is_boolop, rpval. cbn [pv_kind]. destruct (pv_kind p); reflexivity. Qed.
  Lemma cond_of_ren p : cond_of cfg (rpval p) = rpure (cond_of cfg p).
  Proof. unfold cond_of. rewrite is_boolop_ren. unfold rd, rpval. cbn [pv_term]. apply rp_cond_wrap. Qed.
  Lemma nonneg_const_ren p : nonneg_const (rpval p) = nonneg_const p.
  Proof. unfold nonneg_const, rpval. cbn [pv_kind]. destruct (pv_kind p); reflexivity. Qed.
  Lemma fold_cond_ren p : fold_cond (rpval p) = fold_cond p.
  Proof. unfold fold_cond, rpval. cbn [pv_kind]. destruct (pv_kind p); reflexivity. Qed.

  (* pure functions on items *)
  Lemma item_tmps_ren i : item_tmps (ritem i) = map shn (item_tmps i).
  Proof. destruct i; reflexivity. Qed.
  Lemma has_tree_ren l : has_tree (map ritem l) = has_tree l.
  Proof.
    unfold has_tree. induction l as [|i t IH]; [reflexivity|]. cbn [map existsb]. rewrite IH. destruct i; reflexivity.
  Qed.
  Lemma flat_map_item_tmps_ren l : flat_map item_tmps (map ritem l) = map shn (flat_map item_tmps l).
  Proof.
    induction l as [|i t IH]; [reflexivity|]. cbn [map flat_map]. rewrite IH, item_tmps_ren, map_app. reflexivity.
  Qed.
  Lemma good_item_tmps i : gitem i -> Forall gname (item_tmps i).
  Proof. destruct i; cbn [gitem item_tmps]; unfold gpval, gleff; intuition. Qed.
  Lemma good_flat_item_tmps l : Forall gitem l -> Forall gname (flat_map item_tmps l).
  Proof.
    induction 1 as [|i t Hi Ht IH]; [constructor|]. cbn [flat_map]. apply Forall_app. split; [apply good_item_tmps; exact Hi | exact IH].
  Qed.

  Lemma mk_sequence_ren l : mk_sequence (map ritem l) = (rleff (fst (mk_sequence l)), snd (mk_sequence l)).
  Proof.
    unfold mk_sequence. cbn [fst snd]. unfold rleff. cbn [le_term le_tmps le_empty].
    set (fe := fun i : item => match i with IEff e | IVoid e | IAsg e _ => if le_empty e then [] else [le_term e] | _ => [] end).
    set (ft1 := fun i : item => match i with IEff _ | IVoid _ | IAsg _ _ => [] | _ => item_tmps i end).
    set (ft2 := fun i : item => match i with IEff e | IVoid e | IAsg e _ => if le_empty e then [] else le_tmps e | _ => [] end).
    assert (He : flat_map fe (map ritem l) = map reff (flat_map fe l)).
    { induction l as [|i t IH]; [reflexivity|]. cbn [map flat_map]. rewrite IH, map_app. f_equal.
      destruct i; cbn [ritem fe]; try reflexivity; unfold rleff; cbn [le_empty le_term]; destruct (le_empty _); reflexivity. }
    assert (H1 : flat_map ft1 (map ritem l) = map shn (flat_map ft1 l)).
    { clear He. induction l as [|i t IH]; [reflexivity|]. cbn [map flat_map]. rewrite IH, map_app. f_equal.
      destruct i; reflexivity. }
    assert (H2 : flat_map ft2 (map ritem l) = map shn (flat_map ft2 l)).
    { clear He H1. induction l as [|i t IH]; [reflexivity|]. cbn [map flat_map]. rewrite IH, map_app. f_equal.
      destruct i; cbn [ritem ft2]; try reflexivity; unfold rleff; cbn [le_empty le_tmps]; destruct (le_empty _); reflexivity. }
    rewrite He, H1, H2, reff_seqn, map_app.
    assert (H3 : existsb (fun i : item => match i with ITree _ => true | _ => false end) (map ritem l)
                 = existsb (fun i : item => match i with ITree _ => true | _ => false end) l).
    { exact (has_tree_ren l). }
    rewrite H3. destruct (flat_map fe l); reflexivity.
  Qed.

  Lemma good_mk_sequence l : Forall gitem l -> gleff (fst (mk_sequence l)).
  Proof.
    intros Hl. unfold mk_sequence, gleff. cbn [fst le_tmps]. apply Forall_app. split.
    - induction Hl as [|i t Hi Ht IH]; [constructor|]. cbn [flat_map]. apply Forall_app. split; [|exact IH].
      destruct i; cbn [gitem item_tmps] in *; unfold gpval in *; try constructor; intuition.
    - induction Hl as [|i t Hi Ht IH]; [constructor|]. cbn [flat_map]. apply Forall_app. split; [|exact IH].
      destruct i; cbn [gitem] in *; unfold gleff in *; try constructor; destruct (le_empty _); try constructor; intuition.
  Qed.

  Hint Rewrite has_tree_ren item_tmps_ren flat_map_item_tmps_ren is_boolop_ren cond_of_ren fold_cond_ren nonneg_const_ren rp_cast rp_bitop rp_arith rp_cmp rp_cond_wrap rp_boolop map_app : hren.

  (* ------------------------------------------------------------------ tactics *)
  Ltac rsimp :=
    cbn [ren good Ren_unit Ren_bool Ren_Z Ren_vtype Ren_string Ren_pure Ren_arg Ren_pval Ren_leff Ren_item
         Ren_lstate Ren_prod Ren_list Ren_option
         rpval rleff ritem rkind rarg rpure reff option_map fst snd map
         pv_term pv_ty pv_kind pv_tmps le_term le_tmps le_empty rd lit_pure
         rstate st_vars st_regs st_pending st_hcount st_imms st_nonempty st_removed
         gpval gleff gitem gkind].
  Ltac rsimp_in H :=
    cbn [ren good Ren_unit Ren_bool Ren_Z Ren_vtype Ren_string Ren_pure Ren_arg Ren_pval Ren_leff Ren_item
         Ren_lstate Ren_prod Ren_list Ren_option
         rpval rleff ritem rkind rarg rpure reff option_map fst snd map
         pv_term pv_ty pv_kind pv_tmps le_term le_tmps le_empty rd lit_pure
         rstate st_vars st_regs st_pending st_hcount st_imms st_nonempty st_removed
         gpval gleff gitem gkind] in H.

  (* equations  <n-side value> = ren <0-side value> *)
  Ltac shu := repeat match goal with H : is_htmp ?x = false |- context [shn ?x] => rewrite (shn_user x H) end.
  Ltac req1 := rsimp; autorewrite with hren; unfold rpval, rleff; rsimp; autorewrite with hren; shu; try reflexivity.
  Ltac req :=
    rsimp; try reflexivity; req1;
    repeat match goal with |- context [fst ?p] => is_var p; destruct p end; req1;
    repeat (match goal with
            | |- context [match rkind ?x with _ => _ end] => destruct x eqn:?
            | |- context [match ?x with _ => _ end] => destruct x eqn:?
            end; req1).
  (* goodness goals *)
  Ltac gsolve :=
    cbn [fst snd] in *;
    repeat match goal with |- context [if ?b then _ else _] => is_var b; destruct b end;
    rsimp;
    repeat (rsimp; unfold gpval, gleff; rsimp;
            repeat match goal with H : pv_kind ?a = _ |- context [pv_kind ?a] => rewrite H end;
            first [ exact I | assumption | (left; assumption) | (left; reflexivity)
                  | (apply good_item_tmps; assumption) | (apply good_flat_item_tmps; assumption) | apply Forall_nil | apply Forall_cons
                         | (apply Forall_app; split) | split ]).
  (* break a goodness hypothesis into its components *)
  Ltac ghyp H :=
    rsimp_in H; unfold gpval, gleff, gst in H; rsimp_in H;
    repeat match type of H with
           | _ /\ _ => let H1 := fresh H in let H2 := fresh H in destruct H as [H1 H2]; try ghyp H1; try ghyp H2
           end.

  Ltac ghyps :=
    repeat match goal with
           | H : gitem ?i |- _ => lazymatch i with _ _ => idtac end; ghyp H
           | H : Forall ?P (?x :: ?l) |- _ =>
               let H1 := fresh H in let H2 := fresh H in
               pose proof (Forall_inv H) as H1; pose proof (Forall_inv_tail H) as H2; clear H
           end.

  Ltac scall0 := fail "no helper lemma".
  Ltac scallb := eassumption.

  Ltac shook := fail.
  Ltac sstep :=
    rsimp; try shook; rewrite ?is_boolop_ren, ?fold_cond_ren, ?cond_of_ren, ?has_tree_ren, ?item_tmps_ren, ?flat_map_item_tmps_ren;
    lazymatch goal with
    | |- sim _ (ret _) (ret _) => apply sim_ret; [req | gsolve]
    | |- sim _ (fail _) (fail _) => apply sim_fail
    | |- sim _ (bind ?m0 _) (bind _ _) =>
        first [ eapply sim_bind0; [ first [ scall0 | solve [ repeat sstep ] ] | ]
              | eapply sim_bind; [ scallb | lia | ] ];
        [ let a := fresh "a" in let Ha := fresh "Ha" in intros a Ha; cbv beta;
          lazymatch type of a with (_ * _)%type => destruct a as [? ?] | _ => idtac end;
          try ghyp Ha ]
    | |- sim _ (match mk_sequence ?l with _ => _ end) (match mk_sequence ?ln with _ => _ end) =>
        first [ (change ln with (map ritem l); rewrite (mk_sequence_ren l))
              | (let E := fresh "E" in assert (E : ln = map ritem l) by req; rewrite E; clear E;
                 rewrite (mk_sequence_ren l)) ];
        let G := fresh "Gseq" in
        assert (G : gleff (fst (mk_sequence l))) by (apply good_mk_sequence; gsolve);
        destruct (mk_sequence l) as [? ?]; cbn [fst snd] in G |- *; unfold gleff in G
    | |- sim _ (match (match ?y with _ => _ end) with _ => _ end) _ => destruct y eqn:?; ghyps
    | |- sim _ (match ?x with _ => _ end) _ => destruct x eqn:?; ghyps
    | |- sim _ _ _ => first [ eapply sim_weaken; [ scall0 | lia ] | eapply sim_weaken; [ scallb | lia ] ]
    end.
  Ltac ssteps := repeat sstep.

  Lemma sim_ty_eq a b : sim 0 (ty_eq a b) (ty_eq a b).
  Proof. unfold ty_eq. ssteps. Qed.
  Lemma sim_need_numeric t : sim 0 (need_numeric t) (need_numeric t).
  Proof. unfold need_numeric. ssteps. Qed.

  Ltac scall1 :=
    lazymatch goal with
    | |- sim _ (ty_eq _ _) _ => apply sim_ty_eq
    | |- sim _ (need_numeric _) _ => apply sim_need_numeric
    end.
  Ltac scall0 ::= scall1.

  Lemma sim_init_a_cast t p pn : pn = rpval p -> gpval p -> sim 0 (init_a_cast cfg t p) (init_a_cast cfg t pn).
  Proof. intros He Hg. subst pn. ghyp Hg. unfold init_a_cast. ssteps. Qed.

  Ltac scall2 :=
    lazymatch goal with
    | |- sim _ (init_a_cast _ _ _) _ => eapply sim_init_a_cast; [req | gsolve]
    | |- _ => scall1
    end.
  Ltac scall0 ::= scall2.

  Lemma sim_promotion_cast p pn : pn = rpval p -> gpval p -> sim 0 (promotion_cast cfg p) (promotion_cast cfg pn).
  Proof. intros He Hg. subst pn. ghyp Hg. unfold promotion_cast. ssteps. Qed.

  Lemma sim_cast_operands imm a an c cn :
    an = rpval a -> cn = rpval c -> gpval a -> gpval c ->
    sim 0 (cast_operands cfg imm a c) (cast_operands cfg imm an cn).
  Proof. intros Ea Ec Ga Gc. subst an cn. ghyp Ga. ghyp Gc. unfold cast_operands. ssteps. Qed.

  Lemma sim_int_of_bool p pn : pn = rpval p -> gpval p -> sim 0 (int_of_bool cfg p) (int_of_bool cfg pn).
  Proof. intros He Hg. subst pn. ghyp Hg. unfold int_of_bool. ssteps. Qed.

  Ltac scall3 :=
    lazymatch goal with
    | |- sim _ (promotion_cast _ _) _ => eapply sim_promotion_cast; [req | gsolve]
    | |- sim _ (cast_operands _ _ _ _) _ => eapply sim_cast_operands; [req | req | gsolve | gsolve]
    | |- sim _ (int_of_bool _ _) _ => eapply sim_int_of_bool; [req | gsolve]
    | |- _ => scall2
    end.
  Ltac scall0 ::= scall3.

  Lemma sim_addr_of p pn : pn = rpval p -> gpval p -> sim 0 (addr_of cfg p) (addr_of cfg pn).
  Proof. intros He Hg. subst pn. ghyp Hg. unfold addr_of. ssteps. Qed.

  Lemma sim_as_pure w i i_n : i_n = ritem i -> gitem i -> sim 0 (as_pure w i) (as_pure w i_n).
  Proof. intros He Hg. subst i_n. destruct i; cbn [as_pure ritem]; ghyp Hg; ssteps. Qed.

  Ltac scall4 :=
    lazymatch goal with
    | |- sim _ (addr_of _ _) _ => eapply sim_addr_of; [req | gsolve]
    | |- sim _ (as_pure _ _) _ => eapply sim_as_pure; [req | gsolve]
    | |- _ => scall3
    end.
  Ltac scall0 ::= scall4.

  Lemma simplify_unary_ren u a :
    match simplify_unary cfg u a with
    | Some m0 => exists mn, simplify_unary cfg u (rpval a) = Some mn /\ sim 0 m0 mn
    | None => simplify_unary cfg u (rpval a) = None
    end.
  Proof.
    unfold simplify_unary. rsimp. destruct (pv_kind a); rsimp; try reflexivity;
      destruct u; try reflexivity; (eexists; split; [reflexivity | ssteps]).
  Qed.

  Lemma sim_lower_unop u i i_n : i_n = ritem i -> gitem i -> sim 0 (lower_unop cfg u i) (lower_unop cfg u i_n).
  Proof.
    intros He Hg. subst i_n.
    destruct u; cbn [lower_unop]; try solve [ssteps]; sstep;
      (match goal with
       | |- sim _ (match simplify_unary cfg ?U ?a with _ => _ end) _ =>
           pose proof (simplify_unary_ren U a) as Hsu; destruct (simplify_unary cfg U a) as [m0|];
           [ destruct Hsu as (mn & Hsu & Hsim) | ]; rsimp; rewrite Hsu
       end); ssteps.
  Qed.

  Lemma sim_lower_binop b i j i_n j_n :
    i_n = ritem i -> j_n = ritem j -> gitem i -> gitem j -> sim 0 (lower_binop cfg b i j) (lower_binop cfg b i_n j_n).
  Proof.
    intros Hi Hj Gi Gj. subst i_n j_n. destruct b; cbn [lower_binop]; ssteps.
  Qed.

  Lemma sim_resolve_one t : sim 0 (resolve_one t) (resolve_one t).
  Proof. destruct t; cbn [resolve_one]; ssteps. Qed.
  Ltac scall5 :=
    lazymatch goal with
    | |- sim _ (resolve_one _) _ => apply sim_resolve_one
    | |- _ => scall4
    end.
  Ltac scall0 ::= scall5.
  Lemma sim_resolve_cast_ty l : sim 0 (resolve_cast_ty l) (resolve_cast_ty l).
  Proof. unfold resolve_cast_ty. ssteps. Qed.
  Lemma sim_resolve_decl_ty l : sim 0 (resolve_decl_ty l) (resolve_decl_ty l).
  Proof.
    induction l as [|t l IH]; [cbn [resolve_decl_ty]; ssteps|].
    cbn [resolve_decl_ty]. destruct l as [|t' l']; [ssteps|]. destruct t; ssteps.
  Qed.

  Lemma sim_lower_cast t i i_n : i_n = ritem i -> gitem i -> sim 0 (lower_cast cfg t i) (lower_cast cfg t i_n).
  Proof.
    intros He Hg. subst i_n. unfold lower_cast.
    eapply sim_bind0; [apply sim_resolve_cast_ty|]. intros ty _. ssteps.
  Qed.

  Lemma sim_compound_src a d dn s0 sn :
    dn = rpval d -> sn = rpval s0 -> gpval d -> gpval s0 ->
    sim 0 (compound_src cfg a d s0) (compound_src cfg a dn sn).
  Proof.
    intros Ed Es Gd Gs. subst dn sn. ghyp Gd. ghyp Gs. destruct a; cbn [compound_src]; ssteps.
  Qed.

  Lemma sim_lower_args items : Forall gitem items -> forall ptypes,
    sim 0 (lower_args cfg items ptypes) (lower_args cfg (map ritem items) ptypes).
  Proof.
    induction items as [|i it IH]; intros Hg ptypes.
    - destruct ptypes; cbn [lower_args map]; ssteps.
    - inversion Hg as [|i' it' Hi Hit]; subst i' it'. specialize (IH Hit).
      destruct ptypes as [|pt ptt]; cbn [lower_args map]; [ssteps|].
      eapply sim_bind0; [apply IH|]. intros [rest tm] Hr. ghyp Hr. rsimp.
      destruct (vt_ext pt).
      + destruct i as [p| | | | | |]; cbn [ritem]; ghyp Hi; ssteps.
      + destruct i as [p| | | | | |]; cbn [ritem]; ghyp Hi; ssteps.
  Qed.


  (* ------------------------------------------------------------------ tables under the renaming *)
  Lemma lookup_rvar x l : gname x -> Forall gname (map fst l) -> lookup (shn x) (map rvar l) = lookup x l.
  Proof.
    intros Hx Hl. induction l as [|[y v] t IH]; [reflexivity|].
    cbn [map fst] in Hl. inversion Hl as [|y' t' Hy Ht]; subst y' t'.
    cbn [map rvar fst snd lookup]. rewrite (shn_eqb x y Hx Hy). rewrite (IH Ht). reflexivity.
  Qed.

  Lemma existsb_rvar x l : gname x -> Forall gname (map fst l) ->
    existsb (fun p => String.eqb (fst p) (shn x)) (map rvar l) = existsb (fun p => String.eqb (fst p) x) l.
  Proof.
    intros Hx Hl. induction l as [|[y v] t IH]; [reflexivity|].
    cbn [map fst] in Hl. inversion Hl as [|y' t' Hy Ht]; subst y' t'.
    cbn [map rvar fst snd existsb]. rewrite (shn_eqb y x Hy Hx). rewrite (IH Ht). reflexivity.
  Qed.

  Lemma map_set_rvar x (t : option vtype) l : gname x -> Forall gname (map fst l) ->
    map (fun p => if String.eqb (fst p) (shn x) then (shn x, t) else p) (map rvar l)
    = map rvar (map (fun p => if String.eqb (fst p) x then (x, t) else p) l).
  Proof.
    intros Hx Hl. induction l as [|[y v] r IH]; [reflexivity|].
    cbn [map fst] in Hl. inversion Hl as [|y' t' Hy Ht]; subst y' t'.
    cbn [map rvar fst snd]. rewrite (shn_eqb y x Hy Hx). rewrite (IH Ht).
    destruct (String.eqb y x); reflexivity.
  Qed.

  Lemma filter_rvar x l : gname x -> Forall gname (map fst l) ->
    filter (fun v => negb (String.eqb (fst v) (shn x))) (map rvar l)
    = map rvar (filter (fun v => negb (String.eqb (fst v) x)) l).
  Proof.
    intros Hx Hl. induction l as [|[y v] r IH]; [reflexivity|].
    cbn [map fst] in Hl. inversion Hl as [|y' t' Hy Ht]; subst y' t'.
    cbn [map rvar fst snd filter]. rewrite (shn_eqb y x Hy Hx). rewrite (IH Ht).
    destruct (String.eqb y x); reflexivity.
  Qed.

  Lemma good_map_set x (t : option vtype) l : gname x -> Forall gname (map fst l) ->
    Forall gname (map fst (map (fun p => if String.eqb (fst p) x then (x, t) else p) l)).
  Proof.
    intros Hx Hl. induction l as [|[y v] r IH]; [constructor|].
    cbn [map fst] in Hl. inversion Hl as [|y' t' Hy Ht]; subst y' t'.
    cbn [map fst]. constructor; [|exact (IH Ht)]. destruct (String.eqb y x); assumption.
  Qed.

  Lemma good_filter_vars (f : string * option vtype -> bool) l :
    Forall gname (map fst l) -> Forall gname (map fst (filter f l)).
  Proof.
    intros Hl. induction l as [|p r IH]; [constructor|].
    cbn [map] in Hl. inversion Hl as [|y' t' Hy Ht]; subst y' t'.
    cbn [filter]. destruct (f p); [cbn [map]; constructor; [exact Hy | exact (IH Ht)] | exact (IH Ht)].
  Qed.

  Lemma good_vars_app l x (t : option vtype) : Forall gname (map fst l) -> gname x -> Forall gname (map fst (l ++ [(x, t)])).
  Proof. intros Hl Hx. rewrite map_app. apply Forall_app. split; [exact Hl|]. constructor; [exact Hx | constructor]. Qed.

  (* ------------------------------------------------------------------ pending hybrids under the renaming *)
  Lemma pend_effect_ren p : pend_effect (rpend p) = reff (pend_effect p).
  Proof.
    unfold pend_effect, rpend. cbn [pd_pre pd_exec_first pd_hyb pd_set]. rewrite reff_seqn, map_app.
    destruct (pd_exec_first p); reflexivity.
  Qed.

  Lemma map_pend_effect_ren l : map pend_effect (map rpend l) = map reff (map pend_effect l).
  Proof. rewrite !map_map. apply map_ext. intros p. apply pend_effect_ren. Qed.

  Lemma flat_pd_tmps_ren l : flat_map pd_tmps (map rpend l) = map shn (flat_map pd_tmps l).
  Proof. induction l as [|p t IH]; [reflexivity|]. cbn [map flat_map]. rewrite IH, map_app. reflexivity. Qed.

  Lemma good_flat_pd_tmps l : Forall gpend l -> Forall gname (flat_map pd_tmps l).
  Proof.
    induction 1 as [|p t Hp Ht IH]; [constructor|]. cbn [flat_map]. apply Forall_app. split; [exact (proj2 Hp) | exact IH].
  Qed.

  Definition rpp (r : pend * list pend) : pend * list pend := (rpend (fst r), map rpend (snd r)).

  Lemma pop_pending_ren x l : gname x -> Forall gpend l ->
    pop_pending (shn x) (map rpend l) = option_map rpp (pop_pending x l).
  Proof.
    intros Hx Hl. induction Hl as [|p t Hp Ht IH]; [reflexivity|].
    cbn [map pop_pending]. unfold rpend at 1. cbn [pd_name]. rewrite (shn_eqb _ _ (proj1 Hp) Hx).
    destruct (String.eqb (pd_name p) x); [reflexivity|].
    rewrite IH. destruct (pop_pending x t) as [[q r]|]; reflexivity.
  Qed.

  Lemma pop_pending_good x l p r : Forall gpend l -> pop_pending x l = Some (p, r) -> gpend p /\ Forall gpend r.
  Proof.
    intros Hl. revert p r. induction Hl as [|q t Hq Ht IH]; intros p r Hp; [discriminate Hp|].
    cbn [pop_pending] in Hp. destruct (String.eqb (pd_name q) x).
    - inversion Hp; subst p r. split; assumption.
    - destruct (pop_pending x t) as [[q' r']|]; [|discriminate Hp]. inversion Hp; subst p r.
      destruct (IH q' r' eq_refl) as [H1 H2]. split; [exact H1 | constructor; assumption].
  Qed.

  Lemma collect_deps_ren names : Forall gname names -> forall l, Forall gpend l ->
    collect_deps (map shn names) (map rpend l)
    = (map rpend (fst (collect_deps names l)), map rpend (snd (collect_deps names l)))
    /\ Forall gpend (fst (collect_deps names l)) /\ Forall gpend (snd (collect_deps names l)).
  Proof.
    induction 1 as [|x t Hx Ht IH]; intros l Hl.
    - cbn [map collect_deps fst snd]. split; [reflexivity|]. split; [constructor | exact Hl].
    - cbn [map collect_deps]. rewrite (pop_pending_ren x l Hx Hl).
      destruct (pop_pending x l) as [[p r]|] eqn:Hp; cbn [option_map rpp fst snd].
      + destruct (pop_pending_good x l p r Hl Hp) as [Gp Gr].
        destruct (IH r Gr) as (E & G1 & G2). rewrite E.
        destruct (collect_deps t r) as [ds r']. cbn [fst snd map] in *. split; [reflexivity|].
        split; [constructor; assumption | exact G2].
      + exact (IH l Hl).
  Qed.

  (* ------------------------------------------------------------------ primitives that touch the state *)
  Ltac sopen := let s := fresh "s" in let Hs := fresh "Hs" in let Hb := fresh "Hb" in
                intros s Hs Hb; unfold bind, get, put, ret, fail;
                cbn [rstate st_vars st_regs st_pending st_hcount st_imms st_nonempty st_removed].

  Lemma sim_touch : sim 0 touch touch.
  Proof.
    intros s Hs Hb. unfold touch. split; [reflexivity|]. split; [exact Hs|]. split; [cbn [st_hcount]; lia | exact I].
  Qed.

  Lemma sim_add_reg name ri : sim 0 (add_reg name ri) (add_reg name ri).
  Proof.
    unfold add_reg. sopen. destruct (lookup_reg_info name (st_regs s)) as [old|].
    - split; [reflexivity|]. split; [exact Hs|]. split; [lia|]. split; [exact I | constructor].
    - split; [reflexivity|]. split; [exact Hs|]. split; [cbn [st_hcount]; lia|]. split; [exact I | constructor].
  Qed.

  Ltac scall6 :=
    lazymatch goal with
    | |- sim _ touch _ => apply sim_touch
    | |- sim _ (add_reg _ _) _ => apply sim_add_reg
    | |- _ => scall5
    end.
  Ltac scall0 ::= scall6.

  Lemma sim_lower_reg cls letters new : sim 0 (lower_reg cls letters new) (lower_reg cls letters new).
  Proof. unfold lower_reg. ssteps. Qed.

  Lemma sim_set_var x xn t : xn = shn x -> gname x -> sim 0 (set_var x t) (set_var xn t).
  Proof.
    intros He Hx. subst xn. unfold set_var. sopen. cbv zeta.
    destruct Hs as (Hv & Hp & Hi).
    rewrite (existsb_rvar x _ Hx Hv).
    destruct (existsb (fun p => String.eqb (fst p) x) (st_vars s)).
    - split; [unfold rstate; cbn [st_vars st_regs st_pending st_hcount st_imms st_nonempty st_removed];
              rewrite (map_set_rvar x t _ Hx Hv); reflexivity|].
      split; [split; [apply good_map_set; assumption | split; assumption]|].
      split; [cbn [st_hcount]; lia | exact I].
    - split; [unfold rstate; cbn [st_vars st_regs st_pending st_hcount st_imms st_nonempty st_removed];
              rewrite map_app; reflexivity|].
      split; [split; [apply good_vars_app; assumption | split; assumption]|].
      split; [cbn [st_hcount]; lia | exact I].
  Qed.

  Lemma sim_resolve_hybrid ty rd0 rdn hyb hybn ef gcc tmps tmpsn tree :
    rdn = rpure rd0 -> hybn = reff hyb -> tmpsn = map shn tmps -> Forall gname tmps ->
    sim 1 (resolve_hybrid ty rd0 hyb ef gcc tmps tree) (resolve_hybrid ty rdn hybn ef gcc tmpsn tree).
  Proof.
    intros Er Eh Et Gt. subst rdn hybn tmpsn. unfold resolve_hybrid.
    destruct (vt_void ty); [apply sim_ret; [reflexivity | exact Gt]|].
    unfold set_var. sopen. cbv zeta.
    change ("h_tmp" +++ string_of_N (st_hcount s)) with (hname (st_hcount s)).
    change ("h_tmp" +++ string_of_N (n + st_hcount s)) with (hname (n + st_hcount s)).
    assert (Hnm : gname (hname (st_hcount s))) by (apply gname_hname; lia).
    assert (Enm : hname (n + st_hcount s) = shn (hname (st_hcount s))).
    { rewrite shn_hname by lia. f_equal. lia. }
    rewrite Enm. set (nm := hname (st_hcount s)) in *.
    destruct Hs as (Hv & Hp & Hi).
    rewrite (existsb_rvar nm _ Hnm Hv).
    destruct (collect_deps_ren (nm :: tmps) (Forall_cons _ Hnm Gt) _ Hp) as (Ecd & Gd & Gr).
    change (shn nm :: map shn tmps) with (map shn (nm :: tmps)).
    rewrite Ecd.
    destruct (collect_deps (nm :: tmps) (st_pending s)) as [deps rest]. cbn [fst snd] in *.
    assert (Hfin :
      OK (IPure (mkpv (PVarL (shn nm)) (set_hybrid_vt ty) (KTmp (shn nm) gcc) [shn nm]),
          mkst (if existsb (fun p => String.eqb (fst p) nm) (st_vars s)
                then map (fun p => if String.eqb (fst p) (shn nm) then (shn nm, Some (set_hybrid_vt ty)) else p) (map rvar (st_vars s))
                else (map rvar (st_vars s) ++ [(shn nm, Some (set_hybrid_vt ty))])%list)
               (st_regs s)
               (map rpend rest ++
                [mkpend (shn nm) (map pend_effect (map rpend deps)) (reff hyb) (ESetL (shn nm) (rpure rd0)) ef
                        (flat_map pd_tmps (map rpend deps) ++ map shn (nm :: tmps))])%list
               (n + st_hcount s + 1) (map reff (st_imms s)) true (map shn (st_removed s)))
      = OK (ren (IPure (mkpv (PVarL nm) (set_hybrid_vt ty) (KTmp nm gcc) [nm])),
            rstate (mkst (if existsb (fun p => String.eqb (fst p) nm) (st_vars s)
                          then map (fun p => if String.eqb (fst p) nm then (nm, Some (set_hybrid_vt ty)) else p) (st_vars s)
                          else (st_vars s ++ [(nm, Some (set_hybrid_vt ty))])%list)
                         (st_regs s)
                         (rest ++ [mkpend nm (map pend_effect deps) hyb (ESetL nm rd0) ef (flat_map pd_tmps deps ++ nm :: tmps)])%list
                         (st_hcount s + 1) (st_imms s) true (st_removed s)))).
    { f_equal. f_equal. unfold rstate. cbn [st_vars st_regs st_pending st_hcount st_imms st_nonempty st_removed].
      f_equal.
      - destruct (existsb (fun p => String.eqb (fst p) nm) (st_vars s)).
        + apply (map_set_rvar nm _ _ Hnm Hv).
        + rewrite map_app. reflexivity.
      - rewrite map_app. f_equal. cbn [map]. f_equal. unfold rpend. cbn [pd_name pd_pre pd_hyb pd_set pd_exec_first pd_tmps].
        rewrite map_pend_effect_ren, flat_pd_tmps_ren, map_app. reflexivity.
      - lia. }
    assert (Hgood :
      gst (mkst (if existsb (fun p => String.eqb (fst p) nm) (st_vars s)
                 then map (fun p => if String.eqb (fst p) nm then (nm, Some (set_hybrid_vt ty)) else p) (st_vars s)
                 else (st_vars s ++ [(nm, Some (set_hybrid_vt ty))])%list)
                (st_regs s)
                (rest ++ [mkpend nm (map pend_effect deps) hyb (ESetL nm rd0) ef (flat_map pd_tmps deps ++ nm :: tmps)])%list
                (st_hcount s + 1) (st_imms s) true (st_removed s))).
    { split; [|split]; cbn [st_vars st_pending st_imms].
      - destruct (existsb (fun p => String.eqb (fst p) nm) (st_vars s)); [apply good_map_set | apply good_vars_app]; assumption.
      - apply Forall_app. split; [exact Gr|]. constructor; [|constructor]. split; cbn [pd_name pd_tmps]; [exact Hnm|].
        apply Forall_app. split; [apply good_flat_pd_tmps; exact Gd | constructor; assumption].
      - exact Hi. }
    assert (Hitem : good (IPure (mkpv (PVarL nm) (set_hybrid_vt ty) (KTmp nm gcc) [nm]))).
    { split; [exact Hnm | constructor; [exact Hnm | constructor]]. }
    destruct (st_pending s) as [|p0 pl]; cbn [map].
    - split; [exact Hfin|]. split; [exact Hgood|]. split; [cbn [st_hcount]; lia | exact Hitem].
    - destruct tree; [reflexivity|].
      split; [exact Hfin|]. split; [exact Hgood|]. split; [cbn [st_hcount]; lia | exact Hitem].
  Qed.

  Lemma lookup_rvar_user x l : is_htmp x = false -> Forall gname (map fst l) -> lookup x (map rvar l) = lookup x l.
  Proof. intros Hx Hl. pose proof (lookup_rvar x l (or_introl Hx) Hl) as H. rewrite (shn_user x Hx) in H. exact H. Qed.
  Lemma existsb_rvar_user x l : is_htmp x = false -> Forall gname (map fst l) ->
    existsb (fun p => String.eqb (fst p) x) (map rvar l) = existsb (fun p => String.eqb (fst p) x) l.
  Proof. intros Hx Hl. pose proof (existsb_rvar x l (or_introl Hx) Hl) as H. rewrite (shn_user x Hx) in H. exact H. Qed.

  Ltac runf := rsimp; unfold rpval, rleff, rstate; rsimp;
               cbn [st_vars st_regs st_pending st_hcount st_imms st_nonempty st_removed].

  Definition op_ok (o : operand) : Prop :=
    match o with OIdent x | OImm x => is_htmp x = false | _ => True end.

  Ltac scall7 :=
    lazymatch goal with
    | |- sim _ (lower_reg _ _ _) _ => apply sim_lower_reg
    | |- sim _ (set_var _ _) _ => eapply sim_set_var; [req | gsolve]
    | |- _ => scall6
    end.
  Ltac scall0 ::= scall7.

  Lemma sim_lower_operand o : op_ok o -> sim 0 (lower_operand cfg o) (lower_operand cfg o).
  Proof.
    intros Hok. destruct o as [cls l|cls l|name new|name new|letter|v hex suf|name|tx|tx]; cbn [lower_operand op_ok] in *.
    - ssteps.
    - ssteps.
    - ssteps.
    - ssteps.
    - (* OImm *)
      sopen. destruct Hs as (Hv & Hp & Hi). rewrite (lookup_rvar_user letter _ Hok Hv).
      destruct (lookup letter (st_vars s)) as [[t|]|].
      + split; [runf; rewrite (shn_user _ Hok); reflexivity|].
        split; [repeat split; assumption|]. split; [lia|]. split; [left; exact Hok | constructor].
      + reflexivity.
      + split; [runf;
                rewrite !map_app; cbn [map reff rpure]; unfold rvar; cbn [fst snd]; rewrite !(shn_user _ Hok); reflexivity|].
        split; [split; [apply good_vars_app; [exact Hv | left; exact Hok] | split; [exact Hp|]]|].
        * cbn [st_imms]. apply Forall_app. split; [exact Hi | constructor; [exact Hok | constructor]].
        * split; [cbn [st_hcount]; lia|]. split; [left; exact Hok | constructor].
    - (* ONum *) ssteps.
    - (* OIdent *)
      destruct (lookup name (cfg_params cfg)); [ssteps|].
      sopen. destruct Hs as (Hv & Hp & Hi). rewrite (lookup_rvar_user name _ Hok Hv).
      pose proof Hok as Hok'. unfold is_htmp in Hok'. rewrite Hok'.
      destruct (lookup name (st_vars s)) as [[t|]|].
      + split; [runf; rewrite (shn_user _ Hok); reflexivity|].
        split; [repeat split; assumption|]. split; [lia|]. split; [left; exact Hok | constructor].
      + split; [runf; rewrite (shn_user _ Hok); reflexivity|].
        split; [repeat split; assumption|]. split; [lia|]. split; [left; exact Hok | constructor].
      + destruct (existsb (String.eqb name) ["EA"; "i"; "k"; "j"]).
        * split; [runf;
                  rewrite !map_app; cbn [map]; unfold rvar; cbn [fst snd]; rewrite !(shn_user _ Hok); reflexivity|].
          split; [split; [apply good_vars_app; [exact Hv | left; exact Hok] | split; assumption]|].
          split; [cbn [st_hcount]; lia|]. split; [left; exact Hok | constructor].
        * split; [reflexivity|]. split; [repeat split; assumption|]. split; [lia | exact I].
    - ssteps.
    - ssteps.
  Qed.

  Lemma sim_add_write_property name : sim 0 (add_write_property name) (add_write_property name).
  Proof.
    unfold add_write_property. sopen. destruct (lookup_reg_info name (st_regs s)) as [ri|].
    - split; [reflexivity|]. split; [exact Hs|]. split; [cbn [st_hcount]; lia | exact I].
    - split; [reflexivity|]. split; [exact Hs|]. split; [lia | exact I].
  Qed.

  Ltac scall8 :=
    lazymatch goal with
    | |- sim _ (add_write_property _) _ => apply sim_add_write_property
    | |- _ => scall7
    end.
  Ltac scall0 ::= scall8.

  Lemma sim_mk_assign d dn s0 sn : dn = rpval d -> sn = rpval s0 -> gpval d -> gpval s0 ->
    sim 0 (mk_assign d s0) (mk_assign dn sn).
  Proof. intros Ed Es Gd Gs. subst dn sn. ghyp Gd. ghyp Gs. unfold mk_assign. ssteps. Qed.

  Lemma is_htmp_rm x : is_htmp ("rm:" +++ x) = false.
  Proof. unfold is_htmp. cbn [append substring]. reflexivity. Qed.

  Lemma sim_rm_op p pn : pn = rpval p -> gpval p -> sim 0 (rm_op p) (rm_op pn).
  Proof.
    intros He Hg. subst pn. unfold rm_op. rsimp. destruct Hg as [Hk Ht].
    destruct (pv_kind p) as [| | |r|x|x g| | |] eqn:Hkind; rsimp; try solve [ssteps].
    - (* KReg *) sopen. destruct (vt_hyb (pv_ty p)); [reflexivity|].
      split; [unfold rstate; cbn [st_vars st_regs st_pending st_hcount st_imms st_nonempty st_removed map];
              rewrite (shn_user _ (is_htmp_rm r)); reflexivity|].
      split; [exact Hs|]. split; [cbn [st_hcount]; lia | exact I].
    - (* KVar *) sopen. destruct (vt_hyb (pv_ty p)); [reflexivity|]. destruct Hs as (Hv & Hp & Hi). cbn [gkind] in Hk.
      split; [unfold rstate; cbn [st_vars st_regs st_pending st_hcount st_imms st_nonempty st_removed map];
              rewrite (filter_rvar x _ Hk Hv); reflexivity|].
      split; [split; [apply good_filter_vars; exact Hv | split; assumption]|].
      split; [cbn [st_hcount]; lia | exact I].
    - (* KTmp *) sopen. destruct Hs as (Hv & Hp & Hi). cbn [gkind] in Hk.
      rewrite (pop_pending_ren x _ Hk Hp).
      destruct (pop_pending x (st_pending s)) as [[q rest]|] eqn:Hpop; cbn [option_map rpp fst snd]; [|reflexivity].
      destruct (pop_pending_good _ _ _ _ Hp Hpop) as [Gq Gr].
      split; [reflexivity|]. split; [split; [exact Hv | split; [exact Gr | exact Hi]]|].
      split; [cbn [st_hcount]; lia | exact I].
  Qed.

  Lemma sim_update_gcc_branch x xn c cn arm : xn = shn x -> cn = rpure c -> gname x ->
    sim 0 (update_gcc_branch x c arm) (update_gcc_branch xn cn arm).
  Proof.
    intros Ex Ec Hx. subst xn cn. unfold update_gcc_branch. sopen. destruct Hs as (Hv & Hp & Hi).
    split; [|split; [split; [exact Hv | split; [|exact Hi]]|split; [cbn [st_hcount]; lia | exact I]]].
    - unfold rstate. cbn [st_vars st_regs st_pending st_hcount st_imms st_nonempty st_removed]. do 2 f_equal.
      f_equal. clear Hb Hv Hi. induction Hp as [|p t Gp Gt IH]; [reflexivity|].
      cbn [map]. rewrite IH. f_equal. unfold rpend at 1. cbn [pd_name pd_pre pd_hyb pd_set pd_exec_first pd_tmps].
      rewrite (shn_eqb _ _ (proj1 Gp) Hx). destruct (String.eqb (pd_name p) x); [|reflexivity].
      unfold rpend. cbn [pd_name pd_pre pd_hyb pd_set pd_exec_first pd_tmps]. destruct arm; reflexivity.
    - cbn [st_pending]. clear Hb Hv Hi. induction Hp as [|p t Gp Gt IH]; [constructor|].
      cbn [map]. constructor; [|exact IH]. destruct (String.eqb (pd_name p) x); [|exact Gp].
      exact Gp.
  Qed.

  Lemma sim_chk_hybrid_dep e en sq tr : en = rleff e -> gleff e -> sim 0 (chk_hybrid_dep e sq tr) (chk_hybrid_dep en sq tr).
  Proof.
    intros Ee Ge. subst en. unfold chk_hybrid_dep. sopen. destruct Hs as (Hv & Hp & Hi).
    destruct (collect_deps_ren (le_tmps e) Ge _ Hp) as (Ecd & Gd & Gr).
    assert (Hsame : OK (rleff e, rstate s) = OK (ren e, rstate s) /\ gst s /\ (st_hcount s <= st_hcount s + 0)%N /\ good e).
    { split; [reflexivity|]. split; [repeat split; assumption|]. split; [lia | exact Ge]. }
    destruct (st_pending s) as [|p0 pl] eqn:Hpend; cbn [map]; [exact Hsame|].
    destruct tr; [reflexivity|].
    change (rpend p0 :: map rpend pl) with (map rpend (p0 :: pl)). cbn [le_tmps rleff]. rewrite Ecd.
    destruct (collect_deps (le_tmps e) (p0 :: pl)) as [deps rest]. cbn [fst snd] in *.
    destruct deps as [|d ds]; cbn [map]; [exact Hsame|].
    change (rpend d :: map rpend ds) with (map rpend (d :: ds)).
    split; [|split; [split; [exact Hv | split; [exact Gr | exact Hi]]|split; [cbn [st_hcount]; lia|]]].
    - f_equal. f_equal. rsimp. unfold rleff. cbn [le_term le_tmps le_empty].
      destruct sq; cbn [map flat_map]; unfold rpend at 2; cbn [pd_tmps];
        rewrite ?pend_effect_ren, ?map_pend_effect_ren, ?flat_pd_tmps_ren, ?reff_seqn, ?map_app; cbn [map];
        rewrite ?map_app; reflexivity.
    - rsimp. unfold gleff. cbn [le_tmps]. destruct sq; apply Forall_app; split;
        first [exact Ge | apply good_flat_pd_tmps; exact Gd].
  Qed.

  (* the test "would chk_hybrid_dep wrap?" has the same answer in both runs: the dependencies found under the
     renaming are the renamed dependencies (collect_deps_ren) *)
  Lemma sim_hyb_wrapped e en : en = rleff e -> gleff e -> sim 0 (hyb_wrapped e) (hyb_wrapped en).
  Proof.
    intros Ee Ge. subst en. unfold hyb_wrapped. sopen. destruct Hs as (Hv & Hp & Hi).
    destruct (collect_deps_ren (le_tmps e) Ge _ Hp) as (Ecd & _ & _).
    split; [|split; [repeat split; assumption | split; [lia | exact I]]].
    f_equal. f_equal. cbn [ren Ren_bool].
    destruct (st_pending s) as [|p0 pl] eqn:Hpend; cbn [map]; [reflexivity|].
    change (rpend p0 :: map rpend pl) with (map rpend (p0 :: pl)). cbn [le_tmps rleff]. rewrite Ecd.
    cbn [fst]. destruct (fst (collect_deps (le_tmps e) (p0 :: pl))); reflexivity.
  Qed.

  Ltac scall9 :=
    lazymatch goal with
    | |- sim _ (mk_assign _ _) _ => eapply sim_mk_assign; [req | req | gsolve | gsolve]
    | |- sim _ (hyb_wrapped _) _ => eapply sim_hyb_wrapped; [req | gsolve]
    | |- sim _ (rm_op _) _ => eapply sim_rm_op; [req | gsolve]
    | |- sim _ (update_gcc_branch _ _ _) _ => eapply sim_update_gcc_branch; [req | req | gsolve]
    | |- sim _ (chk_hybrid_dep _ _ _) _ => eapply sim_chk_hybrid_dep; [req | gsolve]
    | |- sim _ (lower_operand _ _) _ => apply sim_lower_operand
    | |- sim _ (lower_cast _ _ _) _ => eapply sim_lower_cast; [req | gsolve]
    | |- sim _ (lower_unop _ _ _) _ => eapply sim_lower_unop; [req | gsolve]
    | |- sim _ (lower_binop _ _ _ _) _ => eapply sim_lower_binop; [req | req | gsolve | gsolve]
    | |- sim _ (compound_src _ _ _ _) _ => eapply sim_compound_src; [req | req | gsolve | gsolve]
    | |- sim _ (lower_args _ _ _) _ => eapply sim_lower_args; gsolve
    | |- sim _ (decl_type _) _ => apply sim_resolve_decl_ty
    | |- sim _ (resolve_decl_ty _) _ => apply sim_resolve_decl_ty
    | |- sim _ get _ => apply sim_get
    | |- _ => scall8
    end.
  Ltac scall0 ::= scall9.

  (* ================================================================== the side conditions, syntactically *)
  (* an upper bound on the number of temporaries a term creates: x++ / x--, calls, statement-expressions *)
  Fixpoint hb_expr (e : cexpr) : N :=
    match e with
    | EOp _ => 0
    | ECast _ a | EUn _ a => hb_expr a
    | EBin _ l r | EAssign _ l r | EComma l r => hb_expr l + hb_expr r
    | ECond c t f => hb_expr c + hb_expr t + hb_expr f
    | EPost _ a => 1 + hb_expr a
    | ECall _ args => 1 + hb_exprs args
    | EMacro _ args | ELoad _ _ args => hb_exprs args
    | EStmtExpr items last => 1 + hb_stmts items + hb_stmt last
    | EIndex _ _ | EMember _ _ | EPtrMember _ _ | ECallEmpty _ | ESizeofT _ | EOther _ => 0
    end%N
  with hb_exprs (l : cexprs) : N :=
    match l with ENil => 0 | ECons e t => hb_expr e + hb_exprs t end%N
  with hb_stmt (s : cstmt) : N :=
    match s with
    | SExpr e | SJump e => hb_expr e
    | SDecl _ _ init | SReturn init => match init with Some e => hb_expr e | None => 0 end
    | SIf c t e => hb_expr c + hb_stmt t + match e with Some x => hb_stmt x | None => 0 end
    | SFor i c st b => hb_stmt i + hb_stmt c + match st with Some x => hb_expr x | None => 0 end + hb_stmt b
    | SBlock l => hb_stmts l
    | SStore _ _ args => hb_exprs args
    | SLabel _ st | SCase st => hb_stmt st
    | _ => 0
    end%N
  with hb_stmts (l : cstmts) : N :=
    match l with SNil => 0 | SCons s t => hb_stmt s + hb_stmts t end%N.

  (* no identifier of the program (variable, immediate, declared name) starts with "h_tmp";
     every sub-term position of every constructor is descended into *)
  Definition nh_operand (o : operand) : bool :=
    match o with OIdent x | OImm x => negb (is_htmp x) | _ => true end.
  Fixpoint nh_expr (e : cexpr) : bool :=
    match e with
    | EOp o => nh_operand o
    | ECast _ a | EUn _ a | EPost _ a | EMember a _ | EPtrMember a _ | ECallEmpty a => nh_expr a
    | EBin _ l r | EAssign _ l r | EComma l r | EIndex l r => nh_expr l && nh_expr r
    | ECond c t f => nh_expr c && nh_expr t && nh_expr f
    | ECall _ args | EMacro _ args | ELoad _ _ args => nh_exprs args
    | EStmtExpr items last => nh_stmts items && nh_stmt last
    | ESizeofT _ | EOther _ => true
    end
  with nh_exprs (l : cexprs) : bool :=
    match l with ENil => true | ECons e t => nh_expr e && nh_exprs t end
  with nh_stmt (s : cstmt) : bool :=
    match s with
    | SExpr e | SJump e => nh_expr e
    | SDecl _ x init => negb (is_htmp x) && match init with Some e => nh_expr e | None => true end
    | SReturn init => match init with Some e => nh_expr e | None => true end
    | SIf c t e => nh_expr c && nh_stmt t && match e with Some x => nh_stmt x | None => true end
    | SFor i c st b => nh_stmt i && nh_stmt c && match st with Some x => nh_expr x | None => true end && nh_stmt b
    | SBlock l => nh_stmts l
    | SStore _ _ args => nh_exprs args
    | SWhile c b | SSwitch c b => nh_expr c && nh_stmt b
    | SDo b c => nh_stmt b && nh_expr c
    | SLabel _ st | SCase st => nh_stmt st
    | SEmpty | SDeclOther _ | SNop | SCancel | SGoto _ | SBreak | SContinue => true
    end
  with nh_stmts (l : cstmts) : bool :=
    match l with SNil => true | SCons s t => nh_stmt s && nh_stmts t end.

  Lemma nh_operand_ok o : nh_operand o = true -> op_ok o.
  Proof. destruct o; cbn [nh_operand op_ok]; intros H; try exact I; apply negb_true_iff in H; exact H. Qed.

  (* ------------------------------------------------------------------ fragments of lower_expr that read and write the state *)
  Definition mark_reg (r : string) : M unit :=
    do s0 <- get;
    match lookup_reg_info r (st_regs s0) with
    | Some ri => put (mkst (st_vars s0) (update_reg_info r (mkreg (r_op ri) (set_hybrid_vt (r_ty ri)) (r_acc ri) (r_x ri) (r_pc ri) (r_new ri)) (st_regs s0))
                           (st_pending s0) (st_hcount s0) (st_imms s0) (st_nonempty s0) (st_removed s0))
    | None => ret tt
    end.
  Lemma sim_mark_reg r : sim 0 (mark_reg r) (mark_reg r).
  Proof.
    unfold mark_reg. sopen. destruct (lookup_reg_info r (st_regs s)) as [ri|].
    - split; [reflexivity|]. split; [exact Hs|]. split; [cbn [st_hcount]; lia | exact I].
    - split; [reflexivity|]. split; [exact Hs|]. split; [lia | exact I].
  Qed.

  Definition mark_var (x : string) : M unit :=
    do s0 <- get;
    match lookup x (st_vars s0) with
    | Some (Some t) => set_var x (Some (set_hybrid_vt t))
    | _ => ret tt
    end.
  Lemma sim_mark_var x xn : xn = shn x -> gname x -> sim 0 (mark_var x) (mark_var xn).
  Proof.
    intros Ex Hx. subst xn. unfold mark_var. eapply sim_bind0; [apply sim_get|].
    intros a Ha. rsimp. cbn [rstate st_vars]. rewrite (lookup_rvar x _ Hx (proj1 Ha)).
    destruct (lookup x (st_vars a)) as [[t|]|]; ssteps.
  Qed.

  Lemma post_reg_eq {B} r (K : M B) :
    bind get (fun s0 =>
      bind (match lookup_reg_info r (st_regs s0) with
            | Some ri => put (mkst (st_vars s0) (update_reg_info r (mkreg (r_op ri) (set_hybrid_vt (r_ty ri)) (r_acc ri) (r_x ri) (r_pc ri) (r_new ri)) (st_regs s0))
                                   (st_pending s0) (st_hcount s0) (st_imms s0) (st_nonempty s0) (st_removed s0))
            | None => ret tt
            end) (fun _ => K))
    = bind (mark_reg r) (fun _ => K).
  Proof. reflexivity. Qed.
  Lemma post_var_eq {B} x (K : M B) :
    bind get (fun s0 =>
      bind (match lookup x (st_vars s0) with
            | Some (Some t) => set_var x (Some (set_hybrid_vt t))
            | _ => ret tt
            end) (fun _ => K))
    = bind (mark_var x) (fun _ => K).
  Proof. reflexivity. Qed.
  Ltac shook1 :=
    match goal with
    | |- sim _ (bind get (fun s0 => bind (match lookup_reg_info ?r (st_regs s0) with _ => _ end) _)) _ => rewrite !post_reg_eq
    | |- sim _ (bind get (fun s0 => bind (match lookup ?x (st_vars s0) with _ => _ end) _)) _ => rewrite !post_var_eq
    | |- context [existsb _ (map rvar _)] => rewrite existsb_rvar_user by assumption
    | |- context [lookup _ (map rvar _)] => rewrite lookup_rvar_user by assumption
    end.
  Ltac shook ::= shook1.

  Ltac scall10 :=
    lazymatch goal with
    | |- sim _ (mark_reg _) _ => apply sim_mark_reg
    | |- sim _ (mark_var _) _ => eapply sim_mark_var; [req | gsolve]
    | |- _ => scall9
    end.
  Ltac scall0 ::= scall10.
  Ltac scallb ::= first [ eassumption | eapply sim_resolve_hybrid; [req | req | req | gsolve] ].

  Ltac prep :=
    cbn [nh_expr nh_exprs nh_stmt nh_stmts hb_expr hb_exprs hb_stmt hb_stmts opt_all] in *;
    fold nh_expr nh_exprs nh_stmt nh_stmts hb_expr hb_exprs hb_stmt hb_stmts in *;
    repeat match goal with
           | H : _ && _ = true |- _ => apply andb_true_iff in H; destruct H
           | H : negb _ = true |- _ => apply negb_true_iff in H
           | H : ?P -> _, H' : ?P |- _ => specialize (H H')
           end.

  Ltac hcase := prep; unf cfg.

  Lemma hshift_sim_all :
    (forall e, nh_expr e = true -> sim (hb_expr e) (lower_expr cfg e) (lower_expr cfg e)) /\
    (forall l, nh_exprs l = true -> sim (hb_exprs l) (lower_exprs cfg l) (lower_exprs cfg l)) /\
    (forall s, nh_stmt s = true -> sim (hb_stmt s) (lower_stmt cfg s) (lower_stmt cfg s)) /\
    (forall l, nh_stmts l = true -> sim (hb_stmts l) (lower_stmts cfg l) (lower_stmts cfg l)).
  Proof.
    apply ast_full_ind.
    - (* EOp *) intros o Hnh. hcase. apply sim_lower_operand. apply nh_operand_ok. exact Hnh.
    - (* ECast *) intros t e IHe Hnh. hcase. ssteps.
    - (* EUn *) intros u e IHe Hnh. hcase. ssteps.
    - (* EBin *) intros b l r IHl IHr Hnh. hcase. ssteps.
    - (* ECond *) intros c t e IHc IHt IHe Hnh. hcase. ssteps.
    - (* EAssign *) intros a l r IHl IHr Hnh. hcase. ssteps.
    - (* EPost *) intros i e IHe Hnh. hcase. ssteps.
    - (* ECall *) intros f args IHa Hnh. hcase. ssteps.
    - (* EMacro *) intros m args IHa Hnh. hcase. ssteps.
      match goal with |- sim _ (bind (?go ?l) _) _ =>
        assert (Hgo : forall al, sim 0 (go al) (go (map rarg al))) end.
      { induction al as [|x t IH]; cbn [map].
        - cbv beta iota fix. sstep.
        - destruct x as [p|r|s]; cbn [rarg]; cbv beta iota fix; fold (map rarg t).
          + eapply sim_bind0; [exact IH|]. intros r Hr. sstep.
          + destruct r; try apply sim_fail. eapply sim_bind0; [exact IH|]. intros r Hr. sstep.
          + eapply sim_bind0; [exact IH|]. intros r Hr. sstep. }
      eapply sim_bind0; [apply Hgo|]. intros ps Hps. ssteps.
    - (* ELoad *) intros sg w args IHa Hnh. hcase. ssteps.
    - (* EStmtExpr *) intros items last IHi IHl Hnh. hcase. ssteps.
    - (* EComma *) intros l r IHl IHr Hnh. hcase. ssteps.
    - (* EIndex *) intros a i IHa IHi Hnh. hcase. ssteps.
    - (* EMember *) intros a f IHa Hnh. hcase. ssteps.
    - (* EPtrMember *) intros a f IHa Hnh. hcase. ssteps.
    - (* ECallEmpty *) intros a IHa Hnh. hcase. ssteps.
    - (* ESizeofT *) intros t Hnh. hcase. ssteps.
    - (* EOther *) intros w Hnh. hcase. ssteps.
    - (* ENil *) intros Hnh. hcase. ssteps.
    - (* ECons *) intros e t IHe IHt Hnh. hcase. ssteps.
    - (* SExpr *) intros e IHe Hnh. hcase. ssteps.
    - (* SEmpty *) intros Hnh. hcase. ssteps.
    - (* SDecl *) intros t x init IHi Hnh. destruct init as [e|]; hcase; ssteps.
    - (* SDeclOther *) intros w Hnh. hcase. ssteps.
    - (* SIf *) intros c t e IHc IHt IHe Hnh. destruct e as [e|]; hcase; ssteps.
    - (* SFor *) intros i c s b IHi IHc IHs IHb Hnh. destruct s as [st|]; hcase.
      + ssteps.
        eapply (sim_bind (hb_expr st)).
        { eapply sim_bind; [exact IHs | apply N.le_refl |]. intros x Hx.
          apply sim_ret; [reflexivity | constructor; [exact Hx | constructor]]. }
        { lia. }
        intros is_ His. cbv beta. ssteps.
      + ssteps.
    - (* SBlock *) intros l IHl Hnh. hcase. ssteps.
    - (* SStore *) intros sg w args IHa Hnh. hcase. ssteps.
    - (* SJump *) intros e IHe Hnh. hcase. ssteps.
    - (* SNop *) intros Hnh. hcase. ssteps.
    - (* SCancel *) intros Hnh. hcase. ssteps.
    - (* SReturn *) intros e IHe Hnh. destruct e as [e|]; hcase; ssteps.
    - (* SWhile *) intros c b IHc IHb Hnh. hcase. ssteps.
    - (* SDo *) intros b c IHb IHc Hnh. hcase. ssteps.
    - (* SSwitch *) intros c b IHc IHb Hnh. hcase. ssteps.
    - (* SLabel *) intros l s IHs Hnh. hcase. ssteps.
    - (* SCase *) intros s IHs Hnh. hcase. ssteps.
    - (* SGoto *) intros l Hnh. hcase. ssteps.
    - (* SBreak *) intros Hnh. hcase. ssteps.
    - (* SContinue *) intros Hnh. hcase. ssteps.
    - (* SNil *) intros Hnh. hcase. ssteps.
    - (* SCons *) intros s t IHs IHt Hnh. hcase. ssteps.
  Qed.

  (* ================================================================== finalisation *)
  Lemma pure_nind (P : pure -> Prop)
    (HBv : forall sg w v, P (PBv sg w v))
    (HBool : forall b, P (PBool b))
    (HVarL : forall x, P (PVarL x))
    (HVarLP : forall x, P (PVarLP x))
    (HLet : forall x e b, P e -> P b -> P (PLet x e b))
    (HReg : forall r nw, P (PReg r nw))
    (HImm : forall l sg w, P (PImm l sg w))
    (HPkt : P PPktAddr)
    (HParam : forall x, P (PParam x))
    (HUn : forall o a, P a -> P (PUn o a))
    (HBin : forall o a b, P a -> P b -> P (PBin o a b))
    (HCmp : forall o a b, P a -> P b -> P (PCmp o a b))
    (HCast : forall w f a, P f -> P a -> P (PCast w f a))
    (HMsb : forall a, P a -> P (PMsb a))
    (HNonZero : forall a, P a -> P (PNonZero a))
    (HInv : forall a, P a -> P (PInv a))
    (HAnd : forall a b, P a -> P b -> P (PAnd a b))
    (HOr : forall a b, P a -> P b -> P (POr a b))
    (HIte : forall c a b, P c -> P a -> P b -> P (PIte c a b))
    (HLoad : forall w a, P a -> P (PLoad w a))
    (HSignExt : forall sg w a, P a -> P (PSignExt sg w a))
    (HIncDec : forall i a w, P a -> P (PIncDec i a w))
    (HApp : forall h l, Forall P l -> P (PApp h l))
    (HRaw : forall s, P (PRaw s)) : forall p, P p.
  Proof.
    fix IH 1.
    intros [sg w v|b|x|x|x e b|r nw|l sg w| |x|o a|o a b|o a b|w f a|a|a|a|a b|a b|c a b|w a|sg w a|i a w|h l|s].
    - apply HBv.
    - apply HBool.
    - apply HVarL.
    - apply HVarLP.
    - apply HLet; apply IH.
    - apply HReg.
    - apply HImm.
    - apply HPkt.
    - apply HParam.
    - apply HUn; apply IH.
    - apply HBin; apply IH.
    - apply HCmp; apply IH.
    - apply HCast; apply IH.
    - apply HMsb; apply IH.
    - apply HNonZero; apply IH.
    - apply HInv; apply IH.
    - apply HAnd; apply IH.
    - apply HOr; apply IH.
    - apply HIte; apply IH.
    - apply HLoad; apply IH.
    - apply HSignExt; apply IH.
    - apply HIncDec; apply IH.
    - apply HApp. induction l as [|x l IHl]; constructor; [apply IH | exact IHl].
    - apply HRaw.
  Qed.

  Section Fin.
    Variable regs : list (string * reginfo).
    Variable removed : list string.

    Lemma is_htmp_regprefix x : is_htmp (reg_prefix +++ x) = false.
    Proof. unfold is_htmp, reg_prefix. cbn [append substring]. reflexivity. Qed.

    Lemma existsb_removed_ren x :
      existsb (String.eqb (reg_prefix +++ x)) (map shn removed) = existsb (String.eqb (reg_prefix +++ x)) removed.
    Proof.
      induction removed as [|y t IH]; [reflexivity|]. cbn [map existsb].
      rewrite (shn_eqb_user _ y (is_htmp_regprefix x)). rewrite IH. reflexivity.
    Qed.

    Lemma reg_read_ren x : reg_read regs (map shn removed) x = reg_read regs removed x.
    Proof. unfold reg_read. rewrite existsb_removed_ren. reflexivity. Qed.
    Lemma reg_handle_ren x : reg_handle regs (map shn removed) x = reg_handle regs removed x.
    Proof. unfold reg_handle. rewrite existsb_removed_ren. reflexivity. Qed.
    Lemma fin_op_ren r : fin_op regs (map shn removed) r = fin_op regs removed r.
    Proof. unfold fin_op. destruct r; try reflexivity. destruct (reg_name_of name); [apply reg_handle_ren | reflexivity]. Qed.
    Lemma rpure_reg_read x : rpure (reg_read regs removed x) = reg_read regs removed x.
    Proof.
      unfold reg_read. destruct (lookup_reg_info x regs); [|reflexivity].
      destruct (existsb _ removed); [reflexivity|]. destruct (write_only _); [reflexivity|]. destruct (r_pc _); reflexivity.
    Qed.

    Lemma fin_pure_ren p : fin_pure regs (map shn removed) (rpure p) = rpure (fin_pure regs removed p).
    Proof.
      induction p using pure_nind; cbn [rpure fin_pure]; try reflexivity; try congruence.
      - (* PApp *) f_equal. rewrite !map_map. induction H as [|x l Hx Hl IH]; [reflexivity|]. cbn [map]. rewrite Hx, IH. reflexivity.
      - (* PRaw *) destruct (reg_name_of s).
        + rewrite reg_read_ren. rewrite rpure_reg_read. reflexivity.
        + destruct (String.eqb (substring 0 4 s) "$op:"); reflexivity.
    Qed.

    Lemma fin_arg_ren a : fin_arg regs (map shn removed) (rarg a) = rarg (fin_arg regs removed a).
    Proof. destruct a; cbn [rarg fin_arg]; [rewrite fin_pure_ren | rewrite fin_op_ren |]; reflexivity. Qed.

    Lemma fin_eff_ren e : fin_eff regs (map shn removed) (reff e) = reff (fin_eff regs removed e).
    Proof.
      induction e; cbn [reff fin_eff]; rewrite ?fin_pure_ren, ?fin_op_ren; try congruence.
      - f_equal. rewrite !map_map. apply map_ext. intros a. apply fin_arg_ren.
      - f_equal. rewrite !map_map. apply map_ext. intros a. apply fin_arg_ren.
    Qed.
  End Fin.

  (* the part of tlower_info after the traversal *)
  Definition tfin (r : res (list item * lstate)) : res tinfo :=
    match r with
    | Err e => Err e
    | OK (items, s) =>
        let dropped := existsb (fun i => match i with ITree _ | ITok _ => true | _ => false end) items in
        if negb (st_nonempty s) then OK (mkti ENop (st_hcount s) 0 dropped []) else
        let left := map pend_effect (st_pending s) in
        let imms := map (fun e => match e with
                                  | ESetL x (PImm _ _ _) => if existsb (fun v => String.eqb (fst v) x) (st_vars s) then e else ESetL x (PRaw x)
                                  | _ => e end) (st_imms s) in
        let effs := (imms ++ left ++ flat_map item_effects items)%list in
        OK (mkti (fin_eff (st_regs s) (st_removed s) (seqn effs)) (st_hcount s) (List.length left) dropped (st_removed s))
    end.
  Lemma tlower_info_tfin c prog : tlower_info c prog = tfin (lower_stmts c prog (init_state c)).
  Proof. reflexivity. Qed.

  Definition rtinfo (i : tinfo) : tinfo :=
    mkti (reff (ti_eff i)) (n + ti_hcount i) (ti_leftover i) (ti_dropped i) (map shn (ti_removed i)).
  Definition rres (r : res tinfo) : res tinfo := match r with OK i => OK (rtinfo i) | Err e => Err e end.

  Lemma dropped_ren items :
    existsb (fun i => match i with ITree _ | ITok _ => true | _ => false end) (map ritem items)
    = existsb (fun i => match i with ITree _ | ITok _ => true | _ => false end) items.
  Proof. induction items as [|i t IH]; [reflexivity|]. cbn [map existsb]. rewrite IH. destruct i; reflexivity. Qed.

  Lemma item_effects_ren items : flat_map item_effects (map ritem items) = map reff (flat_map item_effects items).
  Proof.
    induction items as [|i t IH]; [reflexivity|]. cbn [map flat_map]. rewrite IH, map_app. f_equal.
    destruct i; cbn [ritem item_effects]; try reflexivity; unfold rleff; cbn [le_empty le_term]; destruct (le_empty _); reflexivity.
  Qed.

  Lemma imms_ren vars imms : Forall gname (map fst vars) -> Forall gimm imms ->
    map (fun e => match e with
                  | ESetL x (PImm _ _ _) => if existsb (fun v => String.eqb (fst v) x) (map rvar vars) then e else ESetL x (PRaw x)
                  | _ => e end) (map reff imms)
    = map reff (map (fun e => match e with
                              | ESetL x (PImm _ _ _) => if existsb (fun v => String.eqb (fst v) x) vars then e else ESetL x (PRaw x)
                              | _ => e end) imms).
  Proof.
    intros Hv Hi. induction Hi as [|e t He Ht IH]; [reflexivity|]. cbn [map]. rewrite IH. f_equal.
    destruct e; try reflexivity. cbn [gimm] in He.
    destruct p; cbn [reff rpure]; rewrite ?(shn_user x He); try reflexivity.
    rewrite (existsb_rvar_user x vars He Hv).
    destruct (existsb _ vars); cbn [reff rpure]; rewrite (shn_user x He); reflexivity.
  Qed.

  Lemma tfin_ren items s : gst s -> tfin (OK (map ritem items, rstate s)) = rres (tfin (OK (items, s))).
  Proof.
    intros (Hv & Hp & Hi). unfold tfin. cbv zeta. rewrite dropped_ren.
    cbn [rstate st_vars st_regs st_pending st_hcount st_imms st_nonempty st_removed].
    destruct (negb (st_nonempty s)); [reflexivity|].
    cbn [rres]. unfold rtinfo. cbn [ti_eff ti_hcount ti_leftover ti_dropped ti_removed]. f_equal.
    rewrite !map_length. f_equal.
    rewrite (imms_ren _ _ Hv Hi), map_pend_effect_ren, item_effects_ren.
    rewrite <- !map_app. rewrite <- reff_seqn. apply fin_eff_ren.
  Qed.

  (* ================================================================== the theorem, inside the section *)
  Definition init_at (h : N) : lstate := mkst [] [] [] h [] false [].

  Theorem hshift_from_init prog :
    nh_stmts prog = true -> (n + hb_stmts prog <= LIM)%N ->
    tfin (lower_stmts cfg prog (init_at n)) = rres (tfin (lower_stmts cfg prog (init_at 0))).
  Proof.
    intros Hnh Hb. destruct hshift_sim_all as (_ & _ & _ & Hss).
    pose proof (Hss prog Hnh (init_at 0)) as Hsim.
    assert (Hg : gst (init_at 0)) by (repeat split; constructor).
    specialize (Hsim Hg). cbn [init_at st_hcount] in Hsim. specialize (Hsim ltac:(lia)).
    assert (Er : rstate (init_at 0) = init_at n).
    { unfold rstate, init_at. cbn [st_vars st_regs st_pending st_hcount st_imms st_nonempty st_removed map]. rewrite N.add_0_r. reflexivity. }
    fold (init_at 0) in Hsim. rewrite Er in Hsim.
    destruct (lower_stmts cfg prog (init_at 0)) as [[items s']|e].
    - destruct Hsim as (Hn & Gs & _ & _). rewrite Hn. cbn [ren Ren_list Ren_item]. apply tfin_ren. exact Gs.
    - rewrite Hsim. reflexivity.
  Qed.
End Shift.

(* ================================================================== statements for the reader *)
Definition set_hstart (cfg : config) (h : N) : config :=
  mkcfg (cfg_fx cfg) (cfg_subs cfg) (cfg_macros cfg) (cfg_params cfg) (cfg_ret cfg) h.

(* side condition 1: no identifier of the program (variable / immediate / declared name, at any depth) starts with "h_tmp" *)
Definition no_htmp_ident (prog : cstmts) : bool := nh_stmts prog.
(* side condition 2 concerns the MODEL only: string_of_N renders 40 digits, so the names h_tmp<k> are
   pairwise distinct only below 10^40; hyb_bound counts the x++ / call / statement-expression nodes *)
Definition hyb_bound (prog : cstmts) : N := hb_stmts prog.

Definition shift (n : N) : string -> string := shn n.
Definition rename_pure (n : N) : pure -> pure := rpure n.
Definition rename_eff (n : N) : effect -> effect := reff n.
Definition rename_tinfo (n : N) : tinfo -> tinfo := rtinfo n.

Lemma shift_tmp n k : (k < LIM)%N -> shift n (hname k) = hname (k + n).
Proof. apply shn_hname. Qed.
Lemma shift_other n x : is_htmp x = false -> shift n x = x.
Proof. apply shn_user. Qed.
(* consistent: distinct names stay distinct *)
Lemma shift_injective n x y : gname n x -> gname n y -> shift n x = shift n y -> x = y.
Proof.
  intros Hx Hy He. pose proof (shn_eqb n x y Hx Hy) as Hb. unfold shift in He. rewrite He in Hb.
  rewrite String.eqb_refl in Hb. symmetry in Hb. apply String.eqb_eq in Hb. exact Hb.
Qed.

Lemma lower_stmts_hstart cfg h : lower_stmts (set_hstart cfg h) = lower_stmts cfg.
Proof. reflexivity. Qed.

Theorem hshift_tlower_info cfg n prog :
  no_htmp_ident prog = true -> (n + hyb_bound prog <= LIM)%N ->
  tlower_info (set_hstart cfg n) prog = rres n (tlower_info (set_hstart cfg 0) prog).
Proof.
  intros Hnh Hb. rewrite !tlower_info_tfin, !lower_stmts_hstart.
  change (init_state (set_hstart cfg n)) with (init_at n).
  change (init_state (set_hstart cfg 0)) with (init_at 0).
  apply hshift_from_init; assumption.
Qed.
Print Assumptions hshift_tlower_info.

(* the same, spelled out *)
Theorem hshift_error_iff cfg n prog msg :
  no_htmp_ident prog = true -> (n + hyb_bound prog <= LIM)%N ->
  (tlower_info (set_hstart cfg n) prog = Err msg <-> tlower_info (set_hstart cfg 0) prog = Err msg).
Proof.
  intros Hnh Hb. rewrite (hshift_tlower_info cfg n prog Hnh Hb).
  destruct (tlower_info (set_hstart cfg 0) prog) as [i|e]; cbn [rres]; split; intros H; try discriminate H; exact H.
Qed.

Theorem hshift_ok cfg n prog i0 :
  no_htmp_ident prog = true -> (n + hyb_bound prog <= LIM)%N ->
  tlower_info (set_hstart cfg 0) prog = OK i0 ->
  exists i_n, tlower_info (set_hstart cfg n) prog = OK i_n
    /\ ti_eff i_n = rename_eff n (ti_eff i0)
    /\ ti_hcount i_n = (n + ti_hcount i0)%N
    /\ ti_leftover i_n = ti_leftover i0
    /\ ti_dropped i_n = ti_dropped i0
    /\ ti_removed i_n = map (shift n) (ti_removed i0).
Proof.
  intros Hnh Hb H0. exists (rtinfo n i0). rewrite (hshift_tlower_info cfg n prog Hnh Hb), H0.
  repeat split.
Qed.
Print Assumptions hshift_ok.

(* tlower and tlower_checked *)
Lemma pure_has_raw_ren n tag p : pure_has_raw tag (rpure n p) = pure_has_raw tag p.
Proof.
  induction p using pure_nind; cbn [rpure pure_has_raw]; try reflexivity; try congruence.
  induction H as [|x l Hx Hl IH]; [reflexivity|]. cbn [map existsb]. rewrite Hx, IH. reflexivity.
Qed.
Lemma eff_has_raw_ren n tag e : eff_has_raw tag (reff n e) = eff_has_raw tag e.
Proof.
  induction e; cbn [reff eff_has_raw]; rewrite ?pure_has_raw_ren; try congruence.
  - induction args as [|a t IH]; [reflexivity|]. cbn [map existsb]. rewrite IH. destruct a; cbn [rarg]; rewrite ?pure_has_raw_ren; reflexivity.
  - induction args as [|a t IH]; [reflexivity|]. cbn [map existsb]. rewrite IH. destruct a; cbn [rarg]; rewrite ?pure_has_raw_ren; reflexivity.
Qed.

Definition rename_out (n : N) (r : res (effect * N)) : res (effect * N) :=
  match r with OK (e, h) => OK (rename_eff n e, (n + h)%N) | Err m => Err m end.

Theorem hshift_tlower cfg n prog :
  no_htmp_ident prog = true -> (n + hyb_bound prog <= LIM)%N ->
  tlower (set_hstart cfg n) prog = rename_out n (tlower (set_hstart cfg 0) prog).
Proof.
  intros Hnh Hb. unfold tlower. rewrite (hshift_tlower_info cfg n prog Hnh Hb).
  destruct (tlower_info (set_hstart cfg 0) prog) as [i|e]; reflexivity.
Qed.

Theorem hshift_tlower_checked cfg n prog :
  no_htmp_ident prog = true -> (n + hyb_bound prog <= LIM)%N ->
  tlower_checked (set_hstart cfg n) prog = rename_out n (tlower_checked (set_hstart cfg 0) prog).
Proof.
  intros Hnh Hb. unfold tlower_checked. rewrite (hshift_tlower cfg n prog Hnh Hb).
  destruct (tlower (set_hstart cfg 0) prog) as [[e h]|m]; cbn [rename_out]; [|reflexivity].
  unfold rename_eff. rewrite eff_has_raw_ren. destruct (eff_has_raw "$float" e); reflexivity.
Qed.
Print Assumptions hshift_tlower_checked.

(* the configurations of the instruction compiler differ in the counter only *)
Lemma cfg_insn_hstart h : cfg_insn h = set_hstart (cfg_insn 0) h.
Proof. reflexivity. Qed.

Corollary C14_history_independent h p :
  no_htmp_ident p = true -> (h + hyb_bound p <= LIM)%N ->
  tlower_info (cfg_insn h) p = rres h (tlower_info (cfg_insn 0) p).
Proof. intros Hnh Hb. rewrite (cfg_insn_hstart h). exact (hshift_tlower_info (cfg_insn 0) h p Hnh Hb). Qed.
Print Assumptions C14_history_independent.

(* ================================================================== a concrete run *)
(* { RdV = RxV++ + ({ ReV = 1; RtV; }); } *)
Definition ex_prog : cstmts :=
  SCons (SExpr (EAssign AAssign (EOp (OReg "R" "d"))
           (EBin BAdd (EPost true (EOp (OReg "R" "x")))
                      (EStmtExpr (SCons (SExpr (EAssign AAssign (EOp (OReg "R" "e")) (EOp (ONum 1 false "")))) SNil)
                                 (SExpr (EOp (OReg "R" "t"))))))) SNil.
Definition ex_out (a b : string) (h : N) : tinfo :=
  mkti (ESeq (ESeq (ESetL a (PReg (RIsa "R" "x" false) false))
                   (EWriteReg (RIsa "R" "x" false) (PIncDec true (PReg (RIsa "R" "x" false) false) 32)))
             (ESeq (ESeq (EWriteReg (RIsa "R" "e" false) (PBv true 32 1))
                         (ESetL b (PReg (RIsa "R" "t" false) false)))
                   (EWriteReg (RIsa "R" "d" false) (PBin RzIL.BAdd (PVarL a) (PVarL b)))))
       h 0 false [].

Example ex_hstart_0 : tlower_info (cfg_insn 0) ex_prog = OK (ex_out "h_tmp0" "h_tmp1" 2).
Proof. vm_compute. reflexivity. Qed.
Example ex_hstart_7 : tlower_info (cfg_insn 7) ex_prog = OK (ex_out "h_tmp7" "h_tmp8" 9).
Proof. vm_compute. reflexivity. Qed.
(* related by the renaming: by evaluation ... *)
Example ex_related : tlower_info (cfg_insn 7) ex_prog = rres 7 (tlower_info (cfg_insn 0) ex_prog).
Proof. vm_compute. reflexivity. Qed.
Example ex_renamed : rename_tinfo 7 (ex_out "h_tmp0" "h_tmp1" 2) = ex_out "h_tmp7" "h_tmp8" 9.
Proof. vm_compute. reflexivity. Qed.
(* ... and by the theorem, for every start value of the counter *)
Example ex_side_conditions : no_htmp_ident ex_prog = true /\ hyb_bound ex_prog = 2%N.
Proof. vm_compute. split; reflexivity. Qed.
Example ex_related_thm h : (h + 2 <= LIM)%N -> tlower_info (cfg_insn h) ex_prog = OK (rename_tinfo h (ex_out "h_tmp0" "h_tmp1" 2)).
Proof.
  intros Hh. rewrite (C14_history_independent h ex_prog); [rewrite ex_hstart_0; reflexivity | reflexivity | exact Hh].
Qed.

(* ================================================================== side condition 1 is necessary *)
(* { int NAME = 5; RdV = RxV++; ReV = NAME; } *)
Definition w_alias (nm : string) : cstmts :=
  SCons (SDecl [TS_int] nm (Some (EOp (ONum 5 false ""))))
 (SCons (SExpr (EAssign AAssign (EOp (OReg "R" "d")) (EPost true (EOp (OReg "R" "x")))))
 (SCons (SExpr (EAssign AAssign (EOp (OReg "R" "e")) (EOp (OIdent nm)))) SNil)).
Definition w_alias_out (user tmp : string) (h : N) : tinfo :=
  mkti (ESeq (ESetL user (PBv true 32 5))
       (ESeq (ESeq (ESeq (ESetL tmp (PReg (RIsa "R" "x" false) false))
                         (EWriteReg (RIsa "R" "x" false) (PIncDec true (PReg (RIsa "R" "x" false) false) 32)))
                   (EWriteReg (RIsa "R" "d" false) (PVarL tmp)))
             (EWriteReg (RIsa "R" "e" false) (PVarL user))))
       h 0 false [].

(* a user variable called h_tmp7: a fresh compiler keeps it apart from the temporary of x++ (ReV = 5); after
   seven earlier hybrids the temporary IS h_tmp7 and overwrites it (ReV = old RxV) *)
Example htmp_ident_refuted :
  no_htmp_ident (w_alias "h_tmp7") = false
  /\ tlower_info (cfg_insn 0) (w_alias "h_tmp7") = OK (w_alias_out "h_tmp7" "h_tmp0" 1)
  /\ tlower_info (cfg_insn 7) (w_alias "h_tmp7") = OK (w_alias_out "h_tmp7" "h_tmp7" 8)
  /\ tlower_info (cfg_insn 7) (w_alias "h_tmp7") <> rres 7 (tlower_info (cfg_insn 0) (w_alias "h_tmp7")).
Proof. vm_compute. repeat split; try reflexivity. intros H. discriminate H. Qed.
(* the mirror image: h_tmp0 collides in a fresh compiler and not after history *)
Example htmp_ident_refuted_fresh :
  no_htmp_ident (w_alias "h_tmp0") = false
  /\ tlower_info (cfg_insn 0) (w_alias "h_tmp0") = OK (w_alias_out "h_tmp0" "h_tmp0" 1)
  /\ tlower_info (cfg_insn 7) (w_alias "h_tmp0") = OK (w_alias_out "h_tmp0" "h_tmp7" 8)
  /\ tlower_info (cfg_insn 7) (w_alias "h_tmp0") <> rres 7 (tlower_info (cfg_insn 0) (w_alias "h_tmp0")).
Proof. vm_compute. repeat split; try reflexivity. intros H. discriminate H. Qed.
(* with an ordinary name the theorem applies *)
Example alias_ordinary_name h : (h + 1 <= LIM)%N ->
  tlower_info (cfg_insn h) (w_alias "v") = rres h (tlower_info (cfg_insn 0) (w_alias "v")).
Proof. intros Hh. apply C14_history_independent; [reflexivity | exact Hh]. Qed.

(* ================================================================== side condition 2 is an artefact of the model *)
(* string_of_N (model/Types.v) has fuel 40: beyond 10^40 different counters are rendered alike, so the
   names of the model's temporaries are not injective there (Python's str(int) is) *)
Example lim_artefact : hname (10 ^ 40) = hname (2 * 10 ^ 40) /\ (10 ^ 40 =? 2 * 10 ^ 40)%N = false.
Proof. split; vm_compute; reflexivity. Qed.

(* ================================================================== what the renaming does NOT give *)
(* The theorem is about the emitted TREE.  Its semantic reading ("the meaning does not depend on history")
   additionally needs the temporaries of the caller to be disjoint from the locals of the sub-routine bodies
   it calls, and those are compiled with FIXED names h_tmp0.. (known finding D5).  So the consistent renaming
   is not semantically neutral for callers of sub-routines:   RdV = RxV++ + clz32(RsV);
   the two trees are related by the renaming (the theorem applies), yet on the same initial state the one of a
   fresh compiler (its h_tmp0 is overwritten inside hex_clz32) disagrees with C and the one compiled after one
   earlier hybrid agrees. *)
From RZ.sem Require CSem Diff.
From RZ.proofs Require Witness.
Definition w_callee : cstmts :=
  SCons (SExpr (EAssign AAssign (EOp (OReg "R" "d"))
     (EBin BAdd (EPost true (EOp (OReg "R" "x"))) (ECall "clz32" (ECons (EOp (OReg "R" "s")) ENil))))) SNil.
Example callee_tmps_semantic_history :
  no_htmp_ident w_callee = true
  /\ tlower_info (cfg_insn 1) w_callee = rres 1 (tlower_info (cfg_insn 0) w_callee)
  /\ Witness.verdict_of (cfg_insn 0) w_callee 4 = Some Diff.Differ
  /\ Witness.verdict_of (cfg_insn 1) w_callee 4 = Some Diff.Agree.
Proof. vm_compute. repeat split; reflexivity. Qed.
