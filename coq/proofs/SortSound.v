(* Soundness of the RzIL sort checker (sem/RzIL.v: sort_of, wf_effect) w.r.t. eval / exec.

   Pures
     sort_of_sound   env_ok G (locals s), env_ok lets lv, sort_of = Some t  ==>  eval = Some v of sort t
     sort_of_agree   with sort CONSISTENCY only (locals may be unassigned): if eval = Some v then v has sort t
     (app_sound: app_sort/app_sem agree; needed the BSWAP64 case that app_sem lacked.)

   Effects.  The two statements first asked for (naive_preservation_statement, naive_progress_statement, and
   the fall-back naive_consistency_statement) are FALSE; their negations are proved at the end of the file.
   Reason: wf_effect is a "may" analysis.  It keeps one table for the whole instruction and threads it
   G -> then-arm -> else-arm (and through loop bodies), as rz_il_validate does.  So G' records locals that the
   executed path may never assign, and an else-arm may read a local only the then-arm sets.  Moreover
   env_ok G (locals s) says nothing about locals of s outside G, which the run-time check in ESetL sees.
   What IS true, and is proved (strongest forms I found):
     wf_effect_preservation      for any H extending G': consistent H (locals s) is an invariant of exec
                                 (any fuel, ERepeat included, calls opaque).  Instance H := G':
     wf_effect_sort_consistency  a local never holds a value of another sort than the one G' records
     exec_locals_mono            unconditionally, exec never drops a local nor changes its sort
                                 (=> exec_env_ok_stable: env_ok D is stable under exec)
     da_effect                   the "must" analysis that wf_effect is not (arms checked from the same D,
                                 result = bindings both arms agree on; loop bodies contribute nothing)
     da_effect_preservation      da_effect D e = Some D', env_ok D (locals s), exec = Some s' ==> env_ok D' (locals s')
                                 (every effect, every fuel, calls included)
     wf_effect_preservation_branch_free   the task's preservation, literally, for effects without EBranch/ERepeat
     wf_effect_progress          wf_effect (sorts) + da_effect (assignment) + consistent start state ==>
                                 exec succeeds for EVERY fuel >= depth e (loop-free, calls opaque)
     wf_effect_progress_init / _branch_free   corollaries: empty start state; straight-line code with wf_effect alone
   Tools: wf_effect_mono, da_effect_mono, sort_of_weaken, wf_effect_stable (G' is a fixed point of the checker). *)
From Coq Require Import ZArith NArith List Bool String Ascii Lia.
From RZ.lib Require Import BV.
From RZ.sem Require Import RzIL.
Import ListNotations.
Local Open Scope string_scope.
Local Open Scope Z_scope.

(* ------------------------------------------------------------------ plugin heads *)
Definition app_heads : list string :=
  ["EXTRACT32"; "EXTRACT64"; "SEXTRACT64"; "DEPOSIT32"; "DEPOSIT64"; "BSWAP16"; "BSWAP32"; "BSWAP64"].

Ltac prune H := cbv beta iota in H; try discriminate H.
(* walk a string character by character, bit by bit, pruning the branches on which H is None = Some _ *)
Ltac walk H h :=
  destruct h as [|[b0 b1 b2 b3 b4 b5 b6 b7] h];
  [ prune H
  | prune H;
    destruct b0; prune H; destruct b1; prune H; destruct b2; prune H; destruct b3; prune H;
    destruct b4; prune H; destruct b5; prune H; destruct b6; prune H; destruct b7; prune H;
    walk H h ].

Lemma app_sort_heads h ss t : app_sort h ss = Some t -> In h app_heads.
Proof.
  intro H. unfold app_sort in H.
  walk H h.
  all: unfold app_heads; simpl; auto 12.
Qed.

Ltac leaf H :=
  repeat match type of H with
  | match map _ ?l with _ => _ end = _ => destruct l; cbn [map] in H; cbv beta iota in H; try discriminate H
  | match sort_of_val ?v with _ => _ end = _ => destruct v; cbn [sort_of_val] in H; cbv beta iota in H; try discriminate H
  | match ?x with _ => _ end = _ => is_var x; destruct x; cbv beta iota in H; try discriminate H
  end.

(* app_sort / app_sem agree: every head/argument-sort combination the checker accepts has a value *)
Lemma app_sound h vs t :
  app_sort h (map sort_of_val vs) = Some t -> exists v, app_sem h vs = Some v /\ sort_of_val v = t.
Proof.
  intro H. pose proof (app_sort_heads _ _ _ H) as Hin. unfold app_heads in Hin. cbn [In] in Hin.
  repeat (destruct Hin as [<- | Hin]); [.. | contradiction].
  all: unfold app_sort in H; cbv beta iota in H; leaf H.
  all: injection H as <-; eexists; split; reflexivity.
Qed.

(* ------------------------------------------------------------------ induction principle for pure *)
Lemma pure_ind' (P : pure -> Prop)
  (HBv : forall sg w v, P (PBv sg w v))
  (HBool : forall b, P (PBool b))
  (HVarL : forall x, P (PVarL x))
  (HVarLP : forall x, P (PVarLP x))
  (HLet : forall x e b, P e -> P b -> P (PLet x e b))
  (HReg : forall r n, P (PReg r n))
  (HImm : forall l sg w, P (PImm l sg w))
  (HPkt : P PPktAddr)
  (HParam : forall x, P (PParam x))
  (HUn : forall o a, P a -> P (PUn o a))
  (HBin : forall o a b, P a -> P b -> P (PBin o a b))
  (HCmp : forall o a b, P a -> P b -> P (PCmp o a b))
  (HCast : forall w f a, P f -> P a -> P (PCast w f a))
  (HMsb : forall a, P a -> P (PMsb a))
  (HNonZero : forall a, P a -> P (PNonZero a))
  (HInv : forall a, P a -> P (PInv a))
  (HAnd : forall a b, P a -> P b -> P (PAnd a b))
  (HOr : forall a b, P a -> P b -> P (POr a b))
  (HIte : forall c a b, P c -> P a -> P b -> P (PIte c a b))
  (HLoad : forall w a, P a -> P (PLoad w a))
  (HSignExt : forall sg w a, P a -> P (PSignExt sg w a))
  (HIncDec : forall i a w, P a -> P (PIncDec i a w))
  (HApp : forall h l, Forall P l -> P (PApp h l))
  (HRaw : forall s, P (PRaw s)) : forall p, P p.
Proof.
  fix IH 1.
  intros [sg w v|b|x|x|x e b|r n|l sg w| |x|o a|o a b|o a b|w f a|a|a|a|a b|a b|c a b|w a|sg w a|i a w|h l|s].
  - apply HBv.
  - apply HBool.
  - apply HVarL.
  - apply HVarLP.
  - apply HLet; apply IH.
  - apply HReg.
  - apply HImm.
  - apply HPkt.
  - apply HParam.
  - apply HUn; apply IH.
  - apply HBin; apply IH.
  - apply HCmp; apply IH.
  - apply HCast; apply IH.
  - apply HMsb; apply IH.
  - apply HNonZero; apply IH.
  - apply HInv; apply IH.
  - apply HAnd; apply IH.
  - apply HOr; apply IH.
  - apply HIte; apply IH.
  - apply HLoad; apply IH.
  - apply HSignExt; apply IH.
  - apply HIncDec; apply IH.
  - apply HApp. induction l as [|x l IHl]; constructor; [apply IH | exact IHl].
  - apply HRaw.
Qed.

(* ------------------------------------------------------------------ small facts *)
Lemma sort_eqb_eq a b : sort_eqb a b = true -> a = b.
Proof. destruct a, b; cbn; intro H; try discriminate; auto. apply N.eqb_eq in H. congruence. Qed.
Lemma sort_eqb_refl a : sort_eqb a a = true.
Proof. destruct a; cbn; auto. apply N.eqb_refl. Qed.
Lemma sort_bv_inv v w : sort_of_val v = SBv w -> exists x, v = VBv w x.
Proof. destruct v; cbn; intro H; inversion H; eauto. Qed.
Lemma sort_bool_inv v : sort_of_val v = SBool -> exists b, v = VB b.
Proof. destruct v; cbn; intro H; inversion H; eauto. Qed.
Lemma bin_sem_total o w x y : exists r, bin_sem o w x y = Some r.
Proof. destruct o; cbn [bin_sem]; try destruct (y =? 0); eauto. Qed.

Lemma lookup_cons {A} x y (v : A) l : lookup x ((y, v) :: l) = if String.eqb x y then Some v else lookup x l.
Proof. reflexivity. Qed.

(* ------------------------------------------------------------------ environments *)
(* every recorded name is bound, to a value of the recorded sort (definite assignment) *)
Definition env_ok (G : lenv) (l : list (string * val)) : Prop :=
  forall x t, lookup x G = Some t -> exists v, lookup x l = Some v /\ sort_of_val v = t.
(* whenever a recorded name is bound, the value has the recorded sort (sort consistency) *)
Definition consistent (G : lenv) (l : list (string * val)) : Prop :=
  forall x t v, lookup x G = Some t -> lookup x l = Some v -> sort_of_val v = t.
(* G' extends G *)
Definition ext (G G' : lenv) : Prop := forall x t, lookup x G = Some t -> lookup x G' = Some t.
(* every bound name is recorded with the sort of its value *)
Definition locals_in (G : lenv) (l : list (string * val)) : Prop :=
  forall x v, lookup x l = Some v -> lookup x G = Some (sort_of_val v).

Lemma env_ok_cons G l x t v : env_ok G l -> sort_of_val v = t -> env_ok ((x, t) :: G) ((x, v) :: l).
Proof.
  intros H Hv y u. rewrite !lookup_cons. destruct (String.eqb y x).
  - intro E; inversion E; subst; eauto.
  - apply H.
Qed.
Lemma consistent_cons G l x t v : consistent G l -> sort_of_val v = t -> consistent ((x, t) :: G) ((x, v) :: l).
Proof.
  intros H Hv y u w. rewrite !lookup_cons. destruct (String.eqb y x).
  - intros E1 E2; inversion E1; inversion E2; subst; auto.
  - apply H.
Qed.
Lemma env_ok_consistent G l : env_ok G l -> consistent G l.
Proof. intros H x t v Hx Hl. destruct (H _ _ Hx) as (v' & Hl' & Hs). congruence. Qed.
Lemma env_ok_nil l : env_ok [] l.
Proof. intros x t H; discriminate H. Qed.
Lemma consistent_nil_l l : consistent [] l.
Proof. intros x t v H; discriminate H. Qed.
Lemma consistent_nil_r G : consistent G [].
Proof. intros x t v _ H; discriminate H. Qed.
Lemma ext_refl G : ext G G.
Proof. intros x t H; exact H. Qed.
Lemma ext_trans G1 G2 G3 : ext G1 G2 -> ext G2 G3 -> ext G1 G3.
Proof. intros H1 H2 x t H; auto. Qed.
Lemma ext_cons_fresh G x t : lookup x G = None -> ext G ((x, t) :: G).
Proof.
  intros Hn y u Hy. rewrite lookup_cons. destruct (String.eqb y x) eqn:E; auto.
  apply String.eqb_eq in E. subst. congruence.
Qed.
Lemma consistent_ext G H l : ext G H -> consistent H l -> consistent G l.
Proof. intros He Hc x t v Hx Hl. eapply Hc; eauto. Qed.
Lemma env_ok_ext G H l : ext G H -> env_ok H l -> env_ok G l.
Proof. intros He Hc x t Hx. eapply Hc; eauto. Qed.
Lemma locals_in_consistent G H l : locals_in G l -> ext G H -> consistent H l.
Proof. intros Hi He x t v Hx Hl. apply Hi in Hl. apply He in Hl. congruence. Qed.

(* ================================================================== pures *)
Section Sound.
  Variable rw : regwidth.

  Definition sound_at (G : lenv) (s : mstate) (p : pure) : Prop :=
    forall lets lv t, env_ok lets lv -> sort_of rw G lets p = Some t ->
      exists v, eval rw s lv p = Some v /\ sort_of_val v = t.

  Lemma app_go_sound G s h (l : list pure) lets lv :
    Forall (sound_at G s) l -> env_ok lets lv ->
    forall accs accv t, map sort_of_val accv = accs ->
      (fix go (l : list pure) (acc : list sort) : option sort :=
         match l with
         | [] => app_sort h (rev acc)
         | x :: t => match sort_of rw G lets x with Some v => go t (v :: acc) | None => None end
         end) l accs = Some t ->
      exists v,
        (fix go (l : list pure) (acc : list val) : option val :=
           match l with
           | [] => app_sem h (rev acc)
           | x :: t => match eval rw s lv x with Some v => go t (v :: acc) | None => None end
           end) l accv = Some v /\ sort_of_val v = t.
  Proof.
    intros HF Hl. induction HF as [|x l Hx HF IH]; intros accs accv t Hacc Hs.
    - apply app_sound. rewrite map_rev, Hacc. exact Hs.
    - destruct (sort_of rw G lets x) as [tx|] eqn:Ex; [|discriminate Hs].
      destruct (Hx _ _ _ Hl Ex) as (vx & Evx & Svx). rewrite Evx.
      apply (IH (tx :: accs) (vx :: accv) t); [cbn [map]; congruence | exact Hs].
  Qed.

  Ltac inv_sort Hs :=
    repeat match type of Hs with
    | match sort_of ?r ?G ?l ?p with _ => _ end = Some _ => destruct (sort_of r G l p) eqn:?; try discriminate Hs
    | match ?x with _ => _ end = Some _ => is_var x; destruct x; try discriminate Hs
    | (if ?c then _ else _) = Some _ => destruct c eqn:?; try discriminate Hs
    end.

  Ltac use_ih Hl :=
    repeat match goal with
    | IH : sound_at ?G ?s ?p, E : sort_of _ ?G ?l ?p = Some ?t |- _ =>
        let v := fresh "v" in let Ev := fresh "Ev" in let Sv := fresh "Sv" in
        destruct (IH _ _ _ Hl E) as (v & Ev & Sv); clear IH; rewrite Ev;
        destruct v; cbn [sort_of_val] in Sv; try discriminate Sv; inversion Sv; subst
    end.

  Lemma sort_of_sound_aux G s : env_ok G (locals s) -> forall p, sound_at G s p.
  Proof.
    intros HG. induction p using pure_ind'; intros lets lv t Hl Hs; cbn [sort_of] in Hs; cbn [eval].
    - inversion Hs; subst. eexists; split; reflexivity.
    - inversion Hs; subst. eexists; split; reflexivity.
    - apply HG; exact Hs.
    - apply Hl; exact Hs.
    - destruct (sort_of rw G lets p1) as [t1|] eqn:E1; [|discriminate Hs].
      destruct (IHp1 _ _ _ Hl E1) as (v1 & Ev1 & Sv1). rewrite Ev1.
      apply (IHp2 ((x, t1) :: lets) ((x, v1) :: lv) t); [apply env_ok_cons; assumption | exact Hs].
    - inversion Hs; subst. eexists; split; [reflexivity|]. unfold read_reg. destruct n; reflexivity.
    - inversion Hs; subst. eexists; split; reflexivity.
    - inversion Hs; subst. eexists; split; reflexivity.
    - discriminate Hs.
    - inv_sort Hs. use_ih Hl. inversion Hs; subst. eexists; split; reflexivity.
    - inv_sort Hs. use_ih Hl.
      match goal with Hc : (_ || _)%bool = true |- _ => rewrite Hc end.
      match goal with |- context [bin_sem ?o ?w ?x ?y] => destruct (bin_sem_total o w x y) as [r ->] end.
      inversion Hs; subst. eexists; split; reflexivity.
    - inv_sort Hs. use_ih Hl.
      match goal with Hc : N.eqb _ _ = true |- _ => rewrite Hc end.
      inversion Hs; subst. eexists; split; reflexivity.
    - inv_sort Hs. use_ih Hl. inversion Hs; subst. eexists; split; reflexivity.
    - inv_sort Hs. use_ih Hl. inversion Hs; subst. eexists; split; reflexivity.
    - inv_sort Hs. use_ih Hl. inversion Hs; subst. eexists; split; reflexivity.
    - inv_sort Hs. use_ih Hl. inversion Hs; subst. eexists; split; reflexivity.
    - inv_sort Hs. use_ih Hl. inversion Hs; subst. eexists; split; reflexivity.
    - inv_sort Hs. use_ih Hl. inversion Hs; subst. eexists; split; reflexivity.
    - destruct (sort_of rw G lets p1) as [[|]|] eqn:E1; try discriminate Hs.
      destruct (sort_of rw G lets p2) as [ta|] eqn:E2; try discriminate Hs.
      destruct (sort_of rw G lets p3) as [tb|] eqn:E3; try discriminate Hs.
      destruct (sort_eqb ta tb) eqn:Ec; try discriminate Hs.
      apply sort_eqb_eq in Ec. inversion Hs; subst.
      destruct (IHp1 _ _ _ Hl E1) as (vc & Evc & Svc). destruct (sort_bool_inv _ Svc) as [cb ->].
      destruct (IHp2 _ _ _ Hl E2) as (va & Eva & Sva).
      destruct (IHp3 _ _ _ Hl E3) as (vb & Evb & Svb).
      rewrite Evc, Eva, Evb, Sva, Svb, sort_eqb_refl.
      exists (if cb then va else vb). split; [reflexivity | destruct cb; assumption].
    - inv_sort Hs. use_ih Hl. inversion Hs; subst. eexists; split; reflexivity.
    - inv_sort Hs. use_ih Hl. inversion Hs; subst. eexists; split; reflexivity.
    - inv_sort Hs. use_ih Hl.
      match goal with Hc : N.eqb _ _ = true |- _ => rewrite Hc end.
      inversion Hs; subst. eexists; split; reflexivity.
    - exact (app_go_sound G s h l lets lv H Hl [] [] t eq_refl Hs).
    - discriminate Hs.
  Qed.

  (* Theorem 2: a well-sorted pure never gets stuck and evaluates to a value of its sort *)
  Theorem sort_of_sound : forall p G lets s lv t,
    env_ok G (locals s) -> env_ok lets lv -> sort_of rw G lets p = Some t ->
    exists v, eval rw s lv p = Some v /\ sort_of_val v = t.
  Proof. intros p G lets s lv t HG Hl Hs. exact (sort_of_sound_aux G s HG p lets lv t Hl Hs). Qed.
End Sound.
Print Assumptions sort_of_sound.

(* ------------------------------------------------------------------ sort agreement without definite assignment *)
Section Agree.
  Variable rw : regwidth.

  Definition agree_at (G : lenv) (s : mstate) (p : pure) : Prop :=
    forall lets lv t v, consistent lets lv -> sort_of rw G lets p = Some t -> eval rw s lv p = Some v ->
      sort_of_val v = t.

  Lemma app_sort_sem_agree h vs t v :
    app_sort h (map sort_of_val vs) = Some t -> app_sem h vs = Some v -> sort_of_val v = t.
  Proof. intros Hs He. destruct (app_sound _ _ _ Hs) as (v' & He' & Sv). congruence. Qed.

  Lemma app_go_agree G s h (l : list pure) lets lv :
    Forall (agree_at G s) l -> consistent lets lv ->
    forall accs accv t v, map sort_of_val accv = accs ->
      (fix go (l : list pure) (acc : list sort) : option sort :=
         match l with
         | [] => app_sort h (rev acc)
         | x :: t => match sort_of rw G lets x with Some v => go t (v :: acc) | None => None end
         end) l accs = Some t ->
      (fix go (l : list pure) (acc : list val) : option val :=
         match l with
         | [] => app_sem h (rev acc)
         | x :: t => match eval rw s lv x with Some v => go t (v :: acc) | None => None end
         end) l accv = Some v -> sort_of_val v = t.
  Proof.
    intros HF Hl. induction HF as [|x l Hx HF IH]; intros accs accv t v Hacc Hs He.
    - eapply app_sort_sem_agree; [|exact He]. rewrite map_rev, Hacc. exact Hs.
    - destruct (sort_of rw G lets x) as [tx|] eqn:Ex; [|discriminate Hs].
      destruct (eval rw s lv x) as [vx|] eqn:Evx; [|discriminate He].
      apply (IH (tx :: accs) (vx :: accv) t v); [cbn [map]; rewrite (Hx _ _ _ _ Hl Ex Evx); congruence | exact Hs | exact He].
  Qed.

  Ltac inv_both Hs He :=
    repeat match type of Hs with
    | match sort_of ?r ?G ?l ?p with _ => _ end = Some _ => destruct (sort_of r G l p) eqn:?; try discriminate Hs
    | match ?x with _ => _ end = Some _ => is_var x; destruct x; try discriminate Hs
    | (if ?c then _ else _) = Some _ => destruct c eqn:?; try discriminate Hs
    end;
    repeat match type of He with
    | match eval ?r ?s ?l ?p with _ => _ end = Some _ => destruct (eval r s l p) eqn:?; try discriminate He
    | match ?x with _ => _ end = Some _ => is_var x; destruct x; try discriminate He
    | (if ?c then _ else _) = Some _ => destruct c eqn:?; try discriminate He
    | match ?x with _ => _ end = Some _ => destruct x eqn:?; try discriminate He
    end.

  Ltac use_agree Hl :=
    repeat match goal with
    | IH : agree_at ?G ?s ?p, E : sort_of _ ?G ?l ?p = Some ?t, E' : eval _ ?s ?lv ?p = Some ?v |- _ =>
        let Sv := fresh "Sv" in
        pose proof (IH _ _ _ _ Hl E E') as Sv; clear IH; cbn [sort_of_val] in Sv
    end.

  Ltac fin Hs He := inversion Hs; inversion He; subst; cbn [sort_of_val] in *; congruence.

  Lemma sort_of_agree_aux G s : consistent G (locals s) -> forall p, agree_at G s p.
  Proof.
    intros HG. induction p using pure_ind'; intros lets lv t vv Hl Hs He; cbn [sort_of] in Hs; cbn [eval] in He.
    - fin Hs He.
    - fin Hs He.
    - eapply HG; eassumption.
    - eapply Hl; eassumption.
    - destruct (sort_of rw G lets p1) as [t1|] eqn:E1; [|discriminate Hs].
      destruct (eval rw s lv p1) as [v1|] eqn:Ev1; [|discriminate He].
      apply (IHp2 ((x, t1) :: lets) ((x, v1) :: lv) t vv); [apply consistent_cons; eauto | exact Hs | exact He].
    - inversion Hs; inversion He; subst. unfold read_reg. destruct n; reflexivity.
    - fin Hs He.
    - fin Hs He.
    - discriminate Hs.
    - inv_both Hs He; use_agree Hl; fin Hs He.
    - inv_both Hs He; use_agree Hl; fin Hs He.
    - inv_both Hs He; use_agree Hl; fin Hs He.
    - inv_both Hs He; use_agree Hl; fin Hs He.
    - inv_both Hs He; use_agree Hl; fin Hs He.
    - inv_both Hs He; use_agree Hl; fin Hs He.
    - inv_both Hs He; use_agree Hl; fin Hs He.
    - inv_both Hs He; use_agree Hl; fin Hs He.
    - inv_both Hs He; use_agree Hl; fin Hs He.
    - destruct (sort_of rw G lets p1) as [[|]|] eqn:E1; try discriminate Hs.
      destruct (sort_of rw G lets p2) as [ta|] eqn:E2; try discriminate Hs.
      destruct (sort_of rw G lets p3) as [tb|] eqn:E3; try discriminate Hs.
      destruct (sort_eqb ta tb) eqn:Ec; try discriminate Hs.
      apply sort_eqb_eq in Ec. inversion Hs; subst.
      destruct (eval rw s lv p1) as [[|cb]|] eqn:Evc; try discriminate He.
      destruct (eval rw s lv p2) as [va|] eqn:Eva; try discriminate He.
      destruct (eval rw s lv p3) as [vb|] eqn:Evb; try discriminate He.
      destruct (sort_eqb (sort_of_val va) (sort_of_val vb)); try discriminate He.
      inversion He; subst. destruct cb; [exact (IHp2 _ _ _ _ Hl E2 Eva) | exact (IHp3 _ _ _ _ Hl E3 Evb)].
    - inv_both Hs He; use_agree Hl; fin Hs He.
    - inv_both Hs He; use_agree Hl; fin Hs He.
    - inv_both Hs He; use_agree Hl; fin Hs He.
    - exact (app_go_agree G s h l lets lv H Hl [] [] t vv eq_refl Hs He).
    - discriminate Hs.
  Qed.

  (* if a pure that the checker accepts evaluates at all (some read local may be unassigned), the value has
     the predicted sort; only sort consistency of the environments is needed *)
  Theorem sort_of_agree : forall p G lets s lv t v,
    consistent G (locals s) -> consistent lets lv -> sort_of rw G lets p = Some t -> eval rw s lv p = Some v ->
    sort_of_val v = t.
  Proof. intros p G lets s lv t v HG Hl Hs He. exact (sort_of_agree_aux G s HG p lets lv t v Hl Hs He). Qed.
End Agree.
Print Assumptions sort_of_agree.

(* ================================================================== effects *)
Lemma lookup_filter_some {A} (f : string * A -> bool) x l t :
  lookup x (filter f l) = Some t -> f (x, t) = true.
Proof.
  induction l as [|[y u] l IH]; cbn [filter]; [discriminate|].
  destruct (f (y, u)) eqn:Ef; [|exact IH].
  rewrite lookup_cons. destruct (String.eqb x y) eqn:E; [|exact IH].
  apply String.eqb_eq in E. intro H. inversion H; subst. exact Ef.
Qed.
Lemma lookup_filter_keep {A} (f : string * A -> bool) x l t :
  lookup x l = Some t -> f (x, t) = true -> lookup x (filter f l) = Some t.
Proof.
  intros H Hf. induction l as [|[y u] l IH]; [discriminate H|].
  rewrite lookup_cons in H. cbn [filter]. destruct (String.eqb x y) eqn:E.
  - apply String.eqb_eq in E. inversion H; subst. rewrite Hf, lookup_cons, String.eqb_refl. reflexivity.
  - destruct (f (y, u)); [rewrite lookup_cons, E|]; exact (IH H).
Qed.

(* the bindings on which two environments agree *)
Definition inter (D1 D2 : lenv) : lenv :=
  filter (fun xt => match lookup (fst xt) D1, lookup (fst xt) D2 with
                    | Some a, Some b => sort_eqb a (snd xt) && sort_eqb b (snd xt)
                    | _, _ => false end) D1.
Lemma inter_spec D1 D2 x t :
  lookup x (inter D1 D2) = Some t <-> lookup x D1 = Some t /\ lookup x D2 = Some t.
Proof.
  unfold inter. split.
  - intro H. apply lookup_filter_some in H. cbn [fst snd] in H.
    destruct (lookup x D1) as [a|]; [|discriminate H]. destruct (lookup x D2) as [b|]; [|discriminate H].
    apply andb_true_iff in H. destruct H as [Ha Hb]. apply sort_eqb_eq in Ha, Hb. subst. auto.
  - intros [H1 H2]. apply lookup_filter_keep; [exact H1|]. cbn [fst snd]. rewrite H1, H2, sort_eqb_refl. reflexivity.
Qed.

Fixpoint depth (e : effect) : nat :=
  match e with
  | ESeq a b | EBranch _ a b => S (Nat.max (depth a) (depth b))
  | ERepeat _ b => S (depth b)
  | _ => 1%nat
  end.
Fixpoint no_repeat (e : effect) : bool :=
  match e with
  | ESeq a b | EBranch _ a b => no_repeat a && no_repeat b
  | ERepeat _ _ => false
  | _ => true
  end.
Fixpoint no_repeat_no_call (e : effect) : bool :=
  match e with
  | ESeq a b | EBranch _ a b => no_repeat_no_call a && no_repeat_no_call b
  | ERepeat _ _ | ECall _ _ => false
  | _ => true
  end.
(* neither EBranch nor ERepeat *)
Fixpoint branch_free (e : effect) : bool :=
  match e with
  | ESeq a b => branch_free a && branch_free b
  | EBranch _ _ _ | ERepeat _ _ => false
  | _ => true
  end.

Section Effects.
  Variable rw : regwidth.
  Variable subs : subenv.

  (* every call in e goes to a sub-routine the environment does not know (it is then an opaque event).
     wf_effect does not look into callee bodies, so nothing can be claimed about known callees. *)
  Fixpoint calls_opaque (e : effect) : Prop :=
    match e with
    | ESeq a b | EBranch _ a b => calls_opaque a /\ calls_opaque b
    | ERepeat _ b => calls_opaque b
    | ECall f _ => subs f = None
    | _ => True
    end.
  Lemma no_call_opaque e : no_repeat_no_call e = true -> calls_opaque e.
  Proof.
    induction e; cbn [no_repeat_no_call calls_opaque]; intro H; auto; try discriminate H;
      apply andb_true_iff in H; destruct H; auto.
  Qed.
  Lemma no_call_no_repeat e : no_repeat_no_call e = true -> no_repeat e = true.
  Proof.
    induction e; cbn [no_repeat_no_call no_repeat]; intro H; auto;
      apply andb_true_iff in H; destruct H; apply andb_true_iff; auto.
  Qed.

  (* ---------------------------------------------------------------- inversion of the atomic cases *)
  Lemma wf_setl_inv G G' x p :
    wf_effect rw G (ESetL x p) = Some G' ->
    exists t, sort_of rw G [] p = Some t /\ lookup x G' = Some t /\ ext G G' /\
              (G' = G \/ (lookup x G = None /\ G' = (x, t) :: G)).
  Proof.
    cbn [wf_effect]. intro H. destruct (sort_of rw G [] p) as [t|]; [|discriminate H].
    exists t. split; [reflexivity|]. destruct (lookup x G) as [t0|] eqn:El.
    - destruct (sort_eqb t0 t) eqn:Ec; [|discriminate H]. apply sort_eqb_eq in Ec. inversion H; subst.
      split; [exact El|]. split; [apply ext_refl | auto].
    - inversion H; subst. split; [rewrite lookup_cons, String.eqb_refl; reflexivity|].
      split; [apply ext_cons_fresh; exact El | auto].
  Qed.
  Lemma wf_writereg_inv G G' r p :
    wf_effect rw G (EWriteReg r p) = Some G' -> G' = G /\ sort_of rw G [] p = Some (SBv (rw r)).
  Proof.
    cbn [wf_effect]. intro H. destruct (sort_of rw G [] p) as [[|w]|]; try discriminate H.
    destruct (N.eqb w (rw r)) eqn:E; [|discriminate H]. apply N.eqb_eq in E. inversion H; subst. auto.
  Qed.
  Lemma wf_store_inv G G' a v :
    wf_effect rw G (EStore a v) = Some G' ->
    G' = G /\ exists wa wv, sort_of rw G [] a = Some (SBv wa) /\ sort_of rw G [] v = Some (SBv wv).
  Proof.
    cbn [wf_effect]. intro H. destruct (sort_of rw G [] a) as [[|wa]|]; try discriminate H.
    destruct (sort_of rw G [] v) as [[|wv]|]; try discriminate H. inversion H; subst. eauto.
  Qed.

  (* ---------------------------------------------------------------- monotonicity of the checker *)
  Lemma wf_effect_mono : forall e G G', wf_effect rw G e = Some G' -> ext G G'.
  Proof.
    induction e; intros G G' H.
    - apply wf_setl_inv in H. destruct H as (t & _ & _ & He & _). exact He.
    - apply wf_writereg_inv in H. destruct H as [-> _]. apply ext_refl.
    - apply wf_store_inv in H. destruct H as [-> _]. apply ext_refl.
    - cbn [wf_effect] in H. destruct (wf_effect rw G e1) as [G1|] eqn:E1; [|discriminate H].
      eapply ext_trans; eauto.
    - cbn [wf_effect] in H. destruct (sort_of rw G [] c) as [[|]|]; try discriminate H.
      destruct (wf_effect rw G e1) as [G1|] eqn:E1; [|discriminate H].
      eapply ext_trans; eauto.
    - cbn [wf_effect] in H. destruct (sort_of rw G [] c) as [[|]|]; try discriminate H. eauto.
    - inversion H; subst; apply ext_refl.
    - inversion H; subst; apply ext_refl.
    - inversion H; subst; apply ext_refl.
    - inversion H; subst; apply ext_refl.
  Qed.

  (* ---------------------------------------------------------------- the machine never forgets a local
     nor changes its sort (unconditionally: ESetL checks the sort at run time) *)
  Lemma exec_locals_mono : forall fuel e s s', exec rw subs fuel e s = Some s' ->
    forall x v, lookup x (locals s) = Some v ->
    exists v', lookup x (locals s') = Some v' /\ sort_of_val v' = sort_of_val v.
  Proof.
    induction fuel as [|k IH]; intros e s s' He x v Hx; [discriminate He|].
    destruct e; cbn [exec] in He.
    - destruct (eval rw s [] p) as [v0|]; [|discriminate He].
      destruct (lookup x0 (locals s)) as [old|] eqn:El.
      + destruct (sort_eqb (sort_of_val old) (sort_of_val v0)) eqn:Ec; [|discriminate He].
        apply sort_eqb_eq in Ec. inversion He; subst. cbn [locals set_local]. rewrite lookup_cons.
        destruct (String.eqb x x0) eqn:E; [|eauto].
        apply String.eqb_eq in E. subst. rewrite El in Hx. inversion Hx; subst. eauto.
      + inversion He; subst. cbn [locals set_local]. rewrite lookup_cons.
        destruct (String.eqb x x0) eqn:E; [|eauto].
        apply String.eqb_eq in E. subst. congruence.
    - destruct (eval rw s [] p) as [[w v0|]|]; try discriminate He.
      destruct (N.eqb w (rw r)); [|discriminate He]. inversion He; subst. cbn [locals set_reg]. eauto.
    - destruct (eval rw s [] addr) as [[wa xa|]|]; try discriminate He.
      destruct (eval rw s [] v0) as [[wv xv|]|]; try discriminate He.
      inversion He; subst. cbn [locals set_mem]. eauto.
    - destruct (exec rw subs k e1 s) as [s1|] eqn:E1; [|discriminate He].
      destruct (IH _ _ _ E1 _ _ Hx) as (v1 & Hx1 & S1).
      destruct (IH _ _ _ He _ _ Hx1) as (v2 & Hx2 & S2). exists v2. split; [exact Hx2 | congruence].
    - destruct (eval rw s [] c) as [[|[|]]|]; try discriminate He; eauto.
    - destruct (eval rw s [] c) as [[|[|]]|]; try discriminate He.
      + destruct (exec rw subs k e s) as [s1|] eqn:E1; [|discriminate He].
        destruct (IH _ _ _ E1 _ _ Hx) as (v1 & Hx1 & S1).
        destruct (IH _ _ _ He _ _ Hx1) as (v2 & Hx2 & S2). exists v2. split; [exact Hx2 | congruence].
      + inversion He; subst. eauto.
    - inversion He; subst. eauto.
    - inversion He; subst. eauto.
    - destruct (subs f) as [[ps body]|]; [eauto|]. inversion He; subst. cbn [locals add_event]. eauto.
    - inversion He; subst. cbn [locals add_event]. eauto.
  Qed.

  Corollary exec_env_ok_stable fuel e s s' D :
    exec rw subs fuel e s = Some s' -> env_ok D (locals s) -> env_ok D (locals s').
  Proof.
    intros He Hok x t Hx. destruct (Hok _ _ Hx) as (v & Hv & Sv).
    destruct (exec_locals_mono _ _ _ _ He _ _ Hv) as (v' & Hv' & Sv'). exists v'. split; [exact Hv' | congruence].
  Qed.

  Lemma consistent_set H l x v :
    consistent H l -> (forall t, lookup x H = Some t -> sort_of_val v = t) -> consistent H ((x, v) :: l).
  Proof.
    intros Hc Hx y t v' Hy. rewrite lookup_cons. destruct (String.eqb y x) eqn:E.
    - apply String.eqb_eq in E. subst. intro Hv. inversion Hv; subst. auto.
    - eauto.
  Qed.
  Lemma env_ok_set D l x v :
    env_ok D l -> (forall t, lookup x D = Some t -> sort_of_val v = t) -> env_ok D ((x, v) :: l).
  Proof.
    intros Hc Hx y t Hy. rewrite lookup_cons. destruct (String.eqb y x) eqn:E.
    - apply String.eqb_eq in E. subst. eauto.
    - eauto.
  Qed.

  (* ---------------------------------------------------------------- Theorem 3a: preservation (sort consistency)
     H is any environment extending the checker's result; the invariant is stated against H so that it is
     stable along the whole run (wf_effect threads G through arms that are not executed, so G itself is not
     an invariant of the state).  ERepeat is covered (any fuel); calls must be opaque. *)
  Theorem wf_effect_preservation : forall fuel e G G' H s s',
    wf_effect rw G e = Some G' -> calls_opaque e -> ext G' H -> consistent H (locals s) ->
    exec rw subs fuel e s = Some s' -> consistent H (locals s').
  Proof.
    induction fuel as [|k IH]; intros e G G' H s s' Hwf Hop Hext Hc He; [discriminate He|].
    destruct e; cbn [exec] in He.
    - destruct (wf_setl_inv _ _ _ _ Hwf) as (t & Es & Hx & HGG & _).
      destruct (eval rw s [] p) as [v|] eqn:Ev; [|discriminate He].
      assert (Sv : sort_of_val v = t).
      { eapply (sort_of_agree rw p G [] s [] t v); eauto using consistent_nil_l.
        eapply consistent_ext; [|exact Hc]. eapply ext_trans; eauto. }
      assert (Hs' : s' = set_local s x v).
      { destruct (lookup x (locals s)); [destruct (sort_eqb _ _)|]; congruence. }
      subst s'. cbn [locals set_local]. apply consistent_set; [exact Hc|].
      intros t' Ht'. apply Hext in Hx. congruence.
    - destruct (eval rw s [] p) as [[w v0|]|]; try discriminate He.
      destruct (N.eqb w (rw r)); [|discriminate He]. inversion He; subst. exact Hc.
    - destruct (eval rw s [] addr) as [[wa xa|]|]; try discriminate He.
      destruct (eval rw s [] v) as [[wv xv|]|]; try discriminate He.
      inversion He; subst. exact Hc.
    - cbn [wf_effect] in Hwf. destruct (wf_effect rw G e1) as [G1|] eqn:W1; [|discriminate Hwf].
      destruct Hop as [Hop1 Hop2].
      destruct (exec rw subs k e1 s) as [s1|] eqn:E1; [|discriminate He].
      pose proof (wf_effect_mono _ _ _ Hwf) as M2.
      assert (Hc1 : consistent H (locals s1)).
      { eapply (IH e1 G G1 H s s1); eauto. eapply ext_trans; eauto. }
      eapply (IH e2 G1 G' H s1 s'); eauto.
    - cbn [wf_effect] in Hwf. destruct (sort_of rw G [] c) as [[|]|]; try discriminate Hwf.
      destruct (wf_effect rw G e1) as [G1|] eqn:W1; [|discriminate Hwf].
      destruct Hop as [Hop1 Hop2]. pose proof (wf_effect_mono _ _ _ Hwf) as M2.
      destruct (eval rw s [] c) as [[|[|]]|]; try discriminate He.
      + eapply (IH e1 G G1 H s s'); eauto. eapply ext_trans; eauto.
      + eapply (IH e2 G1 G' H s s'); eauto.
    - pose proof Hwf as Hwf0. cbn [wf_effect] in Hwf. destruct (sort_of rw G [] c) as [[|]|]; try discriminate Hwf.
      cbn [calls_opaque] in Hop.
      destruct (eval rw s [] c) as [[|[|]]|]; try discriminate He.
      + destruct (exec rw subs k e s) as [s1|] eqn:E1; [|discriminate He].
        assert (Hc1 : consistent H (locals s1)) by (eapply (IH e G G' H s s1); eauto).
        eapply (IH (ERepeat c e) G G' H s1 s'); eauto.
      + inversion He; subst. exact Hc.
    - inversion He; subst. exact Hc.
    - inversion He; subst. exact Hc.
    - cbn [calls_opaque] in Hop. rewrite Hop in He. inversion He; subst. exact Hc.
    - inversion He; subst. exact Hc.
  Qed.

  (* the form asked for: a local never holds a value of another sort than the one recorded *)
  Corollary wf_effect_sort_consistency : forall fuel e G G' s s',
    wf_effect rw G e = Some G' -> calls_opaque e -> consistent G' (locals s) ->
    exec rw subs fuel e s = Some s' ->
    forall x t v, lookup x G' = Some t -> lookup x (locals s') = Some v -> sort_of_val v = t.
  Proof.
    intros fuel e G G' s s' Hwf Hop Hc He.
    exact (wf_effect_preservation fuel e G G' G' s s' Hwf Hop (ext_refl G') Hc He).
  Qed.

  (* same, from the more familiar precondition "the state and G agree exactly" (e.g. both empty), and
     together with the part of definite assignment that does survive: what was assigned stays assigned *)
  Corollary wf_effect_preservation_exact : forall fuel e G G' s s',
    wf_effect rw G e = Some G' -> calls_opaque e ->
    env_ok G (locals s) -> locals_in G (locals s) ->
    exec rw subs fuel e s = Some s' ->
    env_ok G (locals s') /\ consistent G' (locals s').
  Proof.
    intros fuel e G G' s s' Hwf Hop Hok Hin He. split.
    - eapply exec_env_ok_stable; eauto.
    - eapply wf_effect_preservation; eauto using ext_refl.
      eapply locals_in_consistent; eauto. eapply wf_effect_mono; eauto.
  Qed.

  (* ---------------------------------------------------------------- definite assignment
     wf_effect is a "may" analysis (one global table, arms threaded): it cannot justify progress.
     da_effect is the matching "must" analysis: both arms are checked from the same D and only the bindings
     they agree on survive; a loop body may run zero times so it contributes nothing. *)
  Fixpoint da_effect (D : lenv) (e : effect) : option lenv :=
    match e with
    | ESeq a b => match da_effect D a with Some D1 => da_effect D1 b | None => None end
    | EBranch c t f =>
        match sort_of rw D [] c with
        | Some SBool =>
            match da_effect D t, da_effect D f with Some D1, Some D2 => Some (inter D1 D2) | _, _ => None end
        | _ => None end
    | ERepeat c b =>
        match sort_of rw D [] c with
        | Some SBool => match da_effect D b with Some _ => Some D | None => None end
        | _ => None end
    | _ => wf_effect rw D e
    end.

  Lemma da_wf_branch_free : forall e D, branch_free e = true -> da_effect D e = wf_effect rw D e.
  Proof.
    induction e; intros D Hb; cbn [branch_free] in Hb; try discriminate Hb; try reflexivity.
    apply andb_true_iff in Hb. destruct Hb as [H1 H2]. cbn [da_effect wf_effect].
    rewrite (IHe1 _ H1). destruct (wf_effect rw D e1); auto.
  Qed.

  Lemma da_effect_mono : forall e D D', da_effect D e = Some D' -> ext D D'.
  Proof.
    induction e; intros D D' H; cbn [da_effect] in H; try (eapply wf_effect_mono; exact H).
    - destruct (da_effect D e1) as [D1|] eqn:E1; [|discriminate H]. eapply ext_trans; eauto.
    - destruct (sort_of rw D [] c) as [[|]|]; try discriminate H.
      destruct (da_effect D e1) as [D1|] eqn:E1; [|discriminate H].
      destruct (da_effect D e2) as [D2|] eqn:E2; [|discriminate H].
      inversion H; subst. intros x t Hx. apply inter_spec. split; [eapply IHe1 | eapply IHe2]; eauto.
    - destruct (sort_of rw D [] c) as [[|]|]; try discriminate H.
      destruct (da_effect D e) as [D1|]; [|discriminate H]. inversion H; subst. apply ext_refl.
  Qed.

  (* Theorem 3b: preservation of definite assignment, for every effect (calls included) and every fuel *)
  Theorem da_effect_preservation : forall fuel e D D' s s',
    da_effect D e = Some D' -> env_ok D (locals s) -> exec rw subs fuel e s = Some s' ->
    env_ok D' (locals s').
  Proof.
    induction fuel as [|k IH]; intros e D D' s s' Hda Hok He; [discriminate He|].
    destruct e; cbn [da_effect] in Hda.
    - destruct (wf_setl_inv _ _ _ _ Hda) as (t & Es & Hx & HDD & Hcase).
      destruct (sort_of_sound rw p D [] s [] t Hok (env_ok_nil _) Es) as (v & Ev & Sv).
      cbn [exec] in He. rewrite Ev in He.
      assert (Hs' : s' = set_local s x v).
      { destruct (lookup x (locals s)); [destruct (sort_eqb _ _)|]; congruence. }
      subst s'. cbn [locals set_local]. destruct Hcase as [-> | [Hn ->]].
      + apply env_ok_set; [exact Hok|]. intros t' Ht'. congruence.
      + apply env_ok_cons; assumption.
    - apply wf_writereg_inv in Hda. destruct Hda as [-> _]. eapply exec_env_ok_stable; eauto.
    - apply wf_store_inv in Hda. destruct Hda as [-> _]. eapply exec_env_ok_stable; eauto.
    - cbn [exec] in He. destruct (da_effect D e1) as [D1|] eqn:W1; [|discriminate Hda].
      destruct (exec rw subs k e1 s) as [s1|] eqn:E1; [|discriminate He].
      eapply (IH e2 D1 D' s1 s'); eauto.
    - cbn [exec] in He. destruct (sort_of rw D [] c) as [[|]|]; try discriminate Hda.
      destruct (da_effect D e1) as [D1|] eqn:W1; [|discriminate Hda].
      destruct (da_effect D e2) as [D2|] eqn:W2; [|discriminate Hda].
      inversion Hda; subst.
      destruct (eval rw s [] c) as [[|[|]]|]; try discriminate He.
      + eapply env_ok_ext; [|eapply (IH e1 D D1 s s'); eauto]. intros x t Hx. apply inter_spec in Hx. tauto.
      + eapply env_ok_ext; [|eapply (IH e2 D D2 s s'); eauto]. intros x t Hx. apply inter_spec in Hx. tauto.
    - destruct (sort_of rw D [] c) as [[|]|]; try discriminate Hda.
      destruct (da_effect D e) as [D1|]; [|discriminate Hda]. inversion Hda; subst.
      eapply exec_env_ok_stable; eauto.
    - inversion Hda; subst. eapply exec_env_ok_stable; eauto.
    - inversion Hda; subst. eapply exec_env_ok_stable; eauto.
    - inversion Hda; subst. eapply exec_env_ok_stable; eauto.
    - inversion Hda; subst. eapply exec_env_ok_stable; eauto.
  Qed.

  (* the statement of the task holds literally for effects without EBranch / ERepeat *)
  Corollary wf_effect_preservation_branch_free : forall fuel e G G' s s',
    branch_free e = true -> wf_effect rw G e = Some G' -> env_ok G (locals s) ->
    exec rw subs fuel e s = Some s' -> env_ok G' (locals s').
  Proof.
    intros fuel e G G' s s' Hb Hwf Hok He. eapply da_effect_preservation; eauto.
    rewrite da_wf_branch_free; assumption.
  Qed.

  (* ---------------------------------------------------------------- Theorem 3c: progress *)
  Lemma progress_aux : forall e G G' H D D' s fuel,
    wf_effect rw G e = Some G' -> ext G' H -> consistent H (locals s) ->
    da_effect D e = Some D' -> env_ok D (locals s) ->
    no_repeat e = true -> calls_opaque e -> (depth e <= fuel)%nat ->
    exists s', exec rw subs fuel e s = Some s'.
  Proof.
    induction e; intros G G' H D D' s fuel Hwf Hext Hc Hda Hok Hnr Hop Hfuel;
      (destruct fuel as [|k]; [cbn [depth] in Hfuel; lia|]); cbn [exec]; cbn [da_effect] in Hda.
    - destruct (wf_setl_inv _ _ _ _ Hda) as (t & Es & _).
      destruct (sort_of_sound rw p D [] s [] t Hok (env_ok_nil _) Es) as (v & Ev & Sv). rewrite Ev.
      destruct (wf_setl_inv _ _ _ _ Hwf) as (t' & Es' & Hx & HGG & _).
      assert (Sv' : sort_of_val v = t').
      { eapply (sort_of_agree rw p G [] s [] t' v); eauto using consistent_nil_l.
        eapply consistent_ext; [|exact Hc]. eapply ext_trans; eauto. }
      destruct (lookup x (locals s)) as [old|] eqn:El; [|eauto].
      apply Hext in Hx. rewrite (Hc _ _ _ Hx El), Sv', sort_eqb_refl. eauto.
    - apply wf_writereg_inv in Hda. destruct Hda as [_ Es].
      destruct (sort_of_sound rw p D [] s [] _ Hok (env_ok_nil _) Es) as (v & Ev & Sv). rewrite Ev.
      destruct (sort_bv_inv _ _ Sv) as [z ->]. rewrite N.eqb_refl. eauto.
    - apply wf_store_inv in Hda. destruct Hda as [_ (wa & wv & Ea & Ev)].
      destruct (sort_of_sound rw addr D [] s [] _ Hok (env_ok_nil _) Ea) as (va & Eva & Sva). rewrite Eva.
      destruct (sort_of_sound rw v D [] s [] _ Hok (env_ok_nil _) Ev) as (vv & Evv & Svv). rewrite Evv.
      destruct (sort_bv_inv _ _ Sva) as [za ->]. destruct (sort_bv_inv _ _ Svv) as [zv ->]. eauto.
    - cbn [wf_effect] in Hwf. destruct (wf_effect rw G e1) as [G1|] eqn:W1; [|discriminate Hwf].
      destruct (da_effect D e1) as [D1|] eqn:A1; [|discriminate Hda].
      cbn [no_repeat] in Hnr. apply andb_true_iff in Hnr. destruct Hnr as [Hn1 Hn2]. destruct Hop as [Hop1 Hop2].
      cbn [depth] in Hfuel. pose proof (wf_effect_mono _ _ _ Hwf) as M2.
      assert (Hext1 : ext G1 H) by (eapply ext_trans; eauto).
      destruct (IHe1 G G1 H D D1 s k W1 Hext1 Hc A1 Hok Hn1 Hop1 ltac:(lia)) as (s1 & E1). rewrite E1.
      eapply (IHe2 G1 G' H D1 D' s1 k); eauto; [| |lia].
      + exact (wf_effect_preservation k e1 G G1 H s s1 W1 Hop1 Hext1 Hc E1).
      + exact (da_effect_preservation k e1 D D1 s s1 A1 Hok E1).
    - cbn [wf_effect] in Hwf. destruct (sort_of rw G [] c) as [[|]|]; try discriminate Hwf.
      destruct (wf_effect rw G e1) as [G1|] eqn:W1; [|discriminate Hwf].
      destruct (sort_of rw D [] c) as [[|]|] eqn:Ec; try discriminate Hda.
      destruct (da_effect D e1) as [D1|] eqn:A1; [|discriminate Hda].
      destruct (da_effect D e2) as [D2|] eqn:A2; [|discriminate Hda].
      cbn [no_repeat] in Hnr. apply andb_true_iff in Hnr. destruct Hnr as [Hn1 Hn2]. destruct Hop as [Hop1 Hop2].
      cbn [depth] in Hfuel. pose proof (wf_effect_mono _ _ _ Hwf) as M2.
      destruct (sort_of_sound rw c D [] s [] _ Hok (env_ok_nil _) Ec) as (vc & Evc & Svc). rewrite Evc.
      destruct (sort_bool_inv _ Svc) as [cb ->]. destruct cb.
      + eapply (IHe1 G G1 H D D1 s k); eauto; [|lia]. eapply ext_trans; eauto.
      + eapply (IHe2 G1 G' H D D2 s k); eauto; lia.
    - discriminate Hnr.
    - eauto.
    - eauto.
    - cbn [calls_opaque] in Hop. rewrite Hop. eauto.
    - eauto.
  Qed.

  (* Progress for loop-free effects whose calls are opaque, for EVERY fuel >= depth e.
     Side conditions beyond the task's wording, each one necessary (counterexamples below):
       - da_effect D e = Some D' with env_ok D (locals s): reads only of definitely assigned locals
         (wf_effect alone accepts an else-arm reading a local that only the then-arm sets);
       - consistent H (locals s) for some H extending G': locals the state already holds must not clash with
         the sorts the effect is going to give them (ESetL is checked at run time against the old value). *)
  Theorem wf_effect_progress : forall e G G' H D D' s fuel,
    wf_effect rw G e = Some G' -> ext G' H -> consistent H (locals s) ->
    da_effect D e = Some D' -> env_ok D (locals s) ->
    no_repeat e = true -> calls_opaque e -> (depth e <= fuel)%nat ->
    exists s', exec rw subs fuel e s = Some s' /\ env_ok D' (locals s') /\ consistent H (locals s').
  Proof.
    intros e G G' H D D' s fuel Hwf Hext Hc Hda Hok Hnr Hop Hfuel.
    destruct (progress_aux e G G' H D D' s fuel Hwf Hext Hc Hda Hok Hnr Hop Hfuel) as (s' & He).
    exists s'. split; [exact He|]. split.
    - eapply da_effect_preservation; eauto.
    - eapply wf_effect_preservation; eauto.
  Qed.

  (* from an empty local store (how every instruction starts) *)
  Corollary wf_effect_progress_init : forall e G' D' s,
    wf_effect rw [] e = Some G' -> da_effect [] e = Some D' -> no_repeat_no_call e = true -> locals s = [] ->
    exists fuel s', exec rw subs fuel e s = Some s' /\ env_ok D' (locals s') /\ consistent G' (locals s').
  Proof.
    intros e G' D' s Hwf Hda Hn Hl. exists (depth e).
    eapply (wf_effect_progress e [] G' G' [] D' s (depth e)); eauto using ext_refl, no_call_opaque, no_call_no_repeat.
    - rewrite Hl. apply consistent_nil_r.
    - apply env_ok_nil.
  Qed.

  (* straight-line effects: wf_effect alone is enough, and the result environment is fully assigned *)
  Corollary wf_effect_progress_branch_free : forall e G G' s,
    branch_free e = true -> no_repeat_no_call e = true ->
    wf_effect rw G e = Some G' -> env_ok G (locals s) -> consistent G' (locals s) ->
    exists fuel s', exec rw subs fuel e s = Some s' /\ env_ok G' (locals s').
  Proof.
    intros e G G' s Hb Hn Hwf Hok Hc. exists (depth e).
    destruct (wf_effect_progress e G G' G' G G' s (depth e)) as (s' & He & Hok' & _);
      eauto using ext_refl, no_call_opaque, no_call_no_repeat.
    rewrite da_wf_branch_free; assumption.
  Qed.
End Effects.
Print Assumptions wf_effect_preservation.
Print Assumptions wf_effect_sort_consistency.
Print Assumptions da_effect_preservation.
Print Assumptions wf_effect_progress.
Print Assumptions wf_effect_progress_init.
Print Assumptions wf_effect_progress_branch_free.

(* ================================================================== weakening (not needed above, kept as tools) *)
Section Weaken.
  Variable rw : regwidth.

  Definition weak_at (G G' : lenv) (p : pure) : Prop :=
    forall lets t, sort_of rw G lets p = Some t -> sort_of rw G' lets p = Some t.

  Lemma app_go_weaken G G' h (l : list pure) lets :
    Forall (weak_at G G') l ->
    forall acc t,
      (fix go (l : list pure) (acc : list sort) : option sort :=
         match l with
         | [] => app_sort h (rev acc)
         | x :: t => match sort_of rw G lets x with Some v => go t (v :: acc) | None => None end
         end) l acc = Some t ->
      (fix go (l : list pure) (acc : list sort) : option sort :=
         match l with
         | [] => app_sort h (rev acc)
         | x :: t => match sort_of rw G' lets x with Some v => go t (v :: acc) | None => None end
         end) l acc = Some t.
  Proof.
    intros HF. induction HF as [|x l Hx HF IH]; intros acc t Hs; [exact Hs|].
    destruct (sort_of rw G lets x) as [tx|] eqn:Ex; [|discriminate Hs].
    rewrite (Hx _ _ Ex). apply IH. exact Hs.
  Qed.

  Ltac inv_sort Hs :=
    repeat match type of Hs with
    | match sort_of ?r ?G ?l ?p with _ => _ end = Some _ => destruct (sort_of r G l p) eqn:?; try discriminate Hs
    | match ?x with _ => _ end = Some _ => is_var x; destruct x; try discriminate Hs
    | (if ?c then _ else _) = Some _ => destruct c eqn:?; try discriminate Hs
    end.
  Ltac use_weak :=
    repeat match goal with
    | IH : weak_at ?G ?G' ?p, E : sort_of _ ?G ?l ?p = Some ?t |- _ => rewrite (IH _ _ E); clear IH
    end;
    repeat match goal with Hc : ?c = true |- context [if ?c then _ else _] => rewrite Hc end.

  Lemma sort_of_weaken_aux G G' : ext G G' -> forall p, weak_at G G' p.
  Proof.
    intros Hext. induction p using pure_ind'; intros lets t Hs; cbn [sort_of] in Hs |- *;
      try exact Hs; try (inv_sort Hs; use_weak; exact Hs).
    - apply Hext; exact Hs.
    - destruct (sort_of rw G lets p1) as [t1|] eqn:E1; [|discriminate Hs].
      rewrite (IHp1 _ _ E1). apply IHp2. exact Hs.
    - exact (app_go_weaken G G' h l lets H [] t Hs).
  Qed.
  Lemma sort_of_weaken G G' : ext G G' -> forall p lets t,
    sort_of rw G lets p = Some t -> sort_of rw G' lets p = Some t.
  Proof. intros Hext p. exact (sort_of_weaken_aux G G' Hext p). Qed.

  (* the checker's result is a fixed point: e is accepted again, unchanged, from any extension of it *)
  Lemma wf_effect_stable : forall e G G1 H, wf_effect rw G e = Some G1 -> ext G1 H -> wf_effect rw H e = Some H.
  Proof.
    induction e; intros G G1 H Hwf Hext; try reflexivity.
    - destruct (wf_setl_inv _ _ _ _ _ Hwf) as (t & Es & Hx & HGG & _). cbn [wf_effect].
      rewrite (sort_of_weaken G H (ext_trans _ _ _ HGG Hext) _ _ _ Es), (Hext _ _ Hx), sort_eqb_refl. reflexivity.
    - destruct (wf_writereg_inv _ _ _ _ _ Hwf) as [-> Es]. cbn [wf_effect].
      rewrite (sort_of_weaken G H Hext _ _ _ Es), N.eqb_refl. reflexivity.
    - destruct (wf_store_inv _ _ _ _ _ Hwf) as [-> (wa & wv & Ea & Ev)]. cbn [wf_effect].
      rewrite (sort_of_weaken G H Hext _ _ _ Ea), (sort_of_weaken G H Hext _ _ _ Ev). reflexivity.
    - cbn [wf_effect] in Hwf |- *. destruct (wf_effect rw G e1) as [Ga|] eqn:W1; [|discriminate Hwf].
      pose proof (wf_effect_mono _ _ _ _ Hwf) as M2.
      rewrite (IHe1 G Ga H W1 (ext_trans _ _ _ M2 Hext)). exact (IHe2 Ga G1 H Hwf Hext).
    - cbn [wf_effect] in Hwf |- *. destruct (sort_of rw G [] c) as [[|]|] eqn:Ec; try discriminate Hwf.
      destruct (wf_effect rw G e1) as [Ga|] eqn:W1; [|discriminate Hwf].
      pose proof (wf_effect_mono _ _ _ _ Hwf) as M2. pose proof (wf_effect_mono _ _ _ _ W1) as M1.
      rewrite (sort_of_weaken G H (ext_trans _ _ _ M1 (ext_trans _ _ _ M2 Hext)) _ _ _ Ec).
      rewrite (IHe1 G Ga H W1 (ext_trans _ _ _ M2 Hext)). exact (IHe2 Ga G1 H Hwf Hext).
    - cbn [wf_effect] in Hwf |- *. destruct (sort_of rw G [] c) as [[|]|] eqn:Ec; try discriminate Hwf.
      pose proof (wf_effect_mono _ _ _ _ Hwf) as M1.
      rewrite (sort_of_weaken G H (ext_trans _ _ _ M1 Hext) _ _ _ Ec). exact (IHe G G1 H Hwf Hext).
  Qed.
End Weaken.
Print Assumptions sort_of_weaken.
Print Assumptions wf_effect_stable.

(* ================================================================== why the naive statements are false *)
Definition st0 (l : list (string * val)) : mstate :=
  {| locals := l; rold := fun _ => 0; rnew := []; rnew0 := fun _ => 0; imms := fun _ => 0; pktaddr := 0;
     mem := []; mem0 := fun _ => 0; events := [] |}.
Definition rw0 : regwidth := fun _ => 32%N.
Definition subs0 : subenv := fun _ => None.

(* the statements as first worded in the task *)
Definition naive_preservation_statement : Prop :=
  forall rw subs fuel e G G' s s', wf_effect rw G e = Some G' -> env_ok G (locals s) ->
    exec rw subs fuel e s = Some s' -> env_ok G' (locals s').
Definition naive_progress_statement : Prop :=
  forall rw subs e G G' s, wf_effect rw G e = Some G' -> env_ok G (locals s) -> no_repeat_no_call e = true ->
    exists fuel s', exec rw subs fuel e s = Some s'.
Definition naive_consistency_statement : Prop :=
  forall rw subs fuel e G G' s s', wf_effect rw G e = Some G' -> env_ok G (locals s) ->
    exec rw subs fuel e s = Some s' ->
    forall x t v, lookup x G' = Some t -> lookup x (locals s') = Some v -> sort_of_val v = t.

(* (1) a local first set in the arm that is NOT executed is recorded but unassigned *)
Theorem naive_preservation_false : ~ naive_preservation_statement.
Proof.
  intro N.
  pose (e := EBranch (PBool true) ENop (ESetL "x" (PBool true))).
  assert (H : env_ok [("x", SBool)] (locals (st0 []))).
  { apply (N rw0 subs0 2%nat e [] [("x", SBool)] (st0 []) (st0 [])); [reflexivity | apply env_ok_nil | reflexivity]. }
  destruct (H "x" SBool eq_refl) as (v & Hv & _). discriminate Hv.
Qed.

(* (2) from the EMPTY state: the else-arm reads a local that only the then-arm sets; wf_effect accepts it
   (arms are threaded), the machine is stuck whatever the fuel *)
Theorem naive_progress_false : ~ naive_progress_statement.
Proof.
  intro N.
  pose (e := EBranch (PBool false) (ESetL "x" (PBool true)) (ESetL "y" (PVarL "x"))).
  destruct (N rw0 subs0 e [] [("y", SBool); ("x", SBool)] (st0 [])) as (fuel & s' & He);
    [reflexivity | apply env_ok_nil | reflexivity |].
  destruct fuel as [|[|k]]; discriminate He.
Qed.

(* (2') progress also fails for a single assignment when the state holds a local the checker does not know *)
Example progress_needs_consistency :
  let e := ESetL "x" (PBv false 32 0) in
  wf_effect rw0 [] e = Some [("x", SBv 32)] /\ env_ok [] (locals (st0 [("x", VB true)])) /\
  forall fuel, exec rw0 subs0 fuel e (st0 [("x", VB true)]) = None.
Proof. split; [reflexivity|]. split; [apply env_ok_nil|]. intros [|k]; reflexivity. Qed.

(* (3) sort consistency of the result needs consistency of the start state against G' (not just env_ok G) *)
Theorem naive_consistency_false : ~ naive_consistency_statement.
Proof.
  intro N.
  pose (e := EBranch (PBool false) (ESetL "x" (PBv false 32 0)) ENop).
  pose (s := st0 [("x", VB true)]).
  assert (H : sort_of_val (VB true) = SBv 32).
  { apply (N rw0 subs0 2%nat e [] [("x", SBv 32)] s s eq_refl (env_ok_nil _) eq_refl "x" (SBv 32) (VB true));
      reflexivity. }
  discriminate H.
Qed.

(* (4) ... and it needs calls_opaque even from the empty state: a known callee may create the local first *)
Example consistency_needs_opaque_calls :
  let subs1 : subenv := fun f => if String.eqb f "f" then Some ([], ESetL "x" (PBool true)) else None in
  let e := ESeq (EBranch (PBool false) (ESetL "x" (PBv false 32 0)) ENop) (ECall "f" []) in
  wf_effect rw0 [] e = Some [("x", SBv 32)] /\
  exists s', exec rw0 subs1 3 e (st0 []) = Some s' /\ lookup "x" (locals s') = Some (VB true).
Proof. split; [reflexivity|]. eexists. split; reflexivity. Qed.
Print Assumptions naive_preservation_false.
Print Assumptions naive_progress_false.
Print Assumptions naive_consistency_false.
