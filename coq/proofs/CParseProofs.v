(* CParseProofs -- the table-driven reference parser of lib/CParse.v reads back every expression from its
   minimal-parentheses printed form (round trip, all expressions, explicit fuel), hence the printed form
   determines the expression (unambiguity). *)
From Coq Require Import List String Bool Arith Lia.
From RZ.gen Require Import GrammarTables.
From RZ.lib Require Import CParse.
Import ListNotations.
Local Open Scope string_scope.
Local Open Scope list_scope.
Local Open Scope nat_scope.

(* ---------- one-step unfolding equations ---------- *)
Lemma parse_at_S : forall t f max ts,
  parse_at t (S f) max ts =
  match parse_prefix t f ts with
  | Some (u, r) => loop t f max true u r
  | None => None
  end.
Proof. reflexivity. Qed.

Lemma parse_prefix_S : forall t f ts,
  parse_prefix t (S f) ts =
  match ts with
  | TLeaf l :: r => Some (ELeaf l, r)
  | TLP :: r =>
      match parse_at t f (lv_top t) r with
      | Some (e, TRP :: r') => Some (e, r')
      | _ => None
      end
  | TOp s :: r =>
      if mem s (t_un t) then
        match parse_prefix t f r with
        | Some (a, r') => Some (EUn s a, r')
        | None => None
        end
      else None
  | _ => None
  end.
Proof. reflexivity. Qed.

Lemma loop_S : forall t f max fresh lhs ts,
  loop t (S f) max fresh lhs ts =
  match ts with
  | TOp s :: r =>
      match bin_level t s with
      | Some (k, ra) =>
          if k <=? max then
            match parse_at t f (if ra then k else k - 1) r with
            | Some (rhs, r') => loop t f max false (EBin s lhs rhs) r'
            | None => None
            end
          else Some (lhs, ts)
      | None =>
          if fresh && (lv_top t <=? max) && mem s (t_asg t) then
            match parse_at t f (lv_top t) r with
            | Some (rhs, r') => loop t f max false (EAsg s lhs rhs) r'
            | None => None
            end
          else Some (lhs, ts)
      end
  | TQ :: r =>
      if lv_cond t <=? max then
        match parse_at t f (lv_top t) r with
        | Some (a, TColon :: r') =>
            match parse_at t f (lv_cond t) r' with
            | Some (b, r'') => loop t f max false (ECond lhs a b) r''
            | None => None
            end
        | _ => None
        end
      else Some (lhs, ts)
  | _ => Some (lhs, ts)
  end.
Proof. reflexivity. Qed.

(* ---------- more fuel never hurts ---------- *)
Definition mono_at t f := forall max ts res f', parse_at t f max ts = Some res -> f <= f' -> parse_at t f' max ts = Some res.
Definition mono_prefix t f := forall ts res f', parse_prefix t f ts = Some res -> f <= f' -> parse_prefix t f' ts = Some res.
Definition mono_loop t f := forall max fr lhs ts res f', loop t f max fr lhs ts = Some res -> f <= f' -> loop t f' max fr lhs ts = Some res.

Lemma fuel_mono : forall t f, mono_at t f /\ mono_prefix t f /\ mono_loop t f.
Proof.
  intros t f. induction f as [|f [IHa [IHp IHl]]].
  - repeat split; intros until f'; intros H; discriminate H.
  - assert (Ha : mono_at t (S f)).
    { intros max ts res f' H Hle. destruct f' as [|f']; [lia|]. assert (Hle' : f <= f') by lia.
      rewrite parse_at_S in *.
      destruct (parse_prefix t f ts) as [[u r]|] eqn:Hp; [|discriminate H].
      rewrite (IHp _ _ _ Hp Hle'). exact (IHl _ _ _ _ _ _ H Hle'). }
    assert (Hp : mono_prefix t (S f)).
    { intros ts res f' H Hle. destruct f' as [|f']; [lia|]. assert (Hle' : f <= f') by lia.
      rewrite parse_prefix_S in *.
      destruct ts as [|tok r]; [discriminate H|].
      destruct tok as [l|s| | | |]; try discriminate H.
      - exact H.
      - destruct (mem s (t_un t)); [|discriminate H].
        destruct (parse_prefix t f r) as [[a r']|] eqn:Hq; [|discriminate H].
        rewrite (IHp _ _ _ Hq Hle'). exact H.
      - destruct (parse_at t f (lv_top t) r) as [[e r']|] eqn:Hq; [|discriminate H].
        rewrite (IHa _ _ _ _ Hq Hle'). exact H. }
    assert (Hl : mono_loop t (S f)).
    { intros max fr lhs ts res f' H Hle. destruct f' as [|f']; [lia|]. assert (Hle' : f <= f') by lia.
      rewrite loop_S in *.
      destruct ts as [|tok r]; [exact H|].
      destruct tok as [l|s| | | |]; try exact H.
      - destruct (bin_level t s) as [[k ra]|].
        + destruct (k <=? max); [|exact H].
          destruct (parse_at t f (if ra then k else k - 1) r) as [[rhs r']|] eqn:Hq; [|discriminate H].
          rewrite (IHa _ _ _ _ Hq Hle'). exact (IHl _ _ _ _ _ _ H Hle').
        + destruct (fr && (lv_top t <=? max) && mem s (t_asg t)); [|exact H].
          destruct (parse_at t f (lv_top t) r) as [[rhs r']|] eqn:Hq; [|discriminate H].
          rewrite (IHa _ _ _ _ Hq Hle'). exact (IHl _ _ _ _ _ _ H Hle').
      - destruct (lv_cond t <=? max); [|exact H].
        destruct (parse_at t f (lv_top t) r) as [[a r']|] eqn:Hq; [|discriminate H].
        rewrite (IHa _ _ _ _ Hq Hle').
        destruct r' as [|tok' r']; [discriminate H|].
        destruct tok'; try discriminate H.
        destruct (parse_at t f (lv_cond t) r') as [[b r'']|] eqn:Hq2; [|discriminate H].
        rewrite (IHa _ _ _ _ Hq2 Hle'). exact (IHl _ _ _ _ _ _ H Hle'). }
    exact (conj Ha (conj Hp Hl)).
Qed.

Lemma parse_at_mono : forall t f f' max ts res,
  parse_at t f max ts = Some res -> f <= f' -> parse_at t f' max ts = Some res.
Proof. intros t f f' max ts res H Hle. exact (proj1 (fuel_mono t f) _ _ _ _ H Hle). Qed.
Lemma parse_prefix_mono : forall t f f' ts res,
  parse_prefix t f ts = Some res -> f <= f' -> parse_prefix t f' ts = Some res.
Proof. intros t f f' ts res H Hle. exact (proj1 (proj2 (fuel_mono t f)) _ _ _ H Hle). Qed.
Lemma loop_mono : forall t f f' max fr lhs ts res,
  loop t f max fr lhs ts = Some res -> f <= f' -> loop t f' max fr lhs ts = Some res.
Proof. intros t f f' max fr lhs ts res H Hle. exact (proj2 (proj2 (fuel_mono t f)) _ _ _ _ _ _ H Hle). Qed.

(* ---------- facts about the level lookup ---------- *)
Lemma find_bin_range : forall ls k0 s k ra,
  find_bin ls k0 s = Some (k, ra) -> k0 <= k /\ k < k0 + List.length ls.
Proof.
  induction ls as [|[ra0 ops] ls IH]; intros k0 s k ra H; cbn [find_bin] in H.
  - discriminate H.
  - cbn [List.length]. destruct (mem s ops).
    + injection H as Hk Hr. lia.
    + apply IH in H. lia.
Qed.

Lemma find_bin_assoc : forall ls k0 s s' k ra ra',
  find_bin ls k0 s = Some (k, ra) -> find_bin ls k0 s' = Some (k, ra') -> ra = ra'.
Proof.
  induction ls as [|[ra0 ops] ls IH]; intros k0 s s' k ra ra' H H'; cbn [find_bin] in H, H'.
  - discriminate H.
  - destruct (mem s ops), (mem s' ops).
    + injection H as Hk Hr. injection H' as Hk' Hr'. congruence.
    + injection H as Hk Hr. apply find_bin_range in H'. lia.
    + injection H' as Hk' Hr'. apply find_bin_range in H. lia.
    + exact (IH _ _ _ _ _ _ H H').
Qed.

Lemma bin_level_range : forall t s k ra, bin_level t s = Some (k, ra) -> 1 <= k /\ k <= nbin t.
Proof. intros t s k ra H. unfold bin_level in H. apply find_bin_range in H. unfold nbin. lia. Qed.

Lemma bin_level_assoc : forall t s s' k ra ra',
  bin_level t s = Some (k, ra) -> bin_level t s' = Some (k, ra') -> ra = ra'.
Proof. intros t s s' k ra ra' H H'. exact (find_bin_assoc _ _ _ _ _ _ _ H H'). Qed.

Lemma wf_table_asg : forall t s, wf_table t = true -> mem s (t_asg t) = true -> bin_level t s = None.
Proof.
  intros t s Hwf Hm. unfold wf_table in Hwf. rewrite forallb_forall in Hwf.
  unfold mem in Hm. apply existsb_exists in Hm. destruct Hm as [x [Hin Heq]].
  apply String.eqb_eq in Heq. subst x. specialize (Hwf s Hin).
  destruct (bin_level t s); [discriminate Hwf|reflexivity].
Qed.

(* ---------- when the extension loop stops ---------- *)
Definition stops (t : table) (max : nat) (ts : list token) : bool :=
  match ts with
  | TOp s :: _ =>
      match bin_level t s with
      | Some (k, _) => max <? k
      | None => if mem s (t_asg t) then max <? lv_top t else true
      end
  | TQ :: _ => max <? lv_cond t
  | _ => true
  end.

Lemma stops_mono : forall t m m' ts, m <= m' -> stops t m' ts = true -> stops t m ts = true.
Proof.
  intros t m m' ts Hle H. destruct ts as [|tok r]; [reflexivity|].
  destruct tok as [l|s| | | |]; cbn [stops] in *; try reflexivity.
  - destruct (bin_level t s) as [[k ra]|].
    + apply Nat.ltb_lt in H. apply Nat.ltb_lt. lia.
    + destruct (mem s (t_asg t)); [|reflexivity]. apply Nat.ltb_lt in H. apply Nat.ltb_lt. lia.
  - apply Nat.ltb_lt in H. apply Nat.ltb_lt. lia.
Qed.

Lemma stops_0 : forall t ts, stops t 0 ts = true.
Proof.
  intros t ts. destruct ts as [|tok r]; [reflexivity|].
  destruct tok as [l|s| | | |]; cbn [stops]; try reflexivity.
  - destruct (bin_level t s) as [[k ra]|] eqn:Hb.
    + apply bin_level_range in Hb. apply Nat.ltb_lt. lia.
    + destruct (mem s (t_asg t)); reflexivity.
Qed.

Lemma loop_stop : forall t f max fr lhs ts,
  stops t max ts = true -> loop t (S f) max fr lhs ts = Some (lhs, ts).
Proof.
  intros t f max fr lhs ts H. rewrite loop_S. destruct ts as [|tok r]; [reflexivity|].
  destruct tok as [l|s| | | |]; cbn [stops] in H; try reflexivity.
  - destruct (bin_level t s) as [[k ra]|].
    + apply Nat.ltb_lt in H. destruct (k <=? max) eqn:Hk; [apply Nat.leb_le in Hk; lia|reflexivity].
    + destruct (mem s (t_asg t)).
      * apply Nat.ltb_lt in H. destruct (lv_top t <=? max) eqn:Hk; [apply Nat.leb_le in Hk; lia|].
        rewrite andb_false_r. reflexivity.
      * rewrite andb_false_r. reflexivity.
  - apply Nat.ltb_lt in H. destruct (lv_cond t <=? max) eqn:Hk; [apply Nat.leb_le in Hk; lia|reflexivity].
Qed.

(* ---------- single steps of the extension loop ---------- *)
Lemma loop_bin : forall t f max fr lhs s k ra r rhs r',
  bin_level t s = Some (k, ra) -> k <= max ->
  parse_at t f (if ra then k else k - 1) r = Some (rhs, r') ->
  loop t (S f) max fr lhs (TOp s :: r) = loop t f max false (EBin s lhs rhs) r'.
Proof.
  intros t f max fr lhs s k ra r rhs r' Hb Hk Hp. rewrite loop_S, Hb.
  apply Nat.leb_le in Hk. rewrite Hk, Hp. reflexivity.
Qed.

Lemma loop_asg : forall t f max lhs s r rhs r',
  bin_level t s = None -> mem s (t_asg t) = true -> lv_top t <= max ->
  parse_at t f (lv_top t) r = Some (rhs, r') ->
  loop t (S f) max true lhs (TOp s :: r) = loop t f max false (EAsg s lhs rhs) r'.
Proof.
  intros t f max lhs s r rhs r' Hb Hm Hk Hp. rewrite loop_S, Hb, Hm.
  apply Nat.leb_le in Hk. rewrite Hk, Hp. reflexivity.
Qed.

Lemma loop_cond : forall t f max fr lhs r a r' b r'',
  lv_cond t <= max ->
  parse_at t f (lv_top t) r = Some (a, TColon :: r') ->
  parse_at t f (lv_cond t) r' = Some (b, r'') ->
  loop t (S f) max fr lhs (TQ :: r) = loop t f max false (ECond lhs a b) r''.
Proof.
  intros t f max fr lhs r a r' b r'' Hk Hp Hp'. rewrite loop_S.
  apply Nat.leb_le in Hk. rewrite Hk, Hp, Hp'. reflexivity.
Qed.

(* ---------- printed form without the outer parentheses ---------- *)
Definition raw (t : table) (e : rexpr) : list token :=
  match e with
  | ELeaf l => [TLeaf l]
  | EUn op a => TOp op :: pr t a 0
  | EBin op a b =>
      match bin_level t op with
      | Some (k, ra) => pr t a (if ra then k - 1 else k) ++ TOp op :: pr t b (if ra then k else k - 1)
      | None => pr t a 0 ++ TOp op :: pr t b 0
      end
  | ECond c a b => pr t c (nbin t) ++ TQ :: pr t a (lv_top t) ++ TColon :: pr t b (lv_cond t)
  | EAsg op l r => pr t l 0 ++ TOp op :: pr t r (lv_top t)
  end.

Lemma pr_raw : forall t e m, pr t e m = paren (level t e <=? m) (raw t e).
Proof. intros t e m. destruct e; reflexivity. Qed.

(* the level at which the rightmost operand of an unparenthesised expression is read *)
Definition rlevel (t : table) (e : rexpr) : nat :=
  match e with
  | ELeaf _ | EUn _ _ => 0
  | EBin op _ _ => match bin_level t op with Some (k, ra) => if ra then k else k - 1 | None => 0 end
  | ECond _ _ _ => lv_cond t
  | EAsg _ _ _ => lv_top t
  end.

Definition opn (t : table) (e : rexpr) (m : nat) : nat := if level t e <=? m then rlevel t e else 0.
Definition prefix_like (t : table) (e : rexpr) (m : nat) : bool := (level t e =? 0) || negb (level t e <=? m).

Lemma rlevel_le_level : forall t e, rlevel t e <= level t e.
Proof.
  intros t e. destruct e; cbn [rlevel level]; try lia.
  destruct (bin_level t op) as [[k ra]|]; [destruct ra; lia|lia].
Qed.

Lemma level_le_top : forall t e, level t e <= lv_top t.
Proof.
  intros t e. pose proof (fun s k ra => bin_level_range t s k ra) as Hr.
  destruct e; cbn [level]; unfold lv_top, lv_cond; try lia.
  destruct (bin_level t op) as [[k ra]|] eqn:Hb; [specialize (Hr _ _ _ Hb); lia|lia].
Qed.

Lemma opn_le : forall t e m, opn t e m <= m.
Proof.
  intros t e m. unfold opn. destruct (level t e <=? m) eqn:H; [|lia].
  apply Nat.leb_le in H. pose proof (rlevel_le_level t e). lia.
Qed.

Lemma prefix_like_0 : forall t e, prefix_like t e 0 = true.
Proof.
  intros t e. unfold prefix_like. destruct (level t e) as [|n]; reflexivity.
Qed.

(* what follows a left operand of a binary operator never extends that operand *)
Lemma opn_lt_bin : forall t a op k ra,
  bin_level t op = Some (k, ra) -> opn t a (if ra then k - 1 else k) < k.
Proof.
  intros t a op k ra Hb. pose proof (bin_level_range _ _ _ _ Hb) as Hr.
  unfold opn. destruct (level t a <=? (if ra then k - 1 else k)) eqn:Hl; [|lia].
  apply Nat.leb_le in Hl. destruct a as [l|op' a'|op' a' b'|c' a' b'|op' l' r']; cbn [rlevel level] in *; try lia.
  - destruct (bin_level t op') as [[j ra']|] eqn:Hb'; [|lia].
    destruct ra.
    + destruct ra'; lia.
    + destruct (Nat.eq_dec j k) as [E|E].
      * subst j. rewrite (bin_level_assoc _ _ _ _ _ _ Hb' Hb). lia.
      * destruct ra'; lia.
  - unfold lv_cond in Hl. destruct ra; lia.
  - unfold lv_top in Hl. destruct ra; lia.
Qed.

(* ---------- the statements carried through the induction (fuel weight 10 per node) ---------- *)
Definition Praw (t : table) (e : rexpr) : Prop :=
  level t e = 0 -> forall rest F, 10 * size e <= F ->
  parse_prefix t F (raw t e ++ rest) = Some (e, rest).

Definition Graw (t : table) (e : rexpr) : Prop :=
  forall max rest f F res,
    level t e <= max -> stops t (rlevel t e) rest = true ->
    loop t f max (level t e =? 0) e rest = Some res ->
    f + 10 * size e + 1 <= F ->
    parse_at t F max (raw t e ++ rest) = Some res.

Definition Pfull (t : table) (e : rexpr) : Prop :=
  forall m rest F, prefix_like t e m = true -> 10 * size e + 3 <= F ->
  parse_prefix t F (pr t e m ++ rest) = Some (e, rest).

Definition Gfull (t : table) (e : rexpr) : Prop :=
  forall m max rest f F res,
    m <= max -> stops t (opn t e m) rest = true ->
    loop t f max (prefix_like t e m) e rest = Some res ->
    f + 10 * size e + 4 <= F ->
    parse_at t F max (pr t e m ++ rest) = Some res.

Definition Main (t : table) (e : rexpr) : Prop :=
  forall m rest F, stops t m rest = true -> 10 * size e + 5 <= F ->
  parse_at t F m (pr t e m ++ rest) = Some (e, rest).

Lemma Graw_of_Praw : forall t e, level t e = 0 -> Praw t e -> Graw t e.
Proof.
  intros t e H0 HP max rest f F res Hle Hst Hloop HF.
  destruct F as [|F1]; [lia|]. rewrite parse_at_S.
  rewrite (HP H0 rest F1) by lia.
  rewrite H0 in Hloop. cbn [Nat.eqb] in Hloop.
  apply (loop_mono _ _ _ _ _ _ _ _ Hloop). lia.
Qed.

Lemma Pfull_of_raw : forall t e, Praw t e -> Graw t e -> Pfull t e.
Proof.
  intros t e HP HG m rest F Hpl HF. rewrite pr_raw. unfold prefix_like in Hpl.
  destruct (level t e <=? m) eqn:Hlm; cbn [paren].
  - cbn [negb] in Hpl. rewrite orb_false_r in Hpl. apply Nat.eqb_eq in Hpl.
    apply (HP Hpl). lia.
  - destruct F as [|F1]; [lia|]. rewrite parse_prefix_S. cbn [app].
    rewrite <- app_assoc. cbn [app].
    rewrite (HG (lv_top t) (TRP :: rest) 1 F1 (e, TRP :: rest)).
    + reflexivity.
    + apply level_le_top.
    + reflexivity.
    + apply loop_stop. reflexivity.
    + lia.
Qed.

Lemma Gfull_of_raw : forall t e, Pfull t e -> Graw t e -> Gfull t e.
Proof.
  intros t e HP HG m max rest f F res Hle Hst Hloop HF.
  destruct (prefix_like t e m) eqn:Hpl.
  - destruct F as [|F1]; [lia|]. rewrite parse_at_S.
    rewrite (HP m rest F1 Hpl) by lia.
    apply (loop_mono _ _ _ _ _ _ _ _ Hloop). lia.
  - unfold prefix_like in Hpl. apply orb_false_elim in Hpl. destruct Hpl as [Hz Hfit].
    apply negb_false_iff in Hfit. rewrite pr_raw, Hfit. cbn [paren].
    unfold opn in Hst. rewrite Hfit in Hst. apply Nat.leb_le in Hfit.
    apply (HG max rest f F res); [lia|exact Hst| |lia].
    rewrite Hz. exact Hloop.
Qed.

Lemma Main_of_Gfull : forall t e, Gfull t e -> Main t e.
Proof.
  intros t e HG m rest F Hst HF.
  apply (HG m m rest 1 F (e, rest)); [lia| | |lia].
  - apply (stops_mono t _ m); [apply opn_le|exact Hst].
  - apply loop_stop. exact Hst.
Qed.

Lemma lift_raw : forall t e, Praw t e /\ Graw t e -> Pfull t e /\ Gfull t e /\ Main t e.
Proof.
  intros t e [HP HG].
  pose proof (Pfull_of_raw t e HP HG) as HPf.
  pose proof (Gfull_of_raw t e HPf HG) as HGf.
  exact (conj HPf (conj HGf (Main_of_Gfull t e HGf))).
Qed.

(* ---------- the core induction ---------- *)
Lemma core : forall t, wf_table t = true -> forall e, wf_expr t e = true -> Praw t e /\ Graw t e.
Proof.
  intros t Hwt. induction e as [l|op a IHa|op a IHa b IHb|c IHc a IHa b IHb|op l IHl r IHr];
    intros Hwe; cbn [wf_expr] in Hwe.
  - (* leaf *)
    assert (HP : Praw t (ELeaf l)).
    { intros _ rest F HF. cbn [size] in HF. destruct F as [|F1]; [lia|]. reflexivity. }
    split; [exact HP|]. apply Graw_of_Praw; [reflexivity|exact HP].
  - (* unary prefix *)
    apply andb_true_iff in Hwe. destruct Hwe as [Hm Hwa].
    destruct (lift_raw t a (IHa Hwa)) as [HPa _].
    assert (HP : Praw t (EUn op a)).
    { intros _ rest F HF. cbn [size] in HF. destruct F as [|F1]; [lia|].
      rewrite parse_prefix_S. cbn [raw app]. rewrite Hm.
      rewrite (HPa 0 rest F1 (prefix_like_0 t a)) by lia. reflexivity. }
    split; [exact HP|]. apply Graw_of_Praw; [reflexivity|exact HP].
  - (* binary *)
    apply andb_true_iff in Hwe. destruct Hwe as [Hwe Hwb].
    apply andb_true_iff in Hwe. destruct Hwe as [Hb Hwa].
    destruct (bin_level t op) as [[k ra]|] eqn:Hbl; [clear Hb|discriminate Hb].
    pose proof (bin_level_range _ _ _ _ Hbl) as Hr.
    destruct (lift_raw t a (IHa Hwa)) as [_ [HGa _]].
    destruct (lift_raw t b (IHb Hwb)) as [_ [_ HMb]].
    split.
    + intros H0. cbn [level] in H0. rewrite Hbl in H0. lia.
    + intros max rest f F res Hle Hst Hloop HF.
      cbn [level] in Hle, Hloop. cbn [rlevel] in Hst. rewrite Hbl in Hle, Hloop, Hst.
      cbn [size] in HF. cbn [raw]. rewrite Hbl. rewrite <- app_assoc. cbn [app].
      apply (HGa (if ra then k - 1 else k) max _ (S (f + 10 * size b + 5)) F res).
      * destruct ra; lia.
      * cbn [stops]. rewrite Hbl. apply Nat.ltb_lt. exact (opn_lt_bin t a op k ra Hbl).
      * rewrite (loop_bin t _ max _ a op k ra _ b rest Hbl Hle).
        -- destruct k as [|k']; [lia|]. cbn [Nat.eqb] in Hloop.
           apply (loop_mono _ _ _ _ _ _ _ _ Hloop). lia.
        -- apply HMb; [exact Hst|lia].
      * lia.
  - (* conditional *)
    apply andb_true_iff in Hwe. destruct Hwe as [Hwe Hwb].
    apply andb_true_iff in Hwe. destruct Hwe as [Hwc Hwa].
    destruct (lift_raw t c (IHc Hwc)) as [_ [HGc _]].
    destruct (lift_raw t a (IHa Hwa)) as [_ [_ HMa]].
    destruct (lift_raw t b (IHb Hwb)) as [_ [_ HMb]].
    split.
    + intros H0. cbn [level] in H0. unfold lv_cond in H0. lia.
    + intros max rest f F res Hle Hst Hloop HF.
      cbn [level] in Hle, Hloop. cbn [rlevel] in Hst.
      cbn [size] in HF. cbn [raw]. rewrite <- app_assoc. cbn [app].
      apply (HGc (nbin t) max _ (S (f + 10 * size a + 10 * size b + 5)) F res).
      * unfold lv_cond in Hle. lia.
      * cbn [stops]. apply Nat.ltb_lt. pose proof (opn_le t c (nbin t)). unfold lv_cond. lia.
      * rewrite (loop_cond t _ max _ c _ a (pr t b (lv_cond t) ++ rest) b rest Hle).
        -- unfold lv_cond in Hloop. cbn [Nat.eqb] in Hloop.
           apply (loop_mono _ _ _ _ _ _ _ _ Hloop). lia.
        -- rewrite <- app_assoc. cbn [app]. apply HMa; [reflexivity|lia].
        -- apply HMb; [exact Hst|lia].
      * lia.
  - (* assignment *)
    apply andb_true_iff in Hwe. destruct Hwe as [Hwe Hwr].
    apply andb_true_iff in Hwe. destruct Hwe as [Hm Hwl].
    pose proof (wf_table_asg t op Hwt Hm) as Hbl.
    destruct (lift_raw t l (IHl Hwl)) as [HPl _].
    destruct (lift_raw t r (IHr Hwr)) as [_ [_ HMr]].
    split.
    + intros H0. cbn [level] in H0. unfold lv_top in H0. lia.
    + intros max rest f F res Hle Hst Hloop HF.
      cbn [level] in Hle, Hloop. cbn [rlevel] in Hst.
      cbn [size] in HF. cbn [raw]. rewrite <- app_assoc. cbn [app].
      destruct F as [|F1]; [lia|]. rewrite parse_at_S.
      rewrite (HPl 0 _ F1 (prefix_like_0 t l)) by lia.
      destruct F1 as [|F2]; [lia|].
      rewrite (loop_asg t F2 max l op _ r rest Hbl Hm Hle).
      * unfold lv_top in Hloop. cbn [Nat.eqb] in Hloop.
        apply (loop_mono _ _ _ _ _ _ _ _ Hloop). lia.
      * apply HMr; [exact Hst|lia].
Qed.

(* ---------- main theorems ---------- *)
Lemma length_paren : forall b ts, List.length ts <= List.length (paren b ts).
Proof. intros b ts. destruct b; cbn [paren List.length]; [lia|]. rewrite app_length. lia. Qed.

Lemma size_le_length : forall t e m, size e <= List.length (pr t e m).
Proof.
  intros t. induction e as [l|op a IHa|op a IHa b IHb|c IHc a IHa b IHb|op l IHl r IHr]; intros m;
    rewrite pr_raw; (eapply Nat.le_trans; [|apply length_paren]); cbn [raw size].
  - cbn [List.length]. lia.
  - cbn [List.length]. specialize (IHa 0). lia.
  - destruct (bin_level t op) as [[k ra]|]; rewrite app_length; cbn [List.length].
    + specialize (IHa (if ra then k - 1 else k)). specialize (IHb (if ra then k else k - 1)). lia.
    + specialize (IHa 0). specialize (IHb 0). lia.
  - rewrite app_length. cbn [List.length]. rewrite app_length. cbn [List.length].
    specialize (IHc (nbin t)). specialize (IHa (lv_top t)). specialize (IHb (lv_cond t)). lia.
  - rewrite app_length. cbn [List.length]. specialize (IHl 0). specialize (IHr (lv_top t)). lia.
Qed.

(* Round trip, every expression, explicit fuel bound in the size of the expression. *)
Theorem parse_print : forall t e fuel,
  wf_table t = true -> wf_expr t e = true -> 10 * size e + 5 <= fuel ->
  parse t fuel (print t e) = Some e.
Proof.
  intros t e fuel Hwt Hwe HF. unfold parse, print.
  destruct (lift_raw t e (core t Hwt e Hwe)) as [_ [_ HM]].
  pose proof (HM (lv_top t) [] fuel eq_refl HF) as H. rewrite app_nil_r in H.
  rewrite H. reflexivity.
Qed.
Print Assumptions parse_print.

(* Round trip with the fuel computed from the token list alone. *)
Theorem parse_print_fuel_for : forall t e,
  wf_table t = true -> wf_expr t e = true ->
  parse t (fuel_for (print t e)) (print t e) = Some e.
Proof.
  intros t e Hwt Hwe. apply parse_print; [exact Hwt|exact Hwe|].
  unfold fuel_for, print. pose proof (size_le_length t e (lv_top t)). lia.
Qed.
Print Assumptions parse_print_fuel_for.

Corollary parse_print_exists : forall t e,
  wf_table t = true -> wf_expr t e = true -> exists fuel, parse t fuel (print t e) = Some e.
Proof. intros t e Hwt Hwe. exists (10 * size e + 5). apply parse_print; auto. Qed.

(* Unambiguity: the minimal-parentheses printed form determines the expression. *)
Corollary print_injective : forall t e1 e2,
  wf_table t = true -> wf_expr t e1 = true -> wf_expr t e2 = true ->
  print t e1 = print t e2 -> e1 = e2.
Proof.
  intros t e1 e2 Hwt H1 H2 Heq.
  pose proof (parse_print_fuel_for t e1 Hwt H1) as P1.
  pose proof (parse_print_fuel_for t e2 Hwt H2) as P2.
  rewrite Heq in P1. rewrite P1 in P2. injection P2 as E. exact E.
Qed.
Print Assumptions print_injective.

(* the same, for any context level (operands, not only whole expressions) *)
Corollary pr_injective : forall t m e1 e2,
  wf_table t = true -> wf_expr t e1 = true -> wf_expr t e2 = true ->
  pr t e1 m = pr t e2 m -> e1 = e2.
Proof.
  intros t m e1 e2 Hwt H1 H2 Heq.
  destruct (lift_raw t e1 (core t Hwt e1 H1)) as [_ [_ M1]].
  destruct (lift_raw t e2 (core t Hwt e2 H2)) as [_ [_ M2]].
  pose proof (M1 m [] (10 * size e1 + 10 * size e2 + 5) eq_refl ltac:(lia)) as P1.
  pose proof (M2 m [] (10 * size e1 + 10 * size e2 + 5) eq_refl ltac:(lia)) as P2.
  rewrite Heq in P1. rewrite P1 in P2. injection P2 as E. exact E.
Qed.
Print Assumptions pr_injective.

(* ---------- the concrete C11 table ---------- *)
Lemma c11_table_wf : wf_table c11_table = true.
Proof. vm_compute. reflexivity. Qed.

Lemma c11_table_nodup : table_nodup c11_table = true.
Proof. vm_compute. reflexivity. Qed.

(* the table is the regenerated tower: ten binary levels with the tower's spellings and associativity,
   the tower's conditional and assignment levels are the right-associative ones *)
Lemma c11_table_is_tower :
  map (fun lv : bool * list string => (if fst lv then "right" else "left", snd lv)) (t_bin c11_table)
    = map (fun x : string * string * string * list string => let '(_, a, _, ops) := x in (a, ops)) (firstn 10 tower)
  /\ map (fun x : string * string * string * list string => let '(n, a, _, ops) := x in (n, a, ops)) (skipn 10 tower)
    = [("conditional_expr", "right", ["?:"]); ("assignment_expr", "right", t_asg c11_table)]
  /\ nbin c11_table = 10.
Proof. vm_compute. repeat split; reflexivity. Qed.

Theorem parse_c11_print : forall e, wf_expr c11_table e = true -> parse_c11 (print c11_table e) = Some e.
Proof. intros e Hwe. unfold parse_c11. apply parse_print_fuel_for; [exact c11_table_wf|exact Hwe]. Qed.
Print Assumptions parse_c11_print.

Corollary print_c11_injective : forall e1 e2,
  wf_expr c11_table e1 = true -> wf_expr c11_table e2 = true ->
  print c11_table e1 = print c11_table e2 -> e1 = e2.
Proof. intros e1 e2. apply print_injective. exact c11_table_wf. Qed.
Print Assumptions print_c11_injective.

(* ---------- examples ---------- *)
Definition i (s : string) : token := TLeaf (LId s).
Definition v (s : string) : rexpr := ELeaf (LId s).

Example ex_sub_left : option_map show (parse_c11 [i "a"; TOp "-"; i "b"; TOp "-"; i "c"]) = Some "(- (- a b) c)".
Proof. vm_compute. reflexivity. Qed.
Example ex_asg_right : option_map show (parse_c11 [i "a"; TOp "="; i "b"; TOp "="; i "c"]) = Some "(= a (= b c))".
Proof. vm_compute. reflexivity. Qed.
Example ex_cond_right :
  option_map show (parse_c11 [i "a"; TQ; i "b"; TColon; i "c"; TQ; i "d"; TColon; i "e"]) = Some "(?: a b (?: c d e))".
Proof. vm_compute. reflexivity. Qed.
Example ex_cond_middle :
  option_map show (parse_c11 [i "a"; TQ; i "b"; TOp "="; i "c"; TColon; i "d"]) = Some "(?: a (= b c) d)".
Proof. vm_compute. reflexivity. Qed.
Example ex_add_mul : option_map show (parse_c11 [i "a"; TOp "+"; i "b"; TOp "*"; i "c"]) = Some "(+ a (* b c))".
Proof. vm_compute. reflexivity. Qed.
Example ex_mul_paren :
  option_map show (parse_c11 [i "a"; TOp "*"; TLP; i "b"; TOp "+"; i "c"; TRP]) = Some "(* a (+ b c))".
Proof. vm_compute. reflexivity. Qed.
Example ex_mul_paren_kept :
  print c11_table (EBin "*" (v "a") (EBin "+" (v "b") (v "c"))) = [i "a"; TOp "*"; TLP; i "b"; TOp "+"; i "c"; TRP].
Proof. vm_compute. reflexivity. Qed.
Example ex_sub_paren_right :
  print c11_table (EBin "-" (v "a") (EBin "-" (v "b") (v "c"))) = [i "a"; TOp "-"; TLP; i "b"; TOp "-"; i "c"; TRP]
  /\ print c11_table (EBin "-" (EBin "-" (v "a") (v "b")) (v "c")) = [i "a"; TOp "-"; i "b"; TOp "-"; i "c"].
Proof. vm_compute. split; reflexivity. Qed.
Example ex_asg_paren_left :
  print c11_table (EAsg "=" (EAsg "=" (v "a") (v "b")) (v "c")) = [TLP; i "a"; TOp "="; i "b"; TRP; TOp "="; i "c"]
  /\ print c11_table (EAsg "=" (v "a") (EAsg "=" (v "b") (v "c"))) = [i "a"; TOp "="; i "b"; TOp "="; i "c"].
Proof. vm_compute. split; reflexivity. Qed.
Example ex_neg_mul : option_map show (parse_c11 [TOp "-"; i "a"; TOp "*"; i "b"]) = Some "(* (- a) b)".
Proof. vm_compute. reflexivity. Qed.
Example ex_neg_paren :
  print c11_table (EUn "-" (EBin "*" (v "a") (v "b"))) = [TOp "-"; TLP; i "a"; TOp "*"; i "b"; TRP].
Proof. vm_compute. reflexivity. Qed.
Example ex_levels :
  option_map show (parse_c11 [i "a"; TOp "||"; i "b"; TOp "&&"; i "c"; TOp "|"; i "d"; TOp "^"; i "e"; TOp "&"; i "f";
                              TOp "=="; i "g"; TOp "<"; i "h"; TOp "<<"; i "j"; TOp "+"; i "k"; TOp "*"; TOp "~"; i "l"])
  = Some "(|| a (&& b (| c (^ d (& e (== f (< g (<< h (+ j (* k (~ l)))))))))))".
Proof. vm_compute. reflexivity. Qed.
Example ex_not_an_lvalue_shape : parse_c11 [i "a"; TOp "+"; i "b"; TOp "="; i "c"] = None.
Proof. vm_compute. reflexivity. Qed.
Example ex_compound_asg :
  option_map show (parse_c11 [i "a"; TOp "<<="; i "b"; TOp "<<"; i "c"; TQ; i "d"; TColon; i "e"])
  = Some "(<<= a (?: (<< b c) d e))".
Proof. vm_compute. reflexivity. Qed.
