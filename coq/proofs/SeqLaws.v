(* The canonical form used to compare RzIL effects (flatten nested ESeq, drop EEmpty, recursively
   in the arms of EBranch and the body of ERepeat) preserves the meaning of effects, stated through
   terminating runs of the fuelled interpreter [exec]. *)
From Coq Require Import ZArith NArith List Bool String Lia.
From RZ Require Import lib.BV sem.RzIL.
Import ListNotations.

Section SeqLaws.
  Variable rw : regwidth.
  Variable subs : subenv.

  Definition runs (e : effect) (s s' : mstate) : Prop :=
    exists fuel, exec rw subs fuel e s = Some s'.

  (* ------------------------------------------------------------ 1. fuel monotonicity *)
  Lemma exec_mono : forall fuel e s s',
      exec rw subs fuel e s = Some s' ->
      forall fuel', (fuel <= fuel')%nat -> exec rw subs fuel' e s = Some s'.
  Proof.
    induction fuel as [|k IH]; intros e s s' H fuel' Hle.
    - discriminate H.
    - destruct fuel' as [|k']; [lia|].
      assert (Hk : (k <= k')%nat) by lia.
      destruct e; cbn [exec] in H |- *; try exact H.
      + (* ESeq *)
        destruct (exec rw subs k e1 s) as [m|] eqn:E1; [|discriminate H].
        rewrite (IH _ _ _ E1 _ Hk). exact (IH _ _ _ H _ Hk).
      + (* EBranch *)
        destruct (eval rw s [] c) as [[w v|[|]]|]; try discriminate H;
          exact (IH _ _ _ H _ Hk).
      + (* ERepeat *)
        destruct (eval rw s [] c) as [[w v|[|]]|]; try discriminate H; try exact H.
        destruct (exec rw subs k e s) as [m|] eqn:E1; [|discriminate H].
        rewrite (IH _ _ _ E1 _ Hk). exact (IH _ _ _ H _ Hk).
      + (* ECall *)
        destruct (subs f) as [[ps body]|]; [|exact H].
        exact (IH _ _ _ H _ Hk).
  Qed.

  (* ------------------------------------------------------------ 2. determinism *)
  Lemma runs_det : forall e s s1 s2, runs e s s1 -> runs e s s2 -> s1 = s2.
  Proof.
    intros e s s1 s2 [f1 H1] [f2 H2].
    pose proof (exec_mono _ _ _ _ H1 (Nat.max f1 f2) (Nat.le_max_l _ _)) as H1'.
    pose proof (exec_mono _ _ _ _ H2 (Nat.max f1 f2) (Nat.le_max_r _ _)) as H2'.
    rewrite H1' in H2'. injection H2' as ->. reflexivity.
  Qed.

  (* ------------------------------------------------------------ 3. sequencing laws *)
  Lemma runs_seq : forall a b s s'',
      runs (ESeq a b) s s'' <-> exists s', runs a s s' /\ runs b s' s''.
  Proof.
    intros a b s s''; split.
    - intros [fuel H]. destruct fuel as [|k]; [discriminate H|].
      cbn [exec] in H.
      destruct (exec rw subs k a s) as [m|] eqn:E1; [|discriminate H].
      exists m; split; exists k; assumption.
    - intros [m [[f1 H1] [f2 H2]]].
      exists (S (Nat.max f1 f2)). cbn [exec].
      rewrite (exec_mono _ _ _ _ H1 _ (Nat.le_max_l _ _)).
      exact (exec_mono _ _ _ _ H2 _ (Nat.le_max_r _ _)).
  Qed.

  Lemma runs_empty : forall s s', runs EEmpty s s' <-> s = s'.
  Proof.
    intros s s'; split.
    - intros [fuel H]. destruct fuel as [|k]; [discriminate H|].
      cbn [exec] in H. injection H as ->. reflexivity.
    - intros ->. exists 1%nat. reflexivity.
  Qed.

  Lemma runs_nop : forall s s', runs ENop s s' <-> s = s'.
  Proof.
    intros s s'; split.
    - intros [fuel H]. destruct fuel as [|k]; [discriminate H|].
      cbn [exec] in H. injection H as ->. reflexivity.
    - intros ->. exists 1%nat. reflexivity.
  Qed.

  Lemma runs_seq_empty_l : forall a s s', runs (ESeq EEmpty a) s s' <-> runs a s s'.
  Proof.
    intros a s s'. rewrite runs_seq. split.
    - intros [m [Hm Ha]]. apply runs_empty in Hm. subst m. exact Ha.
    - intros Ha. exists s. split; [apply runs_empty; reflexivity | exact Ha].
  Qed.

  Lemma runs_seq_empty_r : forall a s s', runs (ESeq a EEmpty) s s' <-> runs a s s'.
  Proof.
    intros a s s'. rewrite runs_seq. split.
    - intros [m [Ha Hm]]. apply runs_empty in Hm. subst m. exact Ha.
    - intros Ha. exists s'. split; [exact Ha | apply runs_empty; reflexivity].
  Qed.

  (* ENop is neutral too (not used by canon, which keeps ENop, but true) *)
  Lemma runs_seq_nop_l : forall a s s', runs (ESeq ENop a) s s' <-> runs a s s'.
  Proof.
    intros a s s'. rewrite runs_seq. split.
    - intros [m [Hm Ha]]. apply runs_nop in Hm. subst m. exact Ha.
    - intros Ha. exists s. split; [apply runs_nop; reflexivity | exact Ha].
  Qed.

  Lemma runs_seq_nop_r : forall a s s', runs (ESeq a ENop) s s' <-> runs a s s'.
  Proof.
    intros a s s'. rewrite runs_seq. split.
    - intros [m [Ha Hm]]. apply runs_nop in Hm. subst m. exact Ha.
    - intros Ha. exists s'. split; [exact Ha | apply runs_nop; reflexivity].
  Qed.

  Lemma runs_seq_assoc : forall a b c s s',
      runs (ESeq (ESeq a b) c) s s' <-> runs (ESeq a (ESeq b c)) s s'.
  Proof.
    intros a b c s s'. split.
    - intros H. apply runs_seq in H. destruct H as [m2 [Hab Hc]].
      apply runs_seq in Hab. destruct Hab as [m1 [Ha Hb]].
      apply runs_seq. exists m1. split; [exact Ha|].
      apply runs_seq. exists m2. split; assumption.
    - intros H. apply runs_seq in H. destruct H as [m1 [Ha Hbc]].
      apply runs_seq in Hbc. destruct Hbc as [m2 [Hb Hc]].
      apply runs_seq. exists m2. split; [|exact Hc].
      apply runs_seq. exists m1. split; assumption.
  Qed.

  (* congruence of ESeq, a direct consequence of runs_seq *)
  Lemma runs_seq_congr : forall a a' b b',
      (forall s s', runs a s s' <-> runs a' s s') ->
      (forall s s', runs b s s' <-> runs b' s s') ->
      forall s s', runs (ESeq a b) s s' <-> runs (ESeq a' b') s s'.
  Proof.
    intros a a' b b' Ha Hb s s'. rewrite !runs_seq. split.
    - intros [m [H1 H2]]. exists m. split; [apply Ha | apply Hb]; assumption.
    - intros [m [H1 H2]]. exists m. split; [apply Ha | apply Hb]; assumption.
  Qed.

  Lemma runs_seqn_cons : forall e t s s'',
      runs (seqn (e :: t)) s s'' <-> exists s', runs e s s' /\ runs (seqn t) s' s''.
  Proof.
    intros e t s s''. destruct t as [|e2 t].
    - cbn [seqn]. split.
      + intros H. exists s''. split; [exact H | apply runs_empty; reflexivity].
      + intros [m [H Hm]]. apply runs_empty in Hm. subst m. exact H.
    - change (seqn (e :: e2 :: t)) with (ESeq e (seqn (e2 :: t))). apply runs_seq.
  Qed.

  Lemma runs_seqn_app : forall l1 l2 s s'',
      runs (seqn (l1 ++ l2)) s s'' <->
      exists s', runs (seqn l1) s s' /\ runs (seqn l2) s' s''.
  Proof.
    induction l1 as [|e t IH]; intros l2 s s''.
    - cbn [app seqn]. split.
      + intros H. exists s. split; [apply runs_empty; reflexivity | exact H].
      + intros [m [Hm H]]. apply runs_empty in Hm. subst m. exact H.
    - change ((e :: t) ++ l2) with (e :: (t ++ l2)). split.
      + intros H. apply runs_seqn_cons in H. destruct H as [m1 [He Ht]].
        apply IH in Ht. destruct Ht as [m2 [Ht Hl2]].
        exists m2. split; [|exact Hl2].
        apply runs_seqn_cons. exists m1. split; assumption.
      + intros [m2 [Hl1 Hl2]].
        apply runs_seqn_cons in Hl1. destruct Hl1 as [m1 [He Ht]].
        apply runs_seqn_cons. exists m1. split; [exact He|].
        apply IH. exists m2. split; assumption.
  Qed.

  (* ------------------------------------------------------------ 4. congruence *)
  Lemma runs_branch_inv : forall c t f s s',
      runs (EBranch c t f) s s' <->
      (eval rw s [] c = Some (VB true) /\ runs t s s') \/
      (eval rw s [] c = Some (VB false) /\ runs f s s').
  Proof.
    intros c t f s s'. split.
    - intros [fuel H]. destruct fuel as [|k]; [discriminate H|].
      cbn [exec] in H.
      destruct (eval rw s [] c) as [[w v|[|]]|]; try discriminate H.
      + left. split; [reflexivity | exists k; exact H].
      + right. split; [reflexivity | exists k; exact H].
    - intros [[Hc [k H]] | [Hc [k H]]]; exists (S k); cbn [exec]; rewrite Hc; exact H.
  Qed.

  Lemma runs_branch_congr : forall c t t' f f',
      (forall s s', runs t s s' <-> runs t' s s') ->
      (forall s s', runs f s s' <-> runs f' s s') ->
      forall s s', runs (EBranch c t f) s s' <-> runs (EBranch c t' f') s s'.
  Proof.
    intros c t t' f f' Ht Hf s s'. rewrite !runs_branch_inv. split.
    - intros [[Hc H] | [Hc H]]; [left | right]; (split; [exact Hc|]);
        [apply Ht | apply Hf]; exact H.
    - intros [[Hc H] | [Hc H]]; [left | right]; (split; [exact Hc|]);
        [apply Ht | apply Hf]; exact H.
  Qed.

  Lemma runs_repeat_false : forall c b s,
      eval rw s [] c = Some (VB false) -> runs (ERepeat c b) s s.
  Proof.
    intros c b s Hc. exists 1%nat. cbn [exec]. rewrite Hc. reflexivity.
  Qed.

  Lemma runs_repeat_true : forall c b s m s',
      eval rw s [] c = Some (VB true) ->
      runs b s m -> runs (ERepeat c b) m s' -> runs (ERepeat c b) s s'.
  Proof.
    intros c b s m s' Hc [f1 H1] [f2 H2].
    exists (S (Nat.max f1 f2)). cbn [exec]. rewrite Hc.
    rewrite (exec_mono _ _ _ _ H1 _ (Nat.le_max_l _ _)).
    exact (exec_mono _ _ _ _ H2 _ (Nat.le_max_r _ _)).
  Qed.

  (* one-step unfolding of a loop, as an equivalence *)
  Lemma runs_repeat_unfold : forall c b s s',
      runs (ERepeat c b) s s' <->
      (eval rw s [] c = Some (VB true) /\ exists m, runs b s m /\ runs (ERepeat c b) m s') \/
      (eval rw s [] c = Some (VB false) /\ s = s').
  Proof.
    intros c b s s'. split.
    - intros [fuel H]. destruct fuel as [|k]; [discriminate H|].
      cbn [exec] in H.
      destruct (eval rw s [] c) as [[w v|[|]]|]; try discriminate H.
      + destruct (exec rw subs k b s) as [m|] eqn:E1; [|discriminate H].
        left. split; [reflexivity|]. exists m. split; exists k; assumption.
      + right. injection H as ->. split; reflexivity.
    - intros [[Hc [m [Hb Hr]]] | [Hc ->]].
      + eapply runs_repeat_true; eassumption.
      + apply runs_repeat_false; exact Hc.
  Qed.

  Lemma runs_repeat_congr_half : forall c b b',
      (forall s s', runs b s s' -> runs b' s s') ->
      forall fuel s s', exec rw subs fuel (ERepeat c b) s = Some s' -> runs (ERepeat c b') s s'.
  Proof.
    intros c b b' Hb. induction fuel as [|k IH]; intros s s' H.
    - discriminate H.
    - cbn [exec] in H.
      destruct (eval rw s [] c) as [[w v|[|]]|] eqn:Hc; try discriminate H.
      + destruct (exec rw subs k b s) as [m|] eqn:E1; [|discriminate H].
        apply (runs_repeat_true c b' s m s' Hc).
        * apply Hb. exists k. exact E1.
        * apply IH. exact H.
      + injection H as ->. apply runs_repeat_false. exact Hc.
  Qed.

  Lemma runs_repeat_congr : forall c b b',
      (forall s s', runs b s s' <-> runs b' s s') ->
      forall s s', runs (ERepeat c b) s s' <-> runs (ERepeat c b') s s'.
  Proof.
    intros c b b' Hb s s'. split; intros [fuel H].
    - apply (runs_repeat_congr_half c b b' (fun x y => proj1 (Hb x y)) fuel s s' H).
    - apply (runs_repeat_congr_half c b' b (fun x y => proj2 (Hb x y)) fuel s s' H).
  Qed.

  (* ------------------------------------------------------------ 5. main theorem *)
  Lemma seqn_flat_preserves_runs : forall e s s', runs (seqn (flat e)) s s' <-> runs e s s'.
  Proof.
    induction e as [x p | r p | a v | a IHa b IHb | c t IHt f IHf | c b IHb | | | f l | h l];
      intros s s'; cbn [flat seqn]; try reflexivity.
    - (* ESeq *)
      rewrite runs_seqn_app, runs_seq. split.
      + intros [m [H1 H2]]. exists m. split; [apply IHa | apply IHb]; assumption.
      + intros [m [H1 H2]]. exists m. split; [apply IHa | apply IHb]; assumption.
    - (* EBranch *)
      apply runs_branch_congr; assumption.
    - (* ERepeat *)
      apply runs_repeat_congr; assumption.
  Qed.

  Theorem canon_preserves_runs : forall e s s', runs (canon e) s s' <-> runs e s s'.
  Proof. intros e s s'. unfold canon. apply seqn_flat_preserves_runs. Qed.

  (* ------------------------------------------------------------ 6. corollary *)
  Corollary canon_eq_runs_equiv : forall e1 e2,
      canon e1 = canon e2 -> forall s s', runs e1 s s' <-> runs e2 s s'.
  Proof.
    intros e1 e2 Heq s s'.
    rewrite <- (canon_preserves_runs e1), <- (canon_preserves_runs e2), Heq. reflexivity.
  Qed.

  (* same final state, phrased with determinism: if e1 terminates in s1 from s and e2 has the same
     canonical form, then e2 terminates from s, and only in s1 *)
  Corollary canon_eq_same_result : forall e1 e2,
      canon e1 = canon e2 ->
      forall s s1, runs e1 s s1 -> runs e2 s s1 /\ forall s2, runs e2 s s2 -> s2 = s1.
  Proof.
    intros e1 e2 Heq s s1 H1.
    assert (H2 : runs e2 s s1) by (apply (canon_eq_runs_equiv e1 e2 Heq); exact H1).
    split; [exact H2|]. intros s2 H2'. exact (runs_det _ _ _ _ H2' H2).
  Qed.

  (* canon is idempotent up to runs (trivially from the main theorem) *)
  Corollary canon_canon_runs : forall e s s', runs (canon (canon e)) s s' <-> runs (canon e) s s'.
  Proof. intros e s s'. apply canon_preserves_runs. Qed.
End SeqLaws.

Print Assumptions exec_mono.
Print Assumptions runs_det.
Print Assumptions runs_seq.
Print Assumptions runs_seq_empty_l.
Print Assumptions runs_seq_empty_r.
Print Assumptions runs_seq_assoc.
Print Assumptions runs_seqn_app.
Print Assumptions runs_branch_congr.
Print Assumptions runs_repeat_congr.
Print Assumptions canon_eq_runs_equiv.
Print Assumptions canon_eq_same_result.
Print Assumptions canon_preserves_runs.
