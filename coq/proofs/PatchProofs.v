(* Proofs, for ALL inputs, about the macro-patching steps of the preprocessor model (model/Pre.v):
   assoc_set / assoc_get / assoc_del, read_patches, patch_loop, patch_macros, define_name and
   replace_do_while_0.  Supports property C20.
   Sections 1-4 treat the dictionary and the loop over an ABSTRACT name function (Section Loop)
   and instantiate it with Pre.define_name; section 5 characterises define_name; section 6 is
   about replace_do_while_0.

   Main theorems
     assoc_set_nodup, read_patches_nodup, read_patches_names      the dictionary has distinct keys
     patch_loop_none_iff / patch_loop_fails_iff                   (a) failure
     patch_loop_total, patch_loop_spec, patch_loop_positional     (b) the output list
     patch_loop_used (used_count, used_left_perm, kept_filter)    (c) each patch at most / exactly once
     patch_loop_left, patch_loop_left_In, patch_macros_spec       (d) left-over patches
     patch_loop_unpatched                                         (e) nothing to patch
     patch_macros_C20                                             summary for patch_macros
     define_name_eq                                               define_name as a first-order function
     do_while_step_inv, replace_do_while_0_total, ..._id_iff,
     replace_do_while_0_no_do, do_while_step_wrapper,
     replace_do_while_0_wrapper, ..._one, ..._simple              (f)
   Refuted readings (witnesses by vm_compute): patch_loop_dedup_refuted,
     dw_drops_other_lines_refuted. *)
From Coq Require Import List Ascii String Bool Arith Lia Permutation.
From RZ.lib Require Import Regex.
From RZ.gen Require Import Regexes.
From RZ.model Require Import Pre.
From RZ.proofs Require Import PreProofs.
Import ListNotations.
Local Open Scope char_scope.
Local Open Scope list_scope.

(* ------------------------------------------------------------------------------------------ *)
(* 0. string equality, membership                                                              *)
(* ------------------------------------------------------------------------------------------ *)

Lemma l2s_inj : forall a b : str, l2s a = l2s b -> a = b.
Proof.
  intros a b H.
  rewrite <- (list_ascii_of_string_of_list_ascii a), <- (list_ascii_of_string_of_list_ascii b).
  unfold l2s in H. rewrite H. reflexivity.
Qed.

Lemma str_eqb_spec : forall a b : str, reflect (a = b) (str_eqb a b).
Proof.
  intros a b. unfold str_eqb. destruct (String.eqb_spec (l2s a) (l2s b)) as [H|H]; constructor.
  - apply l2s_inj. exact H.
  - intros E. apply H. rewrite E. reflexivity.
Qed.

Lemma str_eqb_refl : forall a, str_eqb a a = true.
Proof. intros a. destruct (str_eqb_spec a a); congruence. Qed.

Lemma str_eqb_sym : forall a b, str_eqb a b = str_eqb b a.
Proof. intros a b. destruct (str_eqb_spec a b), (str_eqb_spec b a); congruence. Qed.

Lemma str_eqb_eq : forall a b, str_eqb a b = true <-> a = b.
Proof. intros a b. destruct (str_eqb_spec a b); split; congruence. Qed.

Lemma str_eqb_neq : forall a b, str_eqb a b = false <-> a <> b.
Proof. intros a b. destruct (str_eqb_spec a b); split; congruence. Qed.

Definition str_eq_dec : forall a b : str, {a = b} + {a <> b} := list_eq_dec ascii_dec.

Lemma mem_spec : forall n l, reflect (In n l) (existsb (str_eqb n) l).
Proof.
  intros n l. apply iff_reflect. rewrite existsb_exists. split.
  - intros H. exists n. split; [exact H|apply str_eqb_refl].
  - intros (x & Hx & E). apply str_eqb_eq in E. subst x. exact Hx.
Qed.

Lemma mem_In : forall n l, existsb (str_eqb n) l = true <-> In n l.
Proof. intros n l. destruct (mem_spec n l); split; congruence. Qed.

Lemma mem_not_In : forall n l, existsb (str_eqb n) l = false <-> ~ In n l.
Proof. intros n l. destruct (mem_spec n l); split; congruence. Qed.

(* ------------------------------------------------------------------------------------------ *)
(* 1. the ordered dictionary                                                                   *)
(* ------------------------------------------------------------------------------------------ *)

Definition keys (d : list (str * str)) : list str := map fst d.

Lemma assoc_get_none : forall k d, assoc_get k d = None <-> ~ In k (keys d).
Proof.
  intros k d. induction d as [|[k' v] d IH]; cbn [assoc_get keys map fst In].
  - tauto.
  - destruct (str_eqb_spec k k') as [->|Hne].
    + split; [discriminate|]. intros H. exfalso. apply H. left. reflexivity.
    + rewrite IH. unfold keys. split.
      * intros H [E|E]; [congruence|tauto].
      * intros H E. apply H. right. exact E.
Qed.

Lemma assoc_get_some_In : forall k v d, assoc_get k d = Some v -> In (k, v) d.
Proof.
  intros k v d. induction d as [|[k' v'] d IH]; cbn [assoc_get In]; [discriminate|].
  destruct (str_eqb_spec k k') as [->|Hne].
  - intros H. injection H as ->. left. reflexivity.
  - intros H. right. apply IH. exact H.
Qed.

Lemma assoc_get_some_key : forall k v d, assoc_get k d = Some v -> In k (keys d).
Proof.
  intros k v d H. apply assoc_get_some_In in H. unfold keys.
  change k with (fst (k, v)). apply in_map. exact H.
Qed.

Lemma In_assoc_get_nodup : forall k v d, NoDup (keys d) -> In (k, v) d -> assoc_get k d = Some v.
Proof.
  intros k v d. induction d as [|[k' v'] d IH]; cbn [keys map fst assoc_get In]; [tauto|].
  intros Hnd [E|Hin].
  - injection E as -> ->. rewrite str_eqb_refl. reflexivity.
  - inversion Hnd as [|? ? Hnotin Hnd']; subst.
    destruct (str_eqb_spec k k') as [->|Hne].
    + exfalso. apply Hnotin. change k' with (fst (k', v)). apply in_map. exact Hin.
    + apply IH; assumption.
Qed.

Lemma keys_assoc_del : forall k d, keys (assoc_del k d) = filter (fun k' => negb (str_eqb k k')) (keys d).
Proof.
  intros k d. unfold keys, assoc_del. induction d as [|[k' v] d IH]; cbn [filter map fst]; [reflexivity|].
  destruct (str_eqb k k'); cbn [negb map fst]; rewrite IH; reflexivity.
Qed.

Lemma In_keys_assoc_del : forall k k' d, In k' (keys (assoc_del k d)) <-> k' <> k /\ In k' (keys d).
Proof.
  intros k k' d. rewrite keys_assoc_del, filter_In.
  destruct (str_eqb_spec k k') as [->|Hne]; cbn [negb]; split; intros H.
  - destruct H as [_ H]. discriminate.
  - destruct H as [H _]. congruence.
  - split; [congruence|tauto].
  - split; [tauto|reflexivity].
Qed.

Lemma assoc_del_nodup : forall k d, NoDup (keys d) -> NoDup (keys (assoc_del k d)).
Proof. intros k d H. rewrite keys_assoc_del. apply NoDup_filter. exact H. Qed.

Lemma assoc_get_del_other : forall k k' d, k <> k' -> assoc_get k (assoc_del k' d) = assoc_get k d.
Proof.
  intros k k' d Hne. unfold assoc_del. induction d as [|[k2 v] d IH]; cbn [filter assoc_get fst]; [reflexivity|].
  destruct (str_eqb_spec k' k2) as [->|Hne2]; cbn [negb].
  - destruct (str_eqb_spec k k2) as [->|_]; [congruence|exact IH].
  - cbn [assoc_get]. rewrite IH. reflexivity.
Qed.

Lemma assoc_get_del_same : forall k d, assoc_get k (assoc_del k d) = None.
Proof.
  intros k d. apply assoc_get_none. rewrite In_keys_assoc_del. intros [H _]. congruence.
Qed.

Lemma filter_all_id : forall (A : Type) (f : A -> bool) (l : list A),
  (forall x, In x l -> f x = true) -> filter f l = l.
Proof.
  intros A f l. induction l as [|a l IH]; intros H; cbn [filter]; [reflexivity|].
  rewrite (H a (or_introl eq_refl)). f_equal. apply IH. intros x Hx. apply H. right. exact Hx.
Qed.

(* removing a key of a duplicate-free dictionary removes exactly ONE entry *)
Lemma assoc_del_perm : forall k v d, NoDup (keys d) -> assoc_get k d = Some v ->
  Permutation d ((k, v) :: assoc_del k d).
Proof.
  intros k v d. induction d as [|[k' v'] d IH]; cbn [assoc_get keys map fst]; [discriminate|].
  intros Hnd H. inversion Hnd as [|? ? Hnotin Hnd']; subst.
  unfold assoc_del. cbn [filter fst].
  destruct (str_eqb_spec k k') as [->|Hne]; cbn [negb].
  - injection H as ->. apply perm_skip.
    assert (E : filter (fun p => negb (str_eqb k' (fst p))) d = d).
    { apply filter_all_id. intros [k2 v2] Hin. cbn [fst].
      destruct (str_eqb_spec k' k2) as [->|_]; [|reflexivity].
      exfalso. apply Hnotin. change k2 with (fst (k2, v2)). apply in_map. exact Hin. }
    rewrite E. apply Permutation_refl.
  - eapply perm_trans; [apply perm_skip; apply (IH Hnd' H)|]. apply perm_swap.
Qed.

(* assoc_set: keys stay pairwise distinct; the new binding is readable; others are untouched *)
Lemma keys_assoc_set : forall k v d,
  keys (assoc_set k v d) = if existsb (str_eqb k) (keys d) then keys d else keys d ++ [k].
Proof.
  intros k v d. unfold keys. induction d as [|[k' v'] d IH]; cbn [assoc_set map fst existsb app]; [reflexivity|].
  destruct (str_eqb_spec k k') as [->|Hne]; cbn [orb map fst]; [reflexivity|].
  rewrite IH. destruct (existsb (str_eqb k) (map fst d)); reflexivity.
Qed.

Lemma assoc_set_nodup : forall k v d, NoDup (keys d) -> NoDup (keys (assoc_set k v d)).
Proof.
  intros k v d H. rewrite keys_assoc_set. destruct (mem_spec k (keys d)) as [Hin|Hnotin]; [exact H|].
  apply (Permutation_NoDup (Permutation_cons_append (keys d) k)). constructor; assumption.
Qed.

Lemma assoc_get_set_same : forall k v d, assoc_get k (assoc_set k v d) = Some v.
Proof.
  intros k v d. induction d as [|[k' v'] d IH]; cbn [assoc_set assoc_get].
  - rewrite str_eqb_refl. reflexivity.
  - destruct (str_eqb_spec k k') as [->|Hne]; cbn [assoc_get].
    + rewrite str_eqb_refl. reflexivity.
    + destruct (str_eqb_spec k k'); [congruence|exact IH].
Qed.

Lemma assoc_get_set_other : forall k k' v d, k' <> k -> assoc_get k' (assoc_set k v d) = assoc_get k' d.
Proof.
  intros k k' v d Hne. induction d as [|[k2 v2] d IH]; cbn [assoc_set assoc_get].
  - destruct (str_eqb_spec k' k); [congruence|reflexivity].
  - destruct (str_eqb_spec k k2) as [->|Hne2]; cbn [assoc_get].
    + destruct (str_eqb_spec k' k2); [congruence|reflexivity].
    + rewrite IH. reflexivity.
Qed.

Lemma In_assoc_set : forall k v d kv, In kv (assoc_set k v d) -> In kv d \/ kv = (k, v).
Proof.
  intros k v d kv. induction d as [|[k' v'] d IH]; cbn [assoc_set In].
  - intros [E|[]]. right. congruence.
  - destruct (str_eqb_spec k k') as [->|Hne]; cbn [In].
    + intros [E|H]; [right; congruence|left; right; exact H].
    + intros [E|H]; [left; left; exact E|]. destruct (IH H) as [H'|H']; [left; right; exact H'|right; exact H'].
Qed.

(* read_patches: the keys of the dictionary it builds are pairwise distinct, and every entry is
   a line together with ITS define_name *)
Definition read_step (acc : option (list (str * str))) (line : str) : option (list (str * str)) :=
  match acc with
  | None => None
  | Some d => if found re_patch_macros_2 line then
                match define_name line with Some n => Some (assoc_set n line d) | None => None end
              else Some d
  end.

Lemma read_patches_unfold : forall content,
  read_patches content = fold_left read_step (split_lines (rsub re_patch_macros_0 [] content) []) (Some []).
Proof. reflexivity. Qed.

Lemma fold_read_step_inv : forall (P : list (str * str) -> Prop),
  (forall n line d, P d -> define_name line = Some n -> P (assoc_set n line d)) ->
  forall lines acc d, (forall d0, acc = Some d0 -> P d0) -> fold_left read_step lines acc = Some d -> P d.
Proof.
  intros P Hstep lines. induction lines as [|line lines IH]; intros acc d Hacc H; cbn [fold_left] in H.
  - apply Hacc. exact H.
  - apply (IH _ _) in H; [exact H|]. intros d0 E. destruct acc as [d1|]; cbn [read_step] in E; [|discriminate].
    destruct (found re_patch_macros_2 line).
    + destruct (define_name line) as [n|] eqn:En; [|discriminate]. injection E as <-.
      apply Hstep; [apply Hacc; reflexivity|exact En].
    + injection E as <-. apply Hacc. reflexivity.
Qed.

Theorem read_patches_nodup : forall content d, read_patches content = Some d -> NoDup (keys d).
Proof.
  intros content d H. rewrite read_patches_unfold in H.
  apply (fold_read_step_inv (fun d => NoDup (keys d))) in H; [exact H| |].
  - intros n line d0 Hd _. apply assoc_set_nodup. exact Hd.
  - intros d0 E. injection E as <-. constructor.
Qed.
Print Assumptions read_patches_nodup.

Theorem read_patches_names : forall content d, read_patches content = Some d ->
  forall k v, In (k, v) d -> define_name v = Some k.
Proof.
  intros content d H. rewrite read_patches_unfold in H.
  refine (fold_read_step_inv (fun d => forall k v, In (k, v) d -> define_name v = Some k) _ _ _ _ _ H).
  - intros n line d0 Hd En k v Hin. apply In_assoc_set in Hin. destruct Hin as [Hin|E].
    + apply Hd. exact Hin.
    + injection E as -> ->. exact En.
  - intros d0 E. injection E as <-. intros k v [].
Qed.
Print Assumptions read_patches_names.

(* ------------------------------------------------------------------------------------------ *)
(* 2. the patch loop over an abstract name function                                            *)
(* ------------------------------------------------------------------------------------------ *)

Section Loop.
Variable nm : str -> option str.

(* Pre.patch_loop with define_name abstracted (patch_loop_ploop below: equal by induction) *)
Fixpoint ploop (macros : list str) (patches : list (str * str)) (done : list str)
  : option (list str * list (str * str)) :=
  match macros with
  | [] => Some ([], patches)
  | mline :: rest =>
      match nm mline with
      | None => None
      | Some n =>
          if existsb (str_eqb n) done then ploop rest patches done
          else match assoc_get n patches with
               | Some p => match ploop rest (assoc_del n patches) (n :: done) with
                           | Some (r, ps) => Some (p :: r, ps) | None => None end
               | None => match ploop rest patches done with
                         | Some (r, ps) => Some (mline :: r, ps) | None => None end
               end
      end
  end.

Definition has_name (l : str) : bool := match nm l with Some _ => true | None => false end.
(* the name k is the name of some line of m *)
Definition occurs (k : str) (m : list str) : bool :=
  existsb (fun l => match nm l with Some n => str_eqb n k | None => false end) m.

Lemma occurs_In : forall k m, occurs k m = true <-> In (Some k) (map nm m).
Proof.
  intros k m. unfold occurs. rewrite existsb_exists, in_map_iff. split.
  - intros (l & Hl & E). exists l. split; [|exact Hl].
    destruct (nm l) as [n|]; [|discriminate]. apply str_eqb_eq in E. congruence.
  - intros (l & E & Hl). exists l. split; [exact Hl|]. rewrite E. apply str_eqb_refl.
Qed.

Lemma occurs_cons : forall k l m,
  occurs k (l :: m) = (match nm l with Some n => str_eqb n k | None => false end) || occurs k m.
Proof. reflexivity. Qed.

(* THE SPECIFICATION: one left-to-right pass with an explicit list of names already replaced;
   the dictionary is only read, never modified. *)
Fixpoint patch_spec (macros : list str) (patches : list (str * str)) (seen : list str) : list str :=
  match macros with
  | [] => []
  | l :: rest =>
      match nm l with
      | None => patch_spec rest patches seen
      | Some n =>
          if existsb (str_eqb n) seen then patch_spec rest patches seen        (* dropped *)
          else match assoc_get n patches with
               | Some p => p :: patch_spec rest patches (n :: seen)              (* replaced, once *)
               | None => l :: patch_spec rest patches seen                       (* kept *)
               end
      end
  end.

(* the patches left over: those whose key is the name of no line, or is in the initial `done` *)
Definition left_spec (macros : list str) (patches : list (str * str)) (done : list str) : list (str * str) :=
  filter (fun kv => negb (occurs (fst kv) macros) || existsb (str_eqb (fst kv)) done) patches.

(* patch_spec only looks at the bindings of names outside `seen` *)
Lemma patch_spec_ext : forall m p p' seen,
  (forall n, ~ In n seen -> assoc_get n p' = assoc_get n p) ->
  patch_spec m p' seen = patch_spec m p seen.
Proof.
  induction m as [|l m IH]; intros p p' seen H; cbn [patch_spec]; [reflexivity|].
  destruct (nm l) as [n|]; [|apply IH; exact H].
  destruct (mem_spec n seen) as [Hin|Hnotin]; [apply IH; exact H|].
  rewrite (H n Hnotin). destruct (assoc_get n p) as [v|].
  - f_equal. apply IH. intros n' Hn'. apply H. intros Hin. apply Hn'. right. exact Hin.
  - f_equal. apply IH. exact H.
Qed.

Lemma filter_filter : forall (A : Type) (f g : A -> bool) (l : list A),
  filter f (filter g l) = filter (fun x => g x && f x) l.
Proof.
  intros A f g l. induction l as [|a l IH]; cbn [filter]; [reflexivity|].
  destruct (g a); cbn [filter andb]; [destruct (f a)|]; rewrite IH; reflexivity.
Qed.

(* TOTAL characterisation of the loop: (a), (b) and (d) at once *)
Theorem ploop_total : forall m p d,
  ploop m p d = if forallb has_name m then Some (patch_spec m p d, left_spec m p d) else None.
Proof.
  induction m as [|l m IH]; intros p d.
  - cbn [ploop forallb patch_spec]. unfold left_spec. f_equal. f_equal. symmetry.
    apply filter_all_id. intros kv _. reflexivity.
  - cbn [ploop forallb patch_spec]. unfold has_name at 1. destruct (nm l) as [n|] eqn:En; cbn [andb]; [|reflexivity].
    destruct (mem_spec n d) as [Hin|Hnotin].
    + rewrite IH. destruct (forallb has_name m); [|reflexivity]. f_equal. f_equal.
      unfold left_spec. apply filter_ext. intros [k v]. cbn [fst]. rewrite occurs_cons, En.
      destruct (str_eqb_spec n k) as [->|_]; cbn [orb]; [|reflexivity].
      apply mem_In in Hin. rewrite Hin, !orb_true_r. reflexivity.
    + destruct (assoc_get n p) as [v|] eqn:Eg.
      * rewrite IH. destruct (forallb has_name m); [|reflexivity]. f_equal. f_equal.
        -- f_equal. apply patch_spec_ext. intros n' Hn'. apply assoc_get_del_other.
           intros ->. apply Hn'. left. reflexivity.
        -- unfold left_spec, assoc_del. rewrite filter_filter. apply filter_ext. intros [k w]. cbn [fst existsb].
           rewrite occurs_cons, En. rewrite (str_eqb_sym k n).
           destruct (str_eqb_spec n k) as [<-|_]; cbn [negb andb orb]; [|reflexivity].
           apply mem_not_In in Hnotin. rewrite Hnotin. reflexivity.
      * rewrite IH. destruct (forallb has_name m); [|reflexivity]. f_equal. f_equal.
        unfold left_spec. apply filter_ext_in. intros [k w] Hkw. cbn [fst]. rewrite occurs_cons, En.
        destruct (str_eqb_spec n k) as [<-|_]; cbn [orb]; [|reflexivity].
        exfalso. apply assoc_get_none in Eg. apply Eg. unfold keys. change n with (fst (n, w)). apply in_map. exact Hkw.
Qed.

Lemma forallb_has_name_false : forall m, forallb has_name m = false <-> exists l, In l m /\ nm l = None.
Proof.
  induction m as [|a m IH]; cbn [forallb In].
  - split; [discriminate|]. intros (l & [] & _).
  - unfold has_name at 1. destruct (nm a) as [n|] eqn:En; cbn [andb].
    + rewrite IH. split.
      * intros (l & Hl & E). exists l. split; [right; exact Hl|exact E].
      * intros (l & [->|Hl] & E); [congruence|]. exists l. split; assumption.
    + split; [|reflexivity]. intros _. exists a. split; [left; reflexivity|exact En].
Qed.

(* (a) the loop fails iff some line has no name *)
Theorem ploop_none_iff : forall m p d, ploop m p d = None <-> exists l, In l m /\ nm l = None.
Proof.
  intros m p d. rewrite ploop_total. destruct (forallb has_name m) eqn:E.
  - split; [discriminate|]. intros H. apply forallb_has_name_false in H. congruence.
  - split; intros _; [apply forallb_has_name_false; exact E|reflexivity].
Qed.

(* (b),(d) when it succeeds, the result is the specification *)
Theorem ploop_spec : forall m p d out lft, ploop m p d = Some (out, lft) ->
  out = patch_spec m p d /\ lft = left_spec m p d.
Proof.
  intros m p d out lft H. rewrite ploop_total in H. destruct (forallb has_name m); [|discriminate].
  injection H as <- <-. split; reflexivity.
Qed.

(* (b) positional reading of patch_spec: what line i contributes depends only on the line, on
   `done`, on the dictionary and on the names of the lines before it *)
Definition line_out (p : list (str * str)) (d : list str) (earlier : list str) (l : str) : list str :=
  match nm l with
  | None => []
  | Some n =>
      if existsb (str_eqb n) d then []                                  (* name in the initial done *)
      else match assoc_get n p with
           | Some v => if occurs n earlier then [] else [v]             (* patched: first occurrence only *)
           | None => [l]                                                (* unpatched: always kept *)
           end
  end.

Lemma flat_map_map : forall (A B C : Type) (f : B -> list C) (g : A -> B) (l : list A),
  flat_map f (map g l) = flat_map (fun x => f (g x)) l.
Proof. intros A B C f g l. induction l as [|a l IH]; cbn [map flat_map]; [reflexivity|]. rewrite IH. reflexivity. Qed.

Lemma occurs_app : forall k x y, occurs k (x ++ y) = occurs k x || occurs k y.
Proof. intros k x y. unfold occurs. apply existsb_app. Qed.

Definition has_patch (p : list (str * str)) (n : str) : bool :=
  match assoc_get n p with Some _ => true | None => false end.

Lemma patch_spec_positional_gen : forall m p d pre seen,
  (forall n, existsb (str_eqb n) seen = existsb (str_eqb n) d || has_patch p n && occurs n pre) ->
  patch_spec m p seen =
  flat_map (fun i => match nth_error m i with Some l => line_out p d (pre ++ firstn i m) l | None => [] end)
           (seq 0 (List.length m)).
Proof.
  induction m as [|a m IH]; intros p d pre seen H; [reflexivity|].
  cbn [List.length seq flat_map nth_error firstn]. rewrite <- seq_shift, flat_map_map.
  cbn [nth_error firstn]. rewrite app_nil_r.
  assert (Hext : forall seen',
    (forall n, existsb (str_eqb n) seen' = existsb (str_eqb n) d || has_patch p n && occurs n (pre ++ [a])) ->
    patch_spec m p seen' =
    flat_map (fun x => match nth_error m x with Some l => line_out p d (pre ++ a :: firstn x m) l | None => [] end)
             (seq 0 (List.length m))).
  { intros seen' H'. rewrite (IH p d (pre ++ [a]) seen' H'). apply flat_map_ext. intros i.
    rewrite <- app_assoc. reflexivity. }
  cbn [patch_spec]. unfold line_out at 1. destruct (nm a) as [n|] eqn:En.
  - pose proof (H n) as Hn. unfold has_patch in Hn.
    destruct (existsb (str_eqb n) d) eqn:Hd; cbn [orb] in Hn.
    + rewrite Hn. cbn [app]. apply Hext. intros n'. rewrite (H n'), occurs_app. unfold occurs at 3. cbn [existsb]. rewrite En.
      destruct (str_eqb_spec n n') as [<-|_]; [rewrite Hd; reflexivity|]. rewrite !orb_false_r. reflexivity.
    + destruct (assoc_get n p) as [v|] eqn:Eg; cbn [andb] in Hn.
      * rewrite Hn. destruct (occurs n pre) eqn:Ho.
        -- cbn [app]. apply Hext. intros n'. rewrite (H n'), occurs_app. unfold occurs at 3. cbn [existsb]. rewrite En.
           destruct (str_eqb_spec n n') as [<-|_]; [rewrite Ho; reflexivity|]. rewrite !orb_false_r. reflexivity.
        -- cbn [app]. f_equal. apply Hext. intros n'. cbn [existsb]. rewrite (H n'), occurs_app. unfold occurs at 3. cbn [existsb]. rewrite En.
           rewrite (str_eqb_sym n' n). destruct (str_eqb_spec n n') as [<-|_]; cbn [orb].
           ++ unfold has_patch. rewrite Eg, Hd, Ho. reflexivity.
           ++ rewrite !orb_false_r. reflexivity.
      * rewrite Hn. cbn [app]. f_equal. apply Hext. intros n'. rewrite (H n'), occurs_app. unfold occurs at 3. cbn [existsb]. rewrite En.
        destruct (str_eqb_spec n n') as [<-|_]; [unfold has_patch; rewrite Eg; reflexivity|]. rewrite !orb_false_r. reflexivity.
  - cbn [app]. apply Hext. intros n'. rewrite (H n'), occurs_app. unfold occurs at 3. cbn [existsb]. rewrite En.
    rewrite !orb_false_r. reflexivity.
Qed.

Theorem patch_spec_positional : forall m p d,
  patch_spec m p d =
  flat_map (fun i => match nth_error m i with Some l => line_out p d (firstn i m) l | None => [] end)
           (seq 0 (List.length m)).
Proof.
  intros m p d. apply (patch_spec_positional_gen m p d [] d).
  intros n. cbn [occurs existsb]. rewrite andb_false_r, orb_false_r. reflexivity.
Qed.

(* (c) the instrumented loop: every output line is tagged with where it came from *)
Inductive item := Kept (l : str) | Patched (k v : str).
Definition item_line (i : item) : str := match i with Kept l => l | Patched _ v => v end.
Definition used (items : list item) : list (str * str) :=
  flat_map (fun i => match i with Patched k v => [(k, v)] | Kept _ => [] end) items.
Definition kept (items : list item) : list str :=
  flat_map (fun i => match i with Kept l => [l] | Patched _ _ => [] end) items.

Fixpoint tloop (macros : list str) (patches : list (str * str)) (done : list str)
  : option (list item * list (str * str)) :=
  match macros with
  | [] => Some ([], patches)
  | mline :: rest =>
      match nm mline with
      | None => None
      | Some n =>
          if existsb (str_eqb n) done then tloop rest patches done
          else match assoc_get n patches with
               | Some p => match tloop rest (assoc_del n patches) (n :: done) with
                           | Some (r, ps) => Some (Patched n p :: r, ps) | None => None end
               | None => match tloop rest patches done with
                         | Some (r, ps) => Some (Kept mline :: r, ps) | None => None end
               end
      end
  end.

(* erasing the tags gives back the loop *)
Lemma tloop_ploop : forall m p d,
  ploop m p d = match tloop m p d with Some (items, lft) => Some (map item_line items, lft) | None => None end.
Proof.
  induction m as [|l m IH]; intros p d; cbn [ploop tloop]; [reflexivity|].
  destruct (nm l) as [n|]; [|reflexivity].
  destruct (existsb (str_eqb n) d); [apply IH|].
  destruct (assoc_get n p) as [v|]; rewrite IH.
  - destruct (tloop m (assoc_del n p) (n :: d)) as [[r ps]|]; reflexivity.
  - destruct (tloop m p d) as [[r ps]|]; reflexivity.
Qed.

Lemma tloop_some_iff : forall m p d, (exists r, tloop m p d = Some r) <-> forallb has_name m = true.
Proof.
  intros m p d. pose proof (tloop_ploop m p d) as H. rewrite ploop_total in H.
  destruct (forallb has_name m); destruct (tloop m p d) as [[items lft]|]; try discriminate.
  - split; eauto.
  - split; [intros (r & E); discriminate|discriminate].
Qed.

(* which keys are consumed *)
Lemma used_In_iff : forall m p d items lft, tloop m p d = Some (items, lft) ->
  forall k, In k (keys (used items)) <-> ~ In k d /\ In k (keys p) /\ In (Some k) (map nm m).
Proof.
  induction m as [|l m IH]; intros p d items lft H k; cbn [tloop] in H.
  - injection H as <- <-. cbn. tauto.
  - cbn [map In]. destruct (nm l) as [n|] eqn:En; [|discriminate].
    destruct (mem_spec n d) as [Hin|Hnotin].
    + rewrite (IH _ _ _ _ H k). split.
      * intros (H1 & H2 & H3). tauto.
      * intros (H1 & H2 & [E|H3]); [|tauto]. injection E as ->. tauto.
    + destruct (assoc_get n p) as [v|] eqn:Eg.
      * destruct (tloop m (assoc_del n p) (n :: d)) as [[r ps]|] eqn:Et; [|discriminate].
        injection H as <- <-. cbn [used flat_map app keys map fst In]. fold (used r). fold (keys (used r)).
        rewrite (IH _ _ _ _ Et k). cbn [In]. rewrite In_keys_assoc_del. split.
        -- intros [<-|(H1 & (H2 & H3) & H4)].
           ++ split; [exact Hnotin|]. split; [eapply assoc_get_some_key; exact Eg|left; reflexivity].
           ++ split; [tauto|]. split; [exact H3|right; exact H4].
        -- intros (H1 & H2 & H3). destruct (str_eq_dec n k) as [E|Hne]; [left; exact E|right].
           split; [intros [E|E]; [congruence|tauto]|]. split; [split; [congruence|exact H2]|].
           destruct H3 as [E|H3]; [congruence|exact H3].
      * destruct (tloop m p d) as [[r ps]|] eqn:Et; [|discriminate].
        injection H as <- <-. cbn [used flat_map app]. fold (used r).
        rewrite (IH _ _ _ _ Et k). split.
        -- intros (H1 & H2 & H3). tauto.
        -- intros (H1 & H2 & [E|H3]); [|tauto]. injection E as ->.
           apply assoc_get_none in Eg. tauto.
Qed.

(* no key is consumed twice -- whatever the dictionary *)
Lemma used_nodup : forall m p d items lft, tloop m p d = Some (items, lft) -> NoDup (keys (used items)).
Proof.
  induction m as [|l m IH]; intros p d items lft H; cbn [tloop] in H.
  - injection H as <- <-. constructor.
  - destruct (nm l) as [n|] eqn:En; [|discriminate].
    destruct (existsb (str_eqb n) d); [eapply IH; exact H|].
    destruct (assoc_get n p) as [v|] eqn:Eg.
    + destruct (tloop m (assoc_del n p) (n :: d)) as [[r ps]|] eqn:Et; [|discriminate].
      injection H as <- <-. cbn [used flat_map app keys map fst]. fold (used r). fold (keys (used r)).
      constructor; [|eapply IH; exact Et].
      intros Hin. apply (used_In_iff _ _ _ _ _ Et) in Hin. destruct Hin as [Hin _]. apply Hin. left. reflexivity.
    + destruct (tloop m p d) as [[r ps]|] eqn:Et; [|discriminate].
      injection H as <- <-. cbn [used flat_map app]. fold (used r). eapply IH; exact Et.
Qed.

(* every consumed pair is a binding of the dictionary *)
Lemma used_sub : forall m p d items lft, tloop m p d = Some (items, lft) ->
  forall k v, In (k, v) (used items) -> assoc_get k p = Some v.
Proof.
  induction m as [|l m IH]; intros p d items lft H k v Hin; cbn [tloop] in H.
  - injection H as <- <-. destruct Hin.
  - destruct (nm l) as [n|] eqn:En; [|discriminate].
    destruct (existsb (str_eqb n) d); [eapply IH; eassumption|].
    destruct (assoc_get n p) as [w|] eqn:Eg.
    + destruct (tloop m (assoc_del n p) (n :: d)) as [[r ps]|] eqn:Et; [|discriminate].
      injection H as <- <-. cbn [used flat_map app In] in Hin. fold (used r) in Hin.
      destruct Hin as [E|Hin]; [injection E as <- <-; exact Eg|].
      pose proof (IH _ _ _ _ Et k v Hin) as Hk.
      destruct (str_eq_dec k n) as [->|Hne]; [rewrite assoc_get_del_same in Hk; discriminate|].
      rewrite assoc_get_del_other in Hk by exact Hne. exact Hk.
    + destruct (tloop m p d) as [[r ps]|] eqn:Et; [|discriminate].
      injection H as <- <-. cbn [used flat_map app] in Hin. fold (used r) in Hin. eapply IH; eassumption.
Qed.

(* (c) with pairwise distinct keys, every patch is EITHER consumed exactly once OR left over:
   consumed ++ left is a rearrangement of the dictionary *)
Theorem used_left_perm : forall m p d items lft, NoDup (keys p) -> tloop m p d = Some (items, lft) ->
  Permutation p (used items ++ lft).
Proof.
  induction m as [|l m IH]; intros p d items lft Hnd H; cbn [tloop] in H.
  - injection H as <- <-. apply Permutation_refl.
  - destruct (nm l) as [n|] eqn:En; [|discriminate].
    destruct (existsb (str_eqb n) d); [eapply IH; eassumption|].
    destruct (assoc_get n p) as [v|] eqn:Eg.
    + destruct (tloop m (assoc_del n p) (n :: d)) as [[r ps]|] eqn:Et; [|discriminate].
      injection H as <- <-. cbn [used flat_map app]. fold (used r).
      eapply perm_trans; [apply assoc_del_perm; eassumption|]. apply perm_skip.
      eapply IH; [apply assoc_del_nodup; exact Hnd|exact Et].
    + destruct (tloop m p d) as [[r ps]|] eqn:Et; [|discriminate].
      injection H as <- <-. cbn [used flat_map app]. fold (used r). eapply IH; eassumption.
Qed.

(* (c) the counting statement *)
Theorem used_count : forall m p d items lft, tloop m p d = Some (items, lft) ->
  forall k, count_occ str_eq_dec (keys (used items)) k <= 1 /\
            (count_occ str_eq_dec (keys (used items)) k = 1 <->
             ~ In k d /\ In k (keys p) /\ In (Some k) (map nm m)).
Proof.
  intros m p d items lft H k.
  pose proof (used_nodup _ _ _ _ _ H) as Hnd. pose proof (used_In_iff _ _ _ _ _ H k) as Hin.
  rewrite (NoDup_count_occ str_eq_dec) in Hnd. specialize (Hnd k).
  rewrite (count_occ_In str_eq_dec) in Hin. split; [exact Hnd|].
  rewrite <- Hin. lia.
Qed.

(* unpatched definitions are preserved, in their original order, with their multiplicity *)
Theorem kept_filter : forall m p d items lft, tloop m p d = Some (items, lft) ->
  kept items = filter (fun l => match nm l with
                                | Some n => negb (existsb (str_eqb n) d) && negb (has_patch p n)
                                | None => false end) m.
Proof.
  induction m as [|l m IH]; intros p d items lft H; cbn [tloop] in H.
  - injection H as <- <-. reflexivity.
  - cbn [filter]. destruct (nm l) as [n|] eqn:En; [|discriminate].
    destruct (existsb (str_eqb n) d) eqn:Hd; cbn [negb andb]; [eapply IH; exact H|].
    unfold has_patch at 1. destruct (assoc_get n p) as [v|] eqn:Eg; cbn [negb].
    + destruct (tloop m (assoc_del n p) (n :: d)) as [[r ps]|] eqn:Et; [|discriminate].
      injection H as <- <-. cbn [kept flat_map app]. fold (kept r). rewrite (IH _ _ _ _ Et).
      apply filter_ext. intros l'. destruct (nm l') as [n'|]; [|reflexivity]. cbn [existsb].
      rewrite (str_eqb_sym n' n). unfold has_patch.
      destruct (str_eqb_spec n n') as [<-|Hne]; cbn [orb negb andb].
      * rewrite Eg, Hd. reflexivity.
      * rewrite assoc_get_del_other by congruence. reflexivity.
    + destruct (tloop m p d) as [[r ps]|] eqn:Et; [|discriminate].
      injection H as <- <-. cbn [kept flat_map app]. fold (kept r). f_equal. eapply IH; exact Et.
Qed.

(* (e) if no line's name is patched or in done, nothing changes -- duplicates included *)
Theorem ploop_unpatched_id : forall m p d,
  (forall l, In l m -> exists n, nm l = Some n /\ ~ In n d /\ ~ In n (keys p)) ->
  ploop m p d = Some (m, p).
Proof.
  induction m as [|l m IH]; intros p d H; cbn [ploop]; [reflexivity|].
  destruct (H l (or_introl eq_refl)) as (n & En & Hd & Hp). rewrite En.
  apply mem_not_In in Hd. rewrite Hd. apply assoc_get_none in Hp. rewrite Hp.
  rewrite IH; [reflexivity|]. intros l' Hl'. apply H. right. exact Hl'.
Qed.
End Loop.
Print Assumptions ploop_total.
Print Assumptions patch_spec_positional.
Print Assumptions used_left_perm.
Print Assumptions used_count.
Print Assumptions kept_filter.
Print Assumptions ploop_unpatched_id.

(* ------------------------------------------------------------------------------------------ *)
(* 3. instantiation: Pre.patch_loop and Pre.patch_macros                                       *)
(* ------------------------------------------------------------------------------------------ *)

Lemma patch_loop_ploop : forall m p d, patch_loop m p d = ploop define_name m p d.
Proof.
  induction m as [|l m IH]; intros p d; cbn [patch_loop ploop]; [reflexivity|].
  destruct (define_name l) as [n|]; [|reflexivity].
  destruct (existsb (str_eqb n) d); [apply IH|].
  destruct (assoc_get n p); rewrite IH; reflexivity.
Qed.

(* (a) *)
Theorem patch_loop_none_iff : forall macros patches done,
  patch_loop macros patches done = None <-> exists l, In l macros /\ define_name l = None.
Proof. intros. rewrite patch_loop_ploop. apply ploop_none_iff. Qed.
Print Assumptions patch_loop_none_iff.

(* (a)+(b)+(d) as one equation *)
Theorem patch_loop_total : forall macros patches done,
  patch_loop macros patches done =
  if forallb (has_name define_name) macros
  then Some (patch_spec define_name macros patches done, left_spec define_name macros patches done)
  else None.
Proof. intros. rewrite patch_loop_ploop. apply ploop_total. Qed.
Print Assumptions patch_loop_total.

(* (b) *)
Theorem patch_loop_spec : forall macros patches done out lft,
  patch_loop macros patches done = Some (out, lft) ->
  out = patch_spec define_name macros patches done.
Proof. intros macros patches done out lft H. rewrite patch_loop_ploop in H. apply ploop_spec in H. tauto. Qed.
Print Assumptions patch_loop_spec.

Theorem patch_loop_positional : forall macros patches done out lft,
  patch_loop macros patches done = Some (out, lft) ->
  out = flat_map (fun i => match nth_error macros i with
                           | Some l => line_out define_name patches done (firstn i macros) l
                           | None => [] end) (seq 0 (List.length macros)).
Proof.
  intros macros patches done out lft H. rewrite (patch_loop_spec _ _ _ _ _ H). apply patch_spec_positional.
Qed.
Print Assumptions patch_loop_positional.

(* (d) *)
Theorem patch_loop_left : forall macros patches done out lft,
  patch_loop macros patches done = Some (out, lft) ->
  lft = filter (fun kv => negb (occurs define_name (fst kv) macros) || existsb (str_eqb (fst kv)) done) patches.
Proof. intros macros patches done out lft H. rewrite patch_loop_ploop in H. apply ploop_spec in H. apply H. Qed.
Print Assumptions patch_loop_left.

Corollary patch_loop_left_nil : forall macros patches out lft,
  patch_loop macros patches [] = Some (out, lft) ->
  lft = filter (fun kv => negb (occurs define_name (fst kv) macros)) patches.
Proof.
  intros macros patches out lft H. rewrite (patch_loop_left _ _ _ _ _ H).
  apply filter_ext. intros kv. cbn [existsb]. apply orb_false_r.
Qed.

(* a left-over patch is a patch whose key names no line, in dictionary order; stated with In *)
Corollary patch_loop_left_In : forall macros patches out lft,
  patch_loop macros patches [] = Some (out, lft) ->
  forall k v, In (k, v) lft <-> In (k, v) patches /\ ~ In (Some k) (map define_name macros).
Proof.
  intros macros patches out lft H k v. rewrite (patch_loop_left_nil _ _ _ _ H), filter_In. cbn [fst].
  rewrite <- occurs_In. destruct (occurs define_name k macros); cbn [negb]; intuition congruence.
Qed.
Print Assumptions patch_loop_left_In.

(* (c) for the real loop: the output is the erasure of a tagged run in which ... *)
Theorem patch_loop_used : forall macros patches done out lft,
  patch_loop macros patches done = Some (out, lft) ->
  exists items,
    tloop define_name macros patches done = Some (items, lft) /\
    out = map item_line items /\
    (* each key is consumed at most once; exactly once iff it names a line (and is not in done) *)
    (forall k, count_occ str_eq_dec (keys (used items)) k <= 1 /\
               (count_occ str_eq_dec (keys (used items)) k = 1 <->
                ~ In k done /\ In k (keys patches) /\ In (Some k) (map define_name macros))) /\
    (* what is consumed is a binding of the dictionary *)
    (forall k v, In (k, v) (used items) -> assoc_get k patches = Some v) /\
    (* consumed and left-over together are the dictionary, when its keys are pairwise distinct *)
    (NoDup (keys patches) -> Permutation patches (used items ++ lft)) /\
    (* the lines that are not patch lines are the unpatched lines, in order *)
    kept items = filter (fun l => match define_name l with
                                  | Some n => negb (existsb (str_eqb n) done) && negb (has_patch patches n)
                                  | None => false end) macros.
Proof.
  intros macros patches done out lft H. rewrite patch_loop_ploop, tloop_ploop in H.
  destruct (tloop define_name macros patches done) as [[items lft']|] eqn:Et; [|discriminate].
  injection H as <- <-. exists items. split; [reflexivity|]. split; [reflexivity|].
  split; [intros k; eapply used_count; exact Et|].
  split; [eapply used_sub; exact Et|].
  split; [intros Hnd; eapply used_left_perm; eassumption|].
  eapply kept_filter; exact Et.
Qed.
Print Assumptions patch_loop_used.

(* (e) -- the premise "macro names pairwise distinct" of the task is NOT needed: see
   patch_loop_keeps_duplicates below *)
Theorem patch_loop_unpatched : forall macros patches,
  (forall l, In l macros -> exists n, define_name l = Some n /\ ~ In n (keys patches)) ->
  patch_loop macros patches [] = Some (macros, patches).
Proof.
  intros macros patches H. rewrite patch_loop_ploop. apply ploop_unpatched_id.
  intros l Hl. destruct (H l Hl) as (n & En & Hn). exists n. split; [exact En|]. split; [intros []|exact Hn].
Qed.
Print Assumptions patch_loop_unpatched.

Corollary patch_loop_unpatched_as_tasked : forall macros names patches,
  map define_name macros = map Some names -> NoDup names ->
  (forall n, In n names -> ~ In n (keys patches)) ->
  patch_loop macros patches [] = Some (macros, patches).
Proof.
  intros macros names patches Hmap _ Hdisj. apply patch_loop_unpatched. intros l Hl.
  assert (Hin : In (define_name l) (map Some names)) by (rewrite <- Hmap; apply in_map; exact Hl).
  apply in_map_iff in Hin. destruct Hin as (n & E & Hn). exists n. split; [congruence|apply Hdisj; exact Hn].
Qed.

(* patch_macros: total characterisation *)
Theorem patch_macros_spec : forall macros content,
  patch_macros macros content =
  match read_patches content with
  | None => None
  | Some p =>
      if forallb (has_name define_name) macros
      then Some (rev (map snd (filter (fun kv => negb (occurs define_name (fst kv) macros)) p))
                 ++ patch_spec define_name macros p [])
      else None
  end.
Proof.
  intros macros content. unfold patch_macros. destruct (read_patches content) as [p|]; [|reflexivity].
  rewrite patch_loop_total. destruct (forallb (has_name define_name) macros); [|reflexivity].
  unfold left_spec. do 4 f_equal. apply filter_ext. intros kv. cbn [existsb]. apply orb_false_r.
Qed.
Print Assumptions patch_macros_spec.

(* the C20 summary for patch_macros: the keys of the dictionary ARE pairwise distinct *)
Theorem patch_macros_C20 : forall macros content res,
  patch_macros macros content = Some res ->
  exists p items lft,
    read_patches content = Some p /\ NoDup (keys p) /\
    tloop define_name macros p [] = Some (items, lft) /\
    res = rev (map snd lft) ++ map item_line items /\
    Permutation p (used items ++ lft) /\
    NoDup (keys (used items)) /\
    (forall k, In k (keys (used items)) <-> In k (keys p) /\ In (Some k) (map define_name macros)) /\
    (forall k v, In (k, v) (used items) -> assoc_get k p = Some v) /\
    lft = filter (fun kv => negb (occurs define_name (fst kv) macros)) p /\
    kept items = filter (fun l => match define_name l with
                                  | Some n => negb (has_patch p n) | None => false end) macros.
Proof.
  intros macros content res H. unfold patch_macros in H.
  destruct (read_patches content) as [p|] eqn:Er; [|discriminate].
  destruct (patch_loop macros p []) as [[out lft]|] eqn:El; [|discriminate]. injection H as <-.
  pose proof (read_patches_nodup _ _ Er) as Hnd.
  pose proof (patch_loop_left_nil _ _ _ _ El) as Hl.
  rewrite patch_loop_ploop, tloop_ploop in El.
  destruct (tloop define_name macros p []) as [[items lft']|] eqn:Et; [|discriminate].
  injection El as <- <-. exists p, items, lft'.
  split; [reflexivity|]. split; [exact Hnd|]. split; [exact Et|]. split; [reflexivity|].
  split; [eapply used_left_perm; eassumption|].
  split; [eapply used_nodup; exact Et|].
  split; [intros k; rewrite (used_In_iff _ _ _ _ _ _ Et k); cbn [In]; tauto|].
  split; [eapply used_sub; exact Et|].
  split; [exact Hl|].
  rewrite (kept_filter _ _ _ _ _ _ Et). apply filter_ext. intros l. destruct (define_name l); reflexivity.
Qed.
Print Assumptions patch_macros_C20.

(* ------------------------------------------------------------------------------------------ *)
(* 4. a refuted reading of (b), and concrete instances                                         *)
(* ------------------------------------------------------------------------------------------ *)

(* The reading "EVERY line whose name was already seen is dropped" is FALSE of the model: `done`
   is only extended when a patch is applied, so a repeated UNPATCHED definition is kept every
   time.  patch_spec_dedup is that (refuted) reading. *)
Fixpoint patch_spec_dedup (nm : str -> option str) (macros : list str) (patches : list (str * str))
  (seen : list str) : list str :=
  match macros with
  | [] => []
  | l :: rest =>
      match nm l with
      | None => patch_spec_dedup nm rest patches seen
      | Some n =>
          if existsb (str_eqb n) seen then patch_spec_dedup nm rest patches seen
          else (match assoc_get n patches with Some v => v | None => l end)
               :: patch_spec_dedup nm rest patches (n :: seen)
      end
  end.

Example patch_loop_dedup_refuted :
  let m := [s2l "#define A 1"; s2l "#define A 2"] in
  patch_loop m [] [] = Some (m, []) /\ patch_spec_dedup define_name m [] [] = [s2l "#define A 1"].
Proof. vm_compute. split; reflexivity. Qed.

(* ... and so the distinctness premise of (e) is not needed: *)
Example patch_loop_keeps_duplicates :
  patch_loop [s2l "#define A 1"; s2l "#define A 2"] [(s2l "B", s2l "#define B 0")] []
  = Some ([s2l "#define A 1"; s2l "#define A 2"], [(s2l "B", s2l "#define B 0")]).
Proof.
  apply patch_loop_unpatched. intros l [<-|[<-|[]]]; exists (s2l "A"); (split; [vm_compute; reflexivity|]);
    intros [E|[]]; discriminate.
Qed.

(* a name in the initial `done` is dropped and its patch is LEFT OVER (not consumed) *)
Example patch_loop_done_drops :
  patch_loop [s2l "#define A 1"] [(s2l "A", s2l "#define A 9")] [s2l "A"]
  = Some ([], [(s2l "A", s2l "#define A 9")]).
Proof. vm_compute. reflexivity. Qed.

(* with a hand-made dictionary whose keys are NOT distinct, a patch is lost: neither consumed nor left *)
Example dup_keys_lose_a_patch :
  patch_loop [s2l "#define A 1"] [(s2l "A", s2l "#define A 8"); (s2l "A", s2l "#define A 9")] []
  = Some ([s2l "#define A 8"], []).
Proof. vm_compute. reflexivity. Qed.

Definition nls : string := String "010" EmptyString.
Definition ex_macros : list str :=
  [s2l "#define fA(x) ((x) + 1)"; s2l "#define fB 2"; s2l "#define fA(x) ((x) + 3)";
   s2l "#define fC 4"; s2l "#define fB 5"].
(* a comment line, a patch for fA written with a line continuation, a patch for fZ that matches nothing *)
Definition ex_content : str :=
  s2l ("// patches" ++ nls ++ "#define fA(x) \" ++ nls ++ "   PATCHED_A(x)" ++ nls ++ "#define fZ unused" ++ nls)%string.
Definition ex_patches : list (str * str) :=
  [(s2l "fA", s2l "#define fA(x)    PATCHED_A(x)"); (s2l "fZ", s2l "#define fZ unused")].

Example ex_read : read_patches ex_content = Some ex_patches.
Proof. vm_compute. reflexivity. Qed.

Example ex_patch_macros :
  patch_macros ex_macros ex_content
  = Some [s2l "#define fZ unused"; s2l "#define fA(x)    PATCHED_A(x)"; s2l "#define fB 2";
          s2l "#define fC 4"; s2l "#define fB 5"].
Proof. vm_compute. reflexivity. Qed.

Example ex_tloop :
  tloop define_name ex_macros ex_patches []
  = Some ([Patched (s2l "fA") (s2l "#define fA(x)    PATCHED_A(x)"); Kept (s2l "#define fB 2");
           Kept (s2l "#define fC 4"); Kept (s2l "#define fB 5")],
          [(s2l "fZ", s2l "#define fZ unused")]).
Proof. vm_compute. reflexivity. Qed.

(* a line that begins with "#define" but has no white space after it makes read_patches raise *)
Example read_patches_raises : read_patches (s2l "#defineX 1") = None.
Proof. vm_compute. reflexivity. Qed.

(* the hypotheses of the theorems hold on this instance: APPLY them *)
Example ex_keys_distinct : NoDup (keys ex_patches).
Proof. exact (read_patches_nodup _ _ ex_read). Qed.

Example ex_perm :
  Permutation ex_patches ([(s2l "fA", s2l "#define fA(x)    PATCHED_A(x)")] ++ [(s2l "fZ", s2l "#define fZ unused")]).
Proof. exact (used_left_perm define_name _ _ _ _ _ ex_keys_distinct ex_tloop). Qed.

Example ex_count_fA :
  count_occ str_eq_dec (keys (used [Patched (s2l "fA") (s2l "#define fA(x)    PATCHED_A(x)"); Kept (s2l "#define fB 2");
           Kept (s2l "#define fC 4"); Kept (s2l "#define fB 5")])) (s2l "fA") = 1.
Proof.
  apply (proj2 (used_count define_name _ _ _ _ _ ex_tloop (s2l "fA"))).
  split; [intros []|]. split; [left; reflexivity|]. vm_compute. left. reflexivity.
Qed.

Example ex_count_fZ :
  count_occ str_eq_dec (keys (used [Patched (s2l "fA") (s2l "#define fA(x)    PATCHED_A(x)"); Kept (s2l "#define fB 2");
           Kept (s2l "#define fC 4"); Kept (s2l "#define fB 5")])) (s2l "fZ") = 0.
Proof.
  pose proof (used_count define_name _ _ _ _ _ ex_tloop (s2l "fZ")) as [Hle Hiff].
  destruct (count_occ str_eq_dec _ (s2l "fZ")) as [|[|c]] eqn:E; [reflexivity| |lia].
  exfalso. destruct (proj1 Hiff eq_refl) as (_ & _ & Hin). vm_compute in Hin.
  repeat (destruct Hin as [Hin|Hin]; [discriminate|]). exact Hin.
Qed.
Print Assumptions ex_perm.
Print Assumptions ex_count_fA.
Print Assumptions ex_count_fZ.

(* ------------------------------------------------------------------------------------------ *)
(* 5. define_name: the GENERATED regex re_patch_macros_1 as a first-order function             *)
(* ------------------------------------------------------------------------------------------ *)

Fixpoint take_while (p : ascii -> bool) (s : str) : str :=
  match s with c :: t => if p c then c :: take_while p t else [] | [] => [] end.
(* Pre.strip_left is the matching drop_while *)

Lemma take_strip : forall p s, s = take_while p s ++ strip_left p s.
Proof.
  intros p s. induction s as [|c s IH]; cbn [take_while strip_left]; [reflexivity|].
  destruct (p c); cbn [app]; [f_equal; exact IH|reflexivity].
Qed.

Lemma take_while_ptrue : forall p s, ptrue p (take_while p s).
Proof.
  intros p s. induction s as [|c s IH]; cbn [take_while]; [constructor|].
  destruct (p c) eqn:E; constructor; assumption.
Qed.

Lemma strip_left_stops : forall p s, stops p (strip_left p s).
Proof.
  intros p s. induction s as [|c s IH]; cbn [strip_left]; [exact I|].
  destruct (p c) eqn:E; [exact IH|exact E].
Qed.

Lemma take_while_ext : forall p q s, (forall c, p c = q c) -> take_while p s = take_while q s.
Proof.
  intros p q s H. induction s as [|c s IH]; cbn [take_while]; [reflexivity|]. rewrite H, IH. reflexivity.
Qed.

Lemma strip_left_ext : forall p q s, (forall c, p c = q c) -> strip_left p s = strip_left q s.
Proof.
  intros p q s H. induction s as [|c s IH]; cbn [strip_left]; [reflexivity|]. rewrite H, IH. reflexivity.
Qed.

Lemma firstn_take_while : forall p s, firstn (List.length s - List.length (strip_left p s)) s = take_while p s.
Proof.
  intros p s. rewrite (take_strip p s) at 1 3. apply firstn_len_app.
Qed.

(* the greedy star succeeds at once when the continuation accepts what is left after the maximal block *)
Lemma star_g_max : forall p s k r, k (strip_left p s) = Some r -> star_g p s k = Some r.
Proof.
  intros p s k r. induction s as [|c s IH]; cbn [strip_left star_g]; [auto|].
  destruct (p c); [|auto]. intros H. rewrite (IH H). reflexivity.
Qed.

(* a regex anchored with ^ can only match at position 0 *)
Lemma search_from_bol_none : forall w x s n, List.length s < List.length w ->
  search_from w (RCat RBol x) s n = None.
Proof.
  intros w x s. induction s as [|c s IH]; intros n H; cbn [search_from m].
  - replace (Nat.eqb (List.length (@nil ascii)) (List.length w)) with false; [reflexivity|].
    symmetry. apply Nat.eqb_neq. lia.
  - replace (Nat.eqb (List.length (c :: s)) (List.length w)) with false.
    + apply IH. cbn [List.length] in H. lia.
    + symmetry. apply Nat.eqb_neq. lia.
Qed.

Lemma rsearch_bol : forall x line,
  rsearch (RCat RBol x) line =
  match m line x line [] (fun s' cs => Some ((0%nat, firstn (List.length line - List.length s') line) :: cs)) with
  | Some cs => Some (0%nat, cs) | None => None end.
Proof.
  intros x line. unfold rsearch. destruct line as [|c t]; cbn [search_from m]; rewrite Nat.eqb_refl.
  - destruct (m [] x [] [] _); reflexivity.
  - destruct (m (c :: t) x (c :: t) [] _); [reflexivity|].
    apply search_from_bol_none. cbn [List.length]. lia.
Qed.

Definition wordset : cclass := CSet ["_"] [] [CWord] false.
Lemma wordset_is_word : forall c, cmatch wordset c = is_word c.
Proof.
  intros c. destruct c as [b0 b1 b2 b3 b4 b5 b6 b7].
  destruct b0, b1, b2, b3, b4, b5, b6, b7; reflexivity.
Qed.

Lemma re_patch_macros_1_eq :
  re_patch_macros_1 =
  RCat RBol (RCat (RLit (s2l "#define")) (RCat (RPlus true CSpace)
       (RCat (RGrp 1 (RStar true wordset)) (RStar true CAny)))).
Proof. reflexivity. Qed.

(* the first-order reading: "#define", at least one white-space character, then the name is the
   longest run of word characters after ALL the white space (it may be empty) *)
Definition define_name_fn (line : str) : option str :=
  match prefix_lit (s2l "#define") line with
  | Some (c :: r) => if is_space c then Some (take_while is_word (strip_left is_space r)) else None
  | _ => None
  end.

Theorem define_name_eq : forall line, define_name line = define_name_fn line.
Proof.
  intros line. unfold define_name, define_name_fn. rewrite re_patch_macros_1_eq, rsearch_bol.
  rewrite m_cat. destruct (prefix_lit (s2l "#define") line) as [r|] eqn:E.
  2:{ cbn [m]. rewrite E. reflexivity. }
  apply prefix_lit_inv in E. subst line. rewrite m_lit_app, m_cat.
  destruct r as [|c r]; [reflexivity|].
  destruct (is_space c) eqn:Hc.
  2:{ cbn [m cmatch]. rewrite Hc. reflexivity. }
  rewrite m_plus_g by exact Hc.
  erewrite star_g_max.
  2:{ rewrite m_cat, m_grp, m_star_g. apply star_g_max. rewrite m_star_g. apply star_g_max. reflexivity. }
  cbn [group Nat.eqb]. f_equal.
  change (cmatch CSpace) with is_space. rewrite firstn_take_while.
  rewrite (take_while_ext _ _ _ wordset_is_word). reflexivity.
Qed.
Print Assumptions define_name_eq.

Corollary define_name_none_iff : forall line,
  define_name line = None <-> ~ exists c r, line = s2l "#define" ++ c :: r /\ is_space c = true.
Proof.
  intros line. rewrite define_name_eq. unfold define_name_fn.
  destruct (prefix_lit (s2l "#define") line) as [r|] eqn:E.
  - apply prefix_lit_inv in E. subst line. destruct r as [|c r].
    + split; [|reflexivity]. intros _ (c & r & H & _). apply app_inv_head in H. discriminate.
    + destruct (is_space c) eqn:Hc.
      * split; [discriminate|]. intros H. exfalso. apply H. exists c, r. auto.
      * split; [|reflexivity]. intros _ (c' & r' & H & Hc'). apply app_inv_head in H. congruence.
  - split; [|reflexivity]. intros _ (c & r & -> & _). rewrite prefix_lit_app in E. discriminate.
Qed.

Corollary define_name_some_iff : forall line n,
  define_name line = Some n <->
  exists c r, line = s2l "#define" ++ c :: r /\ is_space c = true /\ n = take_while is_word (strip_left is_space r).
Proof.
  intros line n. rewrite define_name_eq. unfold define_name_fn.
  destruct (prefix_lit (s2l "#define") line) as [r|] eqn:E.
  - apply prefix_lit_inv in E. subst line. destruct r as [|c r].
    + split; [discriminate|]. intros (c & r & H & _). apply app_inv_head in H. discriminate.
    + destruct (is_space c) eqn:Hc.
      * split.
        -- intros H. injection H as <-. exists c, r. auto.
        -- intros (c' & r' & H & _ & ->). apply app_inv_head in H. injection H as <- <-. reflexivity.
      * split; [discriminate|]. intros (c' & r' & H & Hc' & _). apply app_inv_head in H. congruence.
  - split; [discriminate|]. intros (c & r & -> & _). rewrite prefix_lit_app in E. discriminate.
Qed.

(* shape form: name delimited by a non-word character *)
Corollary define_name_shape : forall sp n rest,
  sp <> [] -> ptrue is_space sp -> ptrue is_word n -> stops is_space (n ++ rest) -> stops is_word rest ->
  define_name (s2l "#define" ++ sp ++ n ++ rest) = Some n.
Proof.
  intros sp n rest Hne Hsp Hn Hs1 Hs2. apply define_name_some_iff.
  destruct sp as [|c sp]; [congruence|]. inversion Hsp as [|? ? Hc Hsp']; subst.
  exists c, (sp ++ n ++ rest). split; [reflexivity|]. split; [exact Hc|].
  assert (E1 : strip_left is_space (sp ++ n ++ rest) = n ++ rest).
  { clear Hne Hsp. induction Hsp' as [|a sp Ha Hsp' IH]; cbn [app strip_left].
    - destruct (n ++ rest) as [|a t]; [reflexivity|]. cbn in Hs1. cbn [strip_left]. rewrite Hs1. reflexivity.
    - rewrite Ha. exact IH. }
  rewrite E1. clear E1 Hs1. induction Hn as [|a n Ha Hn IH]; cbn [app take_while].
  - destruct rest as [|a t]; [reflexivity|]. cbn in Hs2. cbn [take_while]. rewrite Hs2. reflexivity.
  - rewrite Ha. f_equal. exact IH.
Qed.
Print Assumptions define_name_shape.

(* (a), concretely: the loop raises iff some line does not begin with "#define" + white space *)
Theorem patch_loop_fails_iff : forall macros patches done,
  patch_loop macros patches done = None <->
  exists l, In l macros /\ ~ exists c r, l = s2l "#define" ++ c :: r /\ is_space c = true.
Proof.
  intros macros patches done. rewrite patch_loop_none_iff. split.
  - intros (l & Hl & E). exists l. split; [exact Hl|]. apply define_name_none_iff. exact E.
  - intros (l & Hl & E). exists l. split; [exact Hl|]. apply define_name_none_iff. exact E.
Qed.
Print Assumptions patch_loop_fails_iff.

(* the name can be EMPTY, and the white space before it may contain a newline *)
Example define_name_empty : define_name (s2l "#define (x) x") = Some [].
Proof. vm_compute. reflexivity. Qed.
Example define_name_newline : define_name (s2l "#define " ++ nl :: s2l "foo 1") = Some (s2l "foo").
Proof. vm_compute. reflexivity. Qed.
Example define_name_indented : define_name (s2l " #define foo 1") = None.
Proof. vm_compute. reflexivity. Qed.

(* ------------------------------------------------------------------------------------------ *)
(* 6. replace_do_while_0                                                                       *)
(* ------------------------------------------------------------------------------------------ *)

(* structure of the GENERATED term, checked by conversion *)
Definition dw_K2 : re :=
  RCat (RLit (s2l "}")) (RCat (RStar true CSpace) (RCat (RLit (s2l "while")) (RCat (RStar true CSpace)
       (RCat (RLit (s2l "(0)")) (RGrp 3 (RStar true CAny)))))).
Definition dw_K : re :=
  RCat (RLit (s2l "do")) (RCat (RStar true CSpace) (RCat (RLit (s2l "{")) (RCat (RGrp 2 (RStar true CAny)) dw_K2))).
Lemma re_dw_eq : re_replace_do_while_0_0 = RCat (RGrp 1 (RStar true CAny)) dw_K.
Proof. reflexivity. Qed.

(* the text  do S1 { B } S2 while S3 (0) POST  *)
Definition wrapped (s1 b s2 s3 post : str) : str :=
  s2l "do" ++ s1 ++ s2l "{" ++ b ++ s2l "}" ++ s2 ++ s2l "while" ++ s3 ++ s2l "(0)" ++ post.

Definition spaces (s : str) : Prop := ptrue is_space s.

Lemma m_grp_star_inv : forall w n g c s cs k x, m w (RGrp n (RStar g c)) s cs k = Some x ->
  exists xs rest, s = xs ++ rest /\ ptrue (cmatch c) xs /\ k rest ((n, xs) :: cs) = Some x.
Proof.
  intros w n g c s cs k x H. rewrite m_grp in H. apply m_star_inv in H.
  destruct H as (xs & rest & -> & Hx & Hk). rewrite firstn_len_app in Hk. exists xs, rest. auto.
Qed.

(* inversion of the part after the first group *)
Lemma m_dw_K_inv : forall w k0 v cs x, m w dw_K v cs k0 = Some x ->
  exists s1 b s2 s3 c rest, v = wrapped s1 b s2 s3 (c ++ rest) /\
    spaces s1 /\ nonl b /\ spaces s2 /\ spaces s3 /\ nonl c /\
    k0 rest ((3%nat, c) :: (2%nat, b) :: cs) = Some x.
Proof.
  intros w k0 v cs x E. unfold dw_K in E.
  rewrite m_cat in E. apply m_lit_inv in E. destruct E as (r1 & -> & E).
  rewrite m_cat in E. apply m_star_inv in E. destruct E as (s1 & r2 & -> & Hs1 & E).
  rewrite m_cat in E. apply m_lit_inv in E. destruct E as (r3 & -> & E).
  rewrite m_cat in E. apply m_grp_star_inv in E. destruct E as (b & r4 & -> & Hb & E).
  unfold dw_K2 in E.
  rewrite m_cat in E. apply m_lit_inv in E. destruct E as (r5 & -> & E).
  rewrite m_cat in E. apply m_star_inv in E. destruct E as (s2 & r6 & -> & Hs2 & E).
  rewrite m_cat in E. apply m_lit_inv in E. destruct E as (r7 & -> & E).
  rewrite m_cat in E. apply m_star_inv in E. destruct E as (s3 & r8 & -> & Hs3 & E).
  rewrite m_cat in E. apply m_lit_inv in E. destruct E as (r9 & -> & E).
  apply m_grp_star_inv in E. destruct E as (c & rest & -> & Hc & E).
  exists s1, b, s2, s3, c, rest. unfold wrapped, spaces.
  repeat split; try assumption; apply ptrue_nonl; assumption.
Qed.

Lemma m_dw_inv : forall w k0 v x, m w re_replace_do_while_0_0 v [] k0 = Some x ->
  exists a s1 b s2 s3 c rest, v = a ++ wrapped s1 b s2 s3 (c ++ rest) /\
    nonl a /\ spaces s1 /\ nonl b /\ spaces s2 /\ spaces s3 /\ nonl c /\
    k0 rest [(3%nat, c); (2%nat, b); (1%nat, a)] = Some x.
Proof.
  intros w k0 v x E. rewrite re_dw_eq, m_cat in E.
  apply m_grp_star_inv in E. destruct E as (a & r & -> & Ha & E).
  apply m_dw_K_inv in E. destruct E as (s1 & b & s2 & s3 & c & rest & -> & H1 & Hb & H2 & H3 & Hc & E).
  exists a, s1, b, s2, s3, c, rest. repeat split; try assumption. apply ptrue_nonl. exact Ha.
Qed.

(* F1. ONE step removes one wrapper  do..{ }..while..(0)  -- and ALSO everything before the
   start of the match (u) and everything after the end of group 3 (rest) *)
Theorem do_while_step_inv : forall code t, do_while_step code = Some t ->
  exists u a s1 b s2 s3 c rest,
    code = u ++ a ++ wrapped s1 b s2 s3 (c ++ rest) /\ t = a ++ b ++ c /\
    nonl a /\ spaces s1 /\ nonl b /\ spaces s2 /\ spaces s3 /\ nonl c.
Proof.
  intros code t H. unfold do_while_step, rsearch in H.
  destruct (search_from code re_replace_do_while_0_0 code 0) as [[i cs]|] eqn:E; [|discriminate].
  apply search_from_inv in E. destruct E as (u & v & -> & E).
  apply m_dw_inv in E. destruct E as (a & s1 & b & s2 & s3 & c & rest & -> & Ha & H1 & Hb & H2 & H3 & Hc & E).
  injection E as <-. cbn [group Nat.eqb] in H. injection H as <-.
  exists u, a, s1, b, s2, s3, c, rest. repeat split; assumption.
Qed.
Print Assumptions do_while_step_inv.

Lemma wrapped_length : forall s1 b s2 s3 post,
  List.length (wrapped s1 b s2 s3 post) =
  12 + List.length s1 + List.length b + List.length s2 + List.length s3 + List.length post.
Proof. intros. unfold wrapped. rewrite !app_length. cbn. lia. Qed.

(* F3. every step shortens the text by at least the 12 characters of  do{}while(0)  *)
Lemma do_while_step_shrinks : forall code t, do_while_step code = Some t ->
  List.length t + 12 <= List.length code.
Proof.
  intros code t H. apply do_while_step_inv in H.
  destruct H as (u & a & s1 & b & s2 & s3 & c & rest & -> & -> & _).
  rewrite !app_length, wrapped_length, !app_length. lia.
Qed.

(* F2. what a text must contain for a step to fire *)
Lemma contains_wrapped_do : forall x s1 b s2 s3 post, contains (s2l "do") (x ++ wrapped s1 b s2 s3 post) = true.
Proof. intros. apply contains_suffix. unfold wrapped. apply starts_with_app. Qed.

Theorem do_while_step_needs : forall code t, do_while_step code = Some t ->
  contains (s2l "do") code = true /\ contains (s2l "while") code = true /\ contains (s2l "(0)") code = true /\
  In "{" code /\ In "}" code.
Proof.
  intros code t H. apply do_while_step_inv in H.
  destruct H as (u & a & s1 & b & s2 & s3 & c & rest & -> & _). unfold wrapped.
  split; [|split; [|split; [|split]]].
  - rewrite app_assoc. apply contains_suffix. apply starts_with_app.
  - replace (u ++ a ++ s2l "do" ++ s1 ++ s2l "{" ++ b ++ s2l "}" ++ s2 ++ s2l "while" ++ s3 ++ s2l "(0)" ++ c ++ rest)
      with ((u ++ a ++ s2l "do" ++ s1 ++ s2l "{" ++ b ++ s2l "}" ++ s2) ++ s2l "while" ++ s3 ++ s2l "(0)" ++ c ++ rest)
      by (rewrite <- !app_assoc; reflexivity).
    apply contains_suffix. apply starts_with_app.
  - replace (u ++ a ++ s2l "do" ++ s1 ++ s2l "{" ++ b ++ s2l "}" ++ s2 ++ s2l "while" ++ s3 ++ s2l "(0)" ++ c ++ rest)
      with ((u ++ a ++ s2l "do" ++ s1 ++ s2l "{" ++ b ++ s2l "}" ++ s2 ++ s2l "while" ++ s3) ++ s2l "(0)" ++ c ++ rest)
      by (rewrite <- !app_assoc; reflexivity).
    apply contains_suffix. apply starts_with_app.
  - rewrite !in_app_iff. do 4 right. left. left. reflexivity.
  - rewrite !in_app_iff. do 6 right. left. left. reflexivity.
Qed.

Theorem replace_do_while_0_no_do : forall code,
  contains (s2l "do") code = false -> replace_do_while_0 code = Some code.
Proof.
  intros code H. unfold replace_do_while_0. destruct (do_while_step code) as [t|] eqn:E; [|reflexivity].
  apply do_while_step_needs in E. destruct E as [E _]. congruence.
Qed.
Print Assumptions replace_do_while_0_no_do.

Theorem replace_do_while_0_no_while : forall code,
  contains (s2l "while") code = false -> replace_do_while_0 code = Some code.
Proof.
  intros code H. unfold replace_do_while_0. destruct (do_while_step code) as [t|] eqn:E; [|reflexivity].
  apply do_while_step_needs in E. destruct E as (_ & E & _). congruence.
Qed.

(* F4. the fuel is always sufficient; the loop stops on a text on which no step fires *)
Lemma do_while_loop_total : forall fuel t, List.length t < 12 * fuel ->
  exists r, do_while_loop fuel t = Some r /\ do_while_step r = None /\ List.length r <= List.length t.
Proof.
  induction fuel as [|k IH]; intros t H; [lia|].
  cbn [do_while_loop]. destruct (do_while_step t) as [t'|] eqn:E.
  - pose proof (do_while_step_shrinks _ _ E) as Hs.
    destruct (IH t') as (r & Hr & Hn & Hl); [lia|]. exists r. repeat split; [exact Hr|exact Hn|lia].
  - exists t. repeat split; [exact E|lia].
Qed.

(* the exact condition under which the function is the identity; it never raises; otherwise it
   returns a strictly shorter text that ends with a newline and in which no wrapper is left *)
Theorem replace_do_while_0_total : forall code,
  (do_while_step code = None /\ replace_do_while_0 code = Some code) \/
  (exists t r, do_while_step code = Some t /\ replace_do_while_0 code = Some (r ++ [nl]) /\
               do_while_step r = None /\ List.length r + 12 <= List.length code).
Proof.
  intros code. unfold replace_do_while_0. destruct (do_while_step code) as [t|] eqn:E.
  - right. pose proof (do_while_step_shrinks _ _ E) as Hs.
    destruct (do_while_loop_total (List.length code) t) as (r & Hr & Hn & Hl); [lia|].
    exists t, r. rewrite Hr. repeat split; [exact Hn|lia].
  - left. split; reflexivity.
Qed.
Print Assumptions replace_do_while_0_total.

Corollary replace_do_while_0_never_fails : forall code, replace_do_while_0 code <> None.
Proof.
  intros code. destruct (replace_do_while_0_total code) as [[_ H]|(t & r & _ & H & _)]; rewrite H; discriminate.
Qed.

Corollary replace_do_while_0_id_iff : forall code,
  replace_do_while_0 code = Some code <-> do_while_step code = None.
Proof.
  intros code. destruct (replace_do_while_0_total code) as [[H1 H2]|(t & r & H1 & H2 & _ & Hl)].
  - tauto.
  - rewrite H1, H2. split; [|discriminate]. intros E. injection E as E.
    apply (f_equal (@List.length _)) in E. rewrite app_length in E. cbn in E. lia.
Qed.
Print Assumptions replace_do_while_0_id_iff.

(* ---- F5. the positive direction: one wrapper, exactly --------------------------------------- *)

(* f holds of some suffix of s (s itself and [] included) *)
Fixpoint any_suffix (f : str -> bool) (s : str) : bool :=
  f s || match s with [] => false | _ :: t => any_suffix f t end.

Lemma contains_any_suffix : forall l s, contains l s = any_suffix (starts_with l) s.
Proof. intros l s. induction s as [|c s IH]; cbn [contains any_suffix]; [reflexivity|]. rewrite IH. reflexivity. Qed.

Lemma any_suffix_false : forall f s, any_suffix f s = false -> forall u v, s = u ++ v -> f v = false.
Proof.
  intros f s. induction s as [|c s IH]; intros H u v E; cbn [any_suffix] in H; apply orb_false_iff in H; destruct H as [H1 H2].
  - destruct u; [|discriminate]. destruct v; [|discriminate]. exact H1.
  - destruct u as [|a u]; cbn [app] in E.
    + subst v. exact H1.
    + injection E as _ E. apply (IH H2 u v E).
Qed.

Lemma any_suffix_mono : forall (f g : str -> bool) s,
  (forall v, f v = true -> g v = true) -> any_suffix g s = false -> any_suffix f s = false.
Proof.
  intros f g s Hfg. induction s as [|c s IH]; cbn [any_suffix]; intros H; apply orb_false_iff in H; destruct H as [H1 H2].
  - rewrite orb_false_r. destruct (f []) eqn:E; [|reflexivity]. apply Hfg in E. congruence.
  - rewrite (IH H2), orb_false_r. destruct (f (c :: s)) eqn:E; [|reflexivity]. apply Hfg in E. congruence.
Qed.

Lemma strip_left_app_stops : forall p xs y, ptrue p xs -> stops p y -> strip_left p (xs ++ y) = y.
Proof.
  intros p xs y Hx Hy. induction Hx as [|a xs Ha Hx IH]; cbn [app strip_left].
  - destruct y as [|a t]; [reflexivity|]. cbn in Hy. cbn [strip_left]. rewrite Hy. reflexivity.
  - rewrite Ha. exact IH.
Qed.

(* a wrapper STARTS at v:  do \s* {   ;  a wrapper ENDS at v:  } \s* while \s* (0)  *)
Definition dw_start (v : str) : bool :=
  match prefix_lit (s2l "do") v with
  | Some r => starts_with (s2l "{") (strip_left is_space r)
  | None => false
  end.
Definition dw_end (v : str) : bool :=
  match prefix_lit (s2l "}") v with
  | Some r => match prefix_lit (s2l "while") (strip_left is_space r) with
              | Some r2 => starts_with (s2l "(0)") (strip_left is_space r2)
              | None => false end
  | None => false
  end.

Lemma dw_K_start : forall w v cs k0 x, m w dw_K v cs k0 = Some x -> dw_start v = true.
Proof.
  intros w v cs k0 x H. apply m_dw_K_inv in H.
  destruct H as (s1 & b & s2 & s3 & c & rest & -> & H1 & _).
  unfold dw_start, wrapped. rewrite prefix_lit_app.
  rewrite (strip_left_app_stops is_space s1 _ H1); reflexivity.
Qed.

Lemma dw_K2_end : forall w v cs k0 x, m w dw_K2 v cs k0 = Some x -> dw_end v = true.
Proof.
  intros w v cs k0 x E. unfold dw_K2 in E.
  rewrite m_cat in E. apply m_lit_inv in E. destruct E as (r5 & -> & E).
  rewrite m_cat in E. apply m_star_inv in E. destruct E as (s2 & r6 & -> & Hs2 & E).
  rewrite m_cat in E. apply m_lit_inv in E. destruct E as (r7 & -> & E).
  rewrite m_cat in E. apply m_star_inv in E. destruct E as (s3 & r8 & -> & Hs3 & E).
  rewrite m_cat in E. apply m_lit_inv in E. destruct E as (r9 & -> & _).
  unfold dw_end. rewrite prefix_lit_app.
  rewrite (strip_left_app_stops is_space s2 _ Hs2) by reflexivity. rewrite prefix_lit_app.
  rewrite (strip_left_app_stops is_space s3 _ Hs3) by reflexivity. apply starts_with_app.
Qed.

(* blanks: white space other than newline *)
Definition blanks (s : str) : Prop := spaces s /\ nonl s.

Lemma nonl_lit : forall (l : str), forallb (fun c => negb (Ascii.eqb c nl)) l = true -> nonl l.
Proof.
  intros l H. apply Forall_forall. intros c Hc. rewrite forallb_forall in H. apply H in Hc.
  apply negb_true_iff. exact Hc.
Qed.

(* the part of the regex after group 1, on a wrapper *)
Lemma m_dw_K : forall w k0 cs s1 b s2 s3 post r,
  spaces s1 -> nonl b -> blanks s2 -> blanks s3 -> nonl post ->
  any_suffix dw_end (s2 ++ s2l "while" ++ s3 ++ s2l "(0)" ++ post) = false ->
  k0 [] ((3%nat, post) :: (2%nat, b) :: cs) = Some r ->
  m w dw_K (wrapped s1 b s2 s3 post) cs k0 = Some r.
Proof.
  intros w k0 cs s1 b s2 s3 post r Hs1 Hb [Hs2 Hn2] [Hs3 Hn3] Hpost Hend Hk0.
  unfold dw_K, wrapped. rewrite m_cat, m_lit_app, m_cat.
  change (s1 ++ s2l "{" ++ b ++ s2l "}" ++ s2 ++ s2l "while" ++ s3 ++ s2l "(0)" ++ post)
    with (s1 ++ [] ++ s2l "{" ++ b ++ s2l "}" ++ s2 ++ s2l "while" ++ s3 ++ s2l "(0)" ++ post).
  apply m_star_rightmost; [exact Hs1|constructor|reflexivity|apply fail_nil|].
  cbn [app]. change ("{" :: b ++ s2l "}" ++ s2 ++ s2l "while" ++ s3 ++ s2l "(0)" ++ post)
    with (s2l "{" ++ b ++ s2l "}" ++ s2 ++ s2l "while" ++ s3 ++ s2l "(0)" ++ post).
  rewrite m_cat, m_lit_app, m_cat.
  replace (b ++ s2l "}" ++ s2 ++ s2l "while" ++ s3 ++ s2l "(0)" ++ post)
    with (b ++ (s2l "}" ++ s2 ++ s2l "while" ++ s3 ++ s2l "(0)" ++ post) ++ []) by (rewrite app_nil_r; reflexivity).
  apply m_grp_star_rightmost.
  - apply nonl_ptrue. exact Hb.
  - apply nonl_ptrue. repeat apply nonl_app; try assumption; apply nonl_lit; reflexivity.
  - exact I.
  - intros cs'. cbn [s2l list_ascii_of_string app]. apply fail_cons. intros u v E. rewrite app_nil_r.
    destruct (m w dw_K2 v cs' k0) eqn:Em; [|reflexivity].
    apply dw_K2_end in Em. rewrite (any_suffix_false _ _ Hend u v E) in Em. discriminate.
  - rewrite app_nil_r. unfold dw_K2. rewrite m_cat, m_lit_app, m_cat.
    change (s2 ++ s2l "while" ++ s3 ++ s2l "(0)" ++ post) with (s2 ++ [] ++ s2l "while" ++ s3 ++ s2l "(0)" ++ post).
    apply m_star_rightmost; [exact Hs2|constructor|reflexivity|apply fail_nil|].
    cbn [app]. change ("w" :: "h" :: "i" :: "l" :: "e" :: s3 ++ s2l "(0)" ++ post) with (s2l "while" ++ s3 ++ s2l "(0)" ++ post).
    rewrite m_cat, m_lit_app, m_cat.
    change (s3 ++ s2l "(0)" ++ post) with (s3 ++ [] ++ s2l "(0)" ++ post).
    apply m_star_rightmost; [exact Hs3|constructor|reflexivity|apply fail_nil|].
    cbn [app]. change ("(" :: "0" :: ")" :: post) with (s2l "(0)" ++ post).
    rewrite m_cat, m_lit_app.
    replace post with (post ++ [] ++ []) at 1 by (rewrite !app_nil_r; reflexivity).
    apply m_grp_star_rightmost; [apply nonl_ptrue; exact Hpost|constructor|exact I|intros cs'; apply fail_nil|].
    exact Hk0.
Qed.

(* the whole regex at the position where the text before the wrapper starts *)
Lemma m_dw : forall w k0 pre s1 b s2 s3 post r,
  nonl pre -> blanks s1 -> nonl b -> blanks s2 -> blanks s3 -> nonl post ->
  any_suffix dw_start (tl (wrapped s1 b s2 s3 post)) = false ->
  any_suffix dw_end (s2 ++ s2l "while" ++ s3 ++ s2l "(0)" ++ post) = false ->
  k0 [] [(3%nat, post); (2%nat, b); (1%nat, pre)] = Some r ->
  m w re_replace_do_while_0_0 (pre ++ wrapped s1 b s2 s3 post) [] k0 = Some r.
Proof.
  intros w k0 pre s1 b s2 s3 post r Hpre [Hs1 Hn1] Hb Hb2 Hb3 Hpost Hstart Hend Hk0.
  rewrite re_dw_eq, m_cat.
  replace (pre ++ wrapped s1 b s2 s3 post) with (pre ++ wrapped s1 b s2 s3 post ++ []) by (rewrite app_nil_r; reflexivity).
  apply m_grp_star_rightmost.
  - apply nonl_ptrue. exact Hpre.
  - apply nonl_ptrue. destruct Hb2 as [? ?], Hb3 as [? ?]. unfold wrapped.
    repeat apply nonl_app; try assumption; apply nonl_lit; reflexivity.
  - exact I.
  - intros cs'. unfold wrapped in *. cbn [s2l list_ascii_of_string app tl] in *. apply fail_cons.
    intros u v E. rewrite app_nil_r.
    match goal with |- ?lhs = None => destruct lhs eqn:Em; [|reflexivity] end.
    apply dw_K_start in Em. rewrite (any_suffix_false _ _ Hstart u v E) in Em. discriminate.
  - rewrite app_nil_r. apply m_dw_K; assumption.
Qed.

(* ONE STEP on a text with one wrapper: exactly the wrapper goes *)
Theorem do_while_step_wrapper : forall pre s1 b s2 s3 post,
  nonl pre -> blanks s1 -> nonl b -> blanks s2 -> blanks s3 -> nonl post ->
  any_suffix dw_start (tl (wrapped s1 b s2 s3 post)) = false ->                       (* no wrapper starts later *)
  any_suffix dw_end (s2 ++ s2l "while" ++ s3 ++ s2l "(0)" ++ post) = false ->         (* no wrapper ends later *)
  do_while_step (pre ++ wrapped s1 b s2 s3 post) = Some (pre ++ b ++ post).
Proof.
  intros pre s1 b s2 s3 post Hpre H1 Hb H2 H3 Hpost Hstart Hend. unfold do_while_step, rsearch.
  erewrite search_from_hit.
  2:{ eapply m_dw; try eassumption. reflexivity. }
  reflexivity.
Qed.
Print Assumptions do_while_step_wrapper.

Theorem replace_do_while_0_wrapper : forall pre s1 b s2 s3 post,
  nonl pre -> blanks s1 -> nonl b -> blanks s2 -> blanks s3 -> nonl post ->
  any_suffix dw_start (tl (wrapped s1 b s2 s3 post)) = false ->
  any_suffix dw_end (s2 ++ s2l "while" ++ s3 ++ s2l "(0)" ++ post) = false ->
  do_while_step (pre ++ b ++ post) = None ->                                          (* nothing left to remove *)
  replace_do_while_0 (pre ++ wrapped s1 b s2 s3 post) = Some (pre ++ b ++ post ++ [nl]).
Proof.
  intros pre s1 b s2 s3 post Hpre H1 Hb H2 H3 Hpost Hstart Hend Hnone. unfold replace_do_while_0.
  rewrite do_while_step_wrapper by assumption.
  destruct (List.length (pre ++ wrapped s1 b s2 s3 post)) as [|f] eqn:El.
  - rewrite app_length, wrapped_length in El. lia.
  - cbn [do_while_loop]. rewrite Hnone. rewrite <- !app_assoc. reflexivity.
Qed.
Print Assumptions replace_do_while_0_wrapper.

(* ---- simple sufficient conditions for the two "no later wrapper" premises -------------------- *)

Lemma spaces_no_char : forall c s, spaces s -> is_space c = false -> existsb (Ascii.eqb c) s = false.
Proof.
  intros c s Hs Hc. induction Hs as [|a s Ha Hs IH]; cbn [existsb]; [reflexivity|].
  rewrite IH, orb_false_r. destruct (Ascii.eqb_spec c a) as [->|_]; [congruence|reflexivity].
Qed.

Lemma contains_char_false : forall c s, existsb (Ascii.eqb c) s = false -> contains [c] s = false.
Proof.
  intros c s H. rewrite <- (app_nil_r s). rewrite (contains_skip c [] s [] H). reflexivity.
Qed.

Lemma starts_with_do_cons : forall a z,
  starts_with (s2l "do") (a :: z) = Ascii.eqb "d" a && starts_with (s2l "o") z.
Proof. reflexivity. Qed.

Lemma starts_with_o_app : forall x y, x <> [] -> starts_with (s2l "o") (x ++ y) = starts_with (s2l "o") x.
Proof. intros x y H. destruct x as [|c x]; [congruence|]. reflexivity. Qed.

Lemma contains_do_app : forall x y,
  contains (s2l "do") x = false -> starts_with (s2l "o") y = false ->
  contains (s2l "do") (x ++ y) = contains (s2l "do") y.
Proof.
  induction x as [|a x IH]; intros y Hx Hy; [reflexivity|].
  cbn [app]. cbn [contains] in Hx |- *. apply orb_false_iff in Hx. destruct Hx as [H1 H2].
  rewrite (IH y H2 Hy). rewrite starts_with_do_cons in H1 |- *.
  destruct x as [|c x'].
  - cbn [app]. rewrite Hy, andb_false_r. reflexivity.
  - rewrite starts_with_o_app by discriminate. rewrite H1. reflexivity.
Qed.

Lemma dw_start_nodo : forall s1 b s2 s3 post,
  spaces s1 -> spaces s2 -> spaces s3 ->
  contains (s2l "do") b = false -> contains (s2l "do") post = false ->
  any_suffix dw_start (tl (wrapped s1 b s2 s3 post)) = false.
Proof.
  intros s1 b s2 s3 post H1 H2 H3 Hb Hpost.
  apply any_suffix_mono with (g := starts_with (s2l "do")).
  { intros v. unfold dw_start. destruct (prefix_lit (s2l "do") v) eqn:E; [|discriminate].
    intros _. eapply prefix_lit_starts. exact E. }
  rewrite <- contains_any_suffix. unfold wrapped.
  change (tl (s2l "do" ++ s1 ++ s2l "{" ++ b ++ s2l "}" ++ s2 ++ s2l "while" ++ s3 ++ s2l "(0)" ++ post))
    with (["o"] ++ s1 ++ ["{"] ++ b ++ ["}"] ++ s2 ++ s2l "while" ++ s3 ++ s2l "(0)" ++ post).
  change (s2l "do") with ("d" :: ["o"]) in *.
  rewrite (contains_skip "d" ["o"] ["o"]) by reflexivity.
  rewrite (contains_skip "d" ["o"] s1) by (apply spaces_no_char; [exact H1|reflexivity]).
  rewrite (contains_skip "d" ["o"] ["{"]) by reflexivity.
  rewrite (contains_do_app b) by (exact Hb || reflexivity).
  rewrite (contains_skip "d" ["o"] ["}"]) by reflexivity.
  rewrite (contains_skip "d" ["o"] s2) by (apply spaces_no_char; [exact H2|reflexivity]).
  rewrite (contains_skip "d" ["o"] (s2l "while")) by reflexivity.
  rewrite (contains_skip "d" ["o"] s3) by (apply spaces_no_char; [exact H3|reflexivity]).
  rewrite (contains_skip "d" ["o"] (s2l "(0)")) by reflexivity.
  exact Hpost.
Qed.

Lemma dw_end_noclose : forall s2 s3 post,
  spaces s2 -> spaces s3 -> existsb (Ascii.eqb "}") post = false ->
  any_suffix dw_end (s2 ++ s2l "while" ++ s3 ++ s2l "(0)" ++ post) = false.
Proof.
  intros s2 s3 post H2 H3 Hpost.
  apply any_suffix_mono with (g := starts_with (s2l "}")).
  { intros v. unfold dw_end. destruct (prefix_lit (s2l "}") v) eqn:E; [|discriminate].
    intros _. eapply prefix_lit_starts. exact E. }
  rewrite <- contains_any_suffix. apply contains_char_false. rewrite !existsb_app.
  rewrite (spaces_no_char "}" s2 H2) by reflexivity. rewrite (spaces_no_char "}" s3 H3) by reflexivity.
  rewrite Hpost. reflexivity.
Qed.

Lemma do_while_step_nodo : forall s, contains (s2l "do") s = false -> do_while_step s = None.
Proof.
  intros s H. destruct (do_while_step s) as [t|] eqn:E; [|reflexivity].
  apply do_while_step_needs in E. destruct E as [E _]. congruence.
Qed.

(* one wrapper somewhere on a single line, body and tail free of the letters "do", no "}" after it *)
Theorem replace_do_while_0_one : forall pre s1 b s2 s3 post,
  nonl pre -> blanks s1 -> nonl b -> blanks s2 -> blanks s3 -> nonl post ->
  contains (s2l "do") b = false -> contains (s2l "do") post = false ->
  existsb (Ascii.eqb "}") post = false ->
  do_while_step (pre ++ b ++ post) = None ->
  replace_do_while_0 (pre ++ wrapped s1 b s2 s3 post) = Some (pre ++ b ++ post ++ [nl]).
Proof.
  intros pre s1 b s2 s3 post Hpre H1 Hb H2 H3 Hpost Hdb Hdp Hcl Hnone.
  apply replace_do_while_0_wrapper; try assumption.
  - apply dw_start_nodo; try assumption; [apply H1|apply H2|apply H3].
  - apply dw_end_noclose; try assumption; [apply H2|apply H3].
Qed.
Print Assumptions replace_do_while_0_one.

(* (f), the form asked for: the body may contain braces; the result is the body (with the blanks
   that were inside the braces) FOLLOWED BY A NEWLINE *)
Theorem replace_do_while_0_simple : forall b,
  nonl b -> contains (s2l "do") b = false ->
  replace_do_while_0 (s2l "do {" ++ b ++ s2l "} while (0)") = Some (b ++ [nl]).
Proof.
  intros b Hb Hd.
  change (s2l "do {" ++ b ++ s2l "} while (0)") with ([] ++ wrapped [" "] b [" "] [" "] []).
  assert (Hbl : blanks [" "]) by (split; repeat constructor).
  rewrite replace_do_while_0_one; try assumption; try reflexivity; try constructor.
  rewrite app_nil_r. cbn [app]. apply do_while_step_nodo. exact Hd.
Qed.
Print Assumptions replace_do_while_0_simple.

(* instances, by APPLYING the theorems *)
Example dw_simple_braces :
  replace_do_while_0 (s2l "do { if (c) { a = 1; } } while (0)") = Some (s2l " if (c) { a = 1; } " ++ [nl]).
Proof.
  apply (replace_do_while_0_simple (s2l " if (c) { a = 1; } ")); [apply nonl_lit|]; reflexivity.
Qed.

(* the general theorem: wrapper inside braces, "}" after it, tabs as blanks; the two "no later
   wrapper" premises are decided by computation *)
Example dw_inside_braces :
  replace_do_while_0 (s2l "{ x; do" ++ ["009"] ++ s2l "{ window = 1; }while  (0); }")
  = Some (s2l "{ x;  window = 1; ; }" ++ [nl]).
Proof.
  apply (replace_do_while_0_wrapper (s2l "{ x; ") ["009"] (s2l " window = 1; ") [] (s2l "  ") (s2l "; }"));
    try (apply nonl_lit; reflexivity); try (split; [repeat constructor|apply nonl_lit; reflexivity]);
    vm_compute; reflexivity.
Qed.
Print Assumptions dw_simple_braces.
Print Assumptions dw_inside_braces.

(* the loop: two wrappers on one line, a nested wrapper *)
Example dw_two : replace_do_while_0 (s2l "do { a } while (0) do { b } while (0)") = Some (s2l " a   b " ++ [nl]).
Proof. vm_compute. reflexivity. Qed.
Example dw_nested : replace_do_while_0 (s2l "do { do { y } while (0) } while (0)") = Some (s2l "  y  " ++ [nl]).
Proof. vm_compute. reflexivity. Qed.

(* "removes exactly the wrapper and nothing else" is FALSE of the model on a text of several
   lines: the lines before and after the line with the wrapper are dropped (do_while_step_inv:
   u and rest), because the result is rebuilt from the three groups only and `.` stops at a newline *)
Example dw_drops_other_lines_refuted :
  replace_do_while_0 (s2l "x;" ++ [nl] ++ s2l "do { y } while (0)" ++ [nl] ++ s2l "z;") = Some (s2l " y " ++ [nl]).
Proof. vm_compute. reflexivity. Qed.
(* a body that spans lines is not recognised at all *)
Example dw_multiline_body_untouched :
  replace_do_while_0 (s2l "do {" ++ [nl] ++ s2l " a } while (0)") = Some (s2l "do {" ++ [nl] ++ s2l " a } while (0)").
Proof. vm_compute. reflexivity. Qed.
(* the identity case does NOT append the newline, the other case always does *)
Example dw_identity : replace_do_while_0 (s2l "x = 1;") = Some (s2l "x = 1;").
Proof. apply replace_do_while_0_no_do. reflexivity. Qed.

(* ------------------------------------------------------------------------------------------ *)
(* 7. the call site: replace_do_while_0 on an element of f.readlines(), i.e. on  code ++ [nl]   *)
(*    with `code` free of newlines                                                             *)
(* ------------------------------------------------------------------------------------------ *)

(* A GENERAL fact about the matcher (any regex): on a subject that is one line plus its final
   newline the matcher behaves as on the line alone, provided the continuation (a) does so and
   (b) rejects the position after the newline. *)
Definition nlsim (k k' : str -> caps -> option caps) : Prop :=
  (forall s cs, nonl s -> k' (s ++ [nl]) cs = k s cs) /\ (forall cs, k' [] cs = None).

Lemma m_nil_none : forall r w cs k', (forall cs, k' [] cs = None) -> m w r [] cs k' = None.
Proof.
  induction r as [l|c|g c|g c|g c|a IHa b IHb|a IHa b IHb|n r IH| | |]; intros w cs k' H; cbn [m].
  - destruct l as [|c l]; cbn [prefix_lit]; [apply H|reflexivity].
  - reflexivity.
  - destruct g; cbn [star_g star_l]; rewrite H; reflexivity.
  - reflexivity.
  - apply H.
  - apply IHa. intros cs'. apply IHb. exact H.
  - rewrite IHa by exact H. apply IHb. exact H.
  - apply IH. intros cs'. apply H.
  - destruct (Nat.eqb _ _); [apply H|reflexivity].
  - cbn [eol]. apply H.
  - apply H.
Qed.

Lemma star_g_nl : forall p (k k' : str -> option caps),
  (forall s, nonl s -> k' (s ++ [nl]) = k s) -> k' [] = None ->
  forall s, nonl s -> star_g p (s ++ [nl]) k' = star_g p s k.
Proof.
  intros p k k' H1 H2 s. induction s as [|a s IH]; intros Hs.
  - pose proof (H1 [] Hs) as E0. cbn [app] in E0. cbn [app star_g]. rewrite H2, E0. destruct (p nl); reflexivity.
  - inversion Hs as [|? ? Ha Hs']; subst. cbn [app star_g]. rewrite (IH Hs').
    change (a :: s ++ [nl]) with ((a :: s) ++ [nl]). rewrite (H1 (a :: s) Hs). reflexivity.
Qed.

Lemma star_l_nl : forall p (k k' : str -> option caps),
  (forall s, nonl s -> k' (s ++ [nl]) = k s) -> k' [] = None ->
  forall s, nonl s -> star_l p (s ++ [nl]) k' = star_l p s k.
Proof.
  intros p k k' H1 H2 s. induction s as [|a s IH]; intros Hs.
  - pose proof (H1 [] Hs) as E0. cbn [app] in E0. cbn [app star_l]. rewrite H2, E0.
    destruct (k []); [reflexivity|]. destruct (p nl); reflexivity.
  - inversion Hs as [|? ? Ha Hs']; subst. cbn [app star_l]. rewrite (IH Hs').
    change (a :: s ++ [nl]) with ((a :: s) ++ [nl]). rewrite (H1 (a :: s) Hs). reflexivity.
Qed.

Lemma lit_nl : forall l (k k' : str -> option caps),
  (forall s, nonl s -> k' (s ++ [nl]) = k s) -> k' [] = None ->
  forall s, nonl s ->
  match prefix_lit l (s ++ [nl]) with Some s' => k' s' | None => None end =
  match prefix_lit l s with Some s' => k s' | None => None end.
Proof.
  intros l k k' H1 H2. induction l as [|c l IH]; intros s Hs.
  - cbn [prefix_lit]. apply H1. exact Hs.
  - destruct s as [|d s]; cbn [app prefix_lit].
    + destruct (Ascii.eqb c nl); [|reflexivity]. destruct l; cbn [prefix_lit]; [exact H2|reflexivity].
    + inversion Hs as [|? ? Hd Hs']; subst. destruct (Ascii.eqb c d); [apply IH; exact Hs'|reflexivity].
Qed.

Lemma firstn_nl : forall (s s0 : str),
  firstn (List.length (s ++ [nl]) - List.length (s0 ++ [nl])) (s ++ [nl]) = firstn (List.length s - List.length s0) s.
Proof.
  intros s s0. rewrite !app_length. cbn [List.length].
  replace (List.length s + 1 - (List.length s0 + 1)) with (List.length s - List.length s0) by lia.
  rewrite firstn_app. replace (List.length s - List.length s0 - List.length s) with 0 by lia.
  cbn [firstn]. apply app_nil_r.
Qed.

Theorem m_nl : forall r w k k', nlsim k k' ->
  forall s cs, nonl s -> m (w ++ [nl]) r (s ++ [nl]) cs k' = m w r s cs k.
Proof.
  induction r as [l|c|g c|g c|g c|a IHa b IHb|a IHa b IHb|n r IH| | |]; intros w k k' [H1 H2] s cs Hs.
  - cbn [m]. apply (lit_nl l (fun s' => k s' cs) (fun s' => k' s' cs)); [intros; apply H1; assumption|apply H2|exact Hs].
  - destruct s as [|d s]; cbn [app m].
    + destruct (cmatch c nl); [apply H2|reflexivity].
    + inversion Hs as [|? ? Hd Hs']; subst. destruct (cmatch c d); [apply H1; exact Hs'|reflexivity].
  - cbn [m]. destruct g.
    + apply (star_g_nl _ (fun s' => k s' cs) (fun s' => k' s' cs)); [intros; apply H1; assumption|apply H2|exact Hs].
    + apply (star_l_nl _ (fun s' => k s' cs) (fun s' => k' s' cs)); [intros; apply H1; assumption|apply H2|exact Hs].
  - destruct s as [|d s]; cbn [app m].
    + destruct (cmatch c nl); [|reflexivity]. destruct g; cbn [star_g star_l]; rewrite H2; reflexivity.
    + inversion Hs as [|? ? Hd Hs']; subst. destruct (cmatch c d); [|reflexivity]. destruct g.
      * apply (star_g_nl _ (fun s' => k s' cs) (fun s' => k' s' cs)); [intros; apply H1; assumption|apply H2|exact Hs'].
      * apply (star_l_nl _ (fun s' => k s' cs) (fun s' => k' s' cs)); [intros; apply H1; assumption|apply H2|exact Hs'].
  - destruct s as [|d s]; cbn [app m].
    + rewrite H2. change [nl] with ([] ++ [nl]). rewrite (H1 [] cs Hs).
      destruct (cmatch c nl); [|reflexivity]. destruct g; destruct (k [] cs); reflexivity.
    + inversion Hs as [|? ? Hd Hs']; subst.
      change (d :: s ++ [nl]) with ((d :: s) ++ [nl]). rewrite (H1 (d :: s) cs Hs), (H1 s cs Hs'). reflexivity.
  - cbn [m]. apply IHa; [|exact Hs]. split.
    + intros s' cs' Hs'. apply IHb; [split; assumption|exact Hs'].
    + intros cs'. apply m_nil_none. exact H2.
  - cbn [m]. rewrite (IHa w k k' (conj H1 H2) s cs Hs), (IHb w k k' (conj H1 H2) s cs Hs). reflexivity.
  - cbn [m]. apply IH; [|exact Hs]. split.
    + intros s0 cs0 Hs0. rewrite firstn_nl. apply H1. exact Hs0.
    + intros cs0. apply H2.
  - cbn [m]. rewrite !app_length. cbn [List.length].
    replace (Nat.eqb (List.length s + 1) (List.length w + 1)) with (Nat.eqb (List.length s) (List.length w)).
    + destruct (Nat.eqb _ _); [apply H1; exact Hs|reflexivity].
    + destruct (Nat.eqb_spec (List.length s) (List.length w)) as [E|E];
        destruct (Nat.eqb_spec (List.length s + 1) (List.length w + 1)) as [E'|E']; try reflexivity; lia.
  - cbn [m]. destruct s as [|c [|d s]]; cbn [app eol].
    + rewrite Ascii.eqb_refl. change [nl] with ([] ++ [nl]). apply H1. exact Hs.
    + inversion Hs as [|? ? Hc _]; subst. rewrite Hc. reflexivity.
    + reflexivity.
  - cbn [m]. apply H1. exact Hs.
Qed.
Print Assumptions m_nl.

(* the regex of replace_do_while_0: its last two factors never let the match end after the newline *)
Definition dw_front : re :=
  RCat (RGrp 1 (RStar true CAny)) (RCat (RLit (s2l "do")) (RCat (RStar true CSpace) (RCat (RLit (s2l "{"))
  (RCat (RGrp 2 (RStar true CAny)) (RCat (RLit (s2l "}")) (RCat (RStar true CSpace) (RCat (RLit (s2l "while"))
  (RStar true CSpace)))))))).
Definition dw_tail : re := RCat (RLit (s2l "(0)")) (RGrp 3 (RStar true CAny)).

Lemma dw_split : forall w s cs k,
  m w re_replace_do_while_0_0 s cs k = m w dw_front s cs (fun s' cs' => m w dw_tail s' cs' k).
Proof. reflexivity. Qed.

Definition k_end (v : str) : str -> caps -> option caps :=
  fun s' cs => Some ((0%nat, firstn (List.length v - List.length s') v) :: cs).

Lemma m_lit_unfold : forall w l s cs k,
  m w (RLit l) s cs k = match prefix_lit l s with Some s' => k s' cs | None => None end.
Proof. reflexivity. Qed.

(* a literal without newline never reaches the position after the newline *)
Lemma lit_nl_nonl : forall l (k k' : str -> option caps), nonl l ->
  (forall s, nonl s -> k' (s ++ [nl]) = k s) ->
  forall s, nonl s ->
  match prefix_lit l (s ++ [nl]) with Some s' => k' s' | None => None end =
  match prefix_lit l s with Some s' => k s' | None => None end.
Proof.
  intros l k k' Hl H1. induction l as [|c l IH]; intros s Hs.
  - cbn [prefix_lit]. apply H1. exact Hs.
  - inversion Hl as [|? ? Hc Hl']; subst. destruct s as [|d s]; cbn [app prefix_lit].
    + rewrite Hc. reflexivity.
    + inversion Hs as [|? ? Hd Hs']; subst. destruct (Ascii.eqb c d); [apply (IH Hl'); exact Hs'|reflexivity].
Qed.

Lemma star_g_all_nil : forall p xs (k : str -> option caps) r, ptrue p xs -> k [] = Some r -> star_g p xs k = Some r.
Proof. intros p xs k r Hx Hk. rewrite <- (app_nil_r xs). apply star_g_all; [exact Hx|exact I|exact Hk]. Qed.

Lemma g3_nl : forall w w' v s cs, nonl s ->
  m w' (RGrp 3 (RStar true CAny)) (s ++ [nl]) cs (k_end (v ++ [nl])) =
  m w (RGrp 3 (RStar true CAny)) s cs (k_end v).
Proof.
  intros w w' v s cs Hs.
  assert (L : m w' (RGrp 3 (RStar true CAny)) (s ++ [nl]) cs (k_end (v ++ [nl])) = Some ((0%nat, v) :: (3%nat, s) :: cs)).
  { rewrite m_grp, m_star_g. apply star_g_all; [apply nonl_ptrue; exact Hs|reflexivity|].
    cbv beta. unfold k_end. rewrite !firstn_len_app. reflexivity. }
  assert (R : m w (RGrp 3 (RStar true CAny)) s cs (k_end v) = Some ((0%nat, v) :: (3%nat, s) :: cs)).
  { rewrite m_grp, m_star_g. apply star_g_all_nil; [apply nonl_ptrue; exact Hs|].
    cbv beta. unfold k_end. cbn [List.length]. rewrite !Nat.sub_0_r, !firstn_all. reflexivity. }
  rewrite L, R. reflexivity.
Qed.

Lemma dw_tail_nlsim : forall w v,
  nlsim (fun s cs => m w dw_tail s cs (k_end v)) (fun s cs => m (w ++ [nl]) dw_tail s cs (k_end (v ++ [nl]))).
Proof.
  intros w v. split.
  - intros s cs Hs. unfold dw_tail. rewrite !m_cat, !m_lit_unfold.
    apply (lit_nl_nonl (s2l "(0)")
             (fun s' => m w (RGrp 3 (RStar true CAny)) s' cs (k_end v))
             (fun s' => m (w ++ [nl]) (RGrp 3 (RStar true CAny)) s' cs (k_end (v ++ [nl])))).
    + apply nonl_lit. reflexivity.
    + intros s0 Hs0. apply g3_nl. exact Hs0.
    + exact Hs.
  - intros cs. reflexivity.
Qed.

Lemma m_dw_nl : forall w v, nonl v ->
  m (w ++ [nl]) re_replace_do_while_0_0 (v ++ [nl]) [] (k_end (v ++ [nl])) =
  m w re_replace_do_while_0_0 v [] (k_end v).
Proof.
  intros w v Hv. rewrite !dw_split. apply m_nl; [apply dw_tail_nlsim|exact Hv].
Qed.

Lemma m_dw_nil : forall w k, m w re_replace_do_while_0_0 [] [] k = None.
Proof.
  intros w k. destruct (m w re_replace_do_while_0_0 [] [] k) as [x|] eqn:E; [|reflexivity].
  apply m_dw_inv in E. destruct E as (a & s1 & b & s2 & s3 & c & rest & E & _).
  apply (f_equal (@List.length _)) in E. rewrite app_length, wrapped_length in E. cbn [List.length] in E. lia.
Qed.

Lemma search_from_unfold : forall w r s n,
  search_from w r s n =
  match m w r s [] (k_end s) with
  | Some cs => Some (n, cs)
  | None => match s with [] => None | _ :: s' => search_from w r s' (S n) end
  end.
Proof. intros w r s n. destruct s; reflexivity. Qed.

Lemma search_from_dw_nl : forall w s n, nonl s ->
  search_from (w ++ [nl]) re_replace_do_while_0_0 (s ++ [nl]) n = search_from w re_replace_do_while_0_0 s n.
Proof.
  intros w s. induction s as [|a s IH]; intros n Hs.
  - rewrite (search_from_unfold _ _ ([] ++ [nl])), (search_from_unfold _ _ []).
    rewrite (m_dw_nl w [] Hs). destruct (m w re_replace_do_while_0_0 [] [] (k_end [])); [reflexivity|].
    cbn [app]. rewrite search_from_unfold, m_dw_nil. reflexivity.
  - rewrite (search_from_unfold _ _ ((a :: s) ++ [nl])), (search_from_unfold _ _ (a :: s)).
    rewrite (m_dw_nl w (a :: s) Hs). destruct (m w re_replace_do_while_0_0 (a :: s) [] (k_end (a :: s))); [reflexivity|].
    inversion Hs as [|? ? Ha Hs']; subst. cbn [app]. apply IH. exact Hs'.
Qed.

(* (2), the general lemma: ONE STEP does not see the line terminator *)
Theorem do_while_step_nl : forall code, nonl code -> do_while_step (code ++ [nl]) = do_while_step code.
Proof.
  intros code H. unfold do_while_step, rsearch. rewrite (search_from_dw_nl code code 0 H). reflexivity.
Qed.
Print Assumptions do_while_step_nl.

(* what a step returns never contains a newline (whatever the input) *)
Lemma do_while_step_nonl : forall code t, do_while_step code = Some t -> nonl t.
Proof.
  intros code t H. apply do_while_step_inv in H.
  destruct H as (u & a & s1 & b & s2 & s3 & c & rest & _ & -> & Ha & _ & Hb & _ & _ & Hc).
  repeat apply nonl_app; assumption.
Qed.

Lemma do_while_loop_nonl : forall fuel t r, nonl t -> do_while_loop fuel t = Some r -> nonl r.
Proof.
  induction fuel as [|k IH]; intros t r Ht H; cbn [do_while_loop] in H; [discriminate|].
  destruct (do_while_step t) as [t'|] eqn:E.
  - apply (IH t' r); [eapply do_while_step_nonl; exact E|exact H].
  - injection H as <-. exact Ht.
Qed.

Lemma do_while_loop_mono : forall fuel t r, do_while_loop fuel t = Some r -> do_while_loop (S fuel) t = Some r.
Proof.
  induction fuel as [|k IH]; intros t r H; [discriminate|].
  cbn [do_while_loop] in H. change (do_while_loop (S (S k)) t)
    with (match do_while_step t with Some t' => do_while_loop (S k) t' | None => Some t end).
  destruct (do_while_step t) as [t'|]; [apply IH; exact H|exact H].
Qed.

(* the exact relation between the call on a terminated line and the call on the bare line *)
Theorem replace_do_while_0_nl : forall code, nonl code ->
  replace_do_while_0 (code ++ [nl]) =
  match do_while_step code with
  | None => Some (code ++ [nl])
  | Some _ => replace_do_while_0 code
  end.
Proof.
  intros code H. unfold replace_do_while_0. rewrite (do_while_step_nl code H).
  destruct (do_while_step code) as [t|] eqn:E; [|reflexivity].
  rewrite app_length. cbn [List.length]. replace (List.length code + 1) with (S (List.length code)) by lia.
  destruct (do_while_loop_total (List.length code) t) as (r & Hr & _).
  { pose proof (do_while_step_shrinks _ _ E). lia. }
  rewrite (do_while_loop_mono _ _ _ Hr), Hr. reflexivity.
Qed.
Print Assumptions replace_do_while_0_nl.

(* (1) *)
Theorem replace_do_while_0_line_id : forall code,
  nonl code -> do_while_step code = None -> replace_do_while_0 (code ++ [nl]) = Some (code ++ [nl]).
Proof. intros code H E. rewrite (replace_do_while_0_nl code H), E. reflexivity. Qed.
Print Assumptions replace_do_while_0_line_id.

(* (2) *)
Theorem replace_do_while_0_line : forall code r,
  nonl code -> replace_do_while_0 code = Some (r ++ [nl]) -> do_while_step code <> None ->
  replace_do_while_0 (code ++ [nl]) = Some (r ++ [nl]).
Proof.
  intros code r H Hr Hs. rewrite (replace_do_while_0_nl code H).
  destruct (do_while_step code); [exact Hr|congruence].
Qed.
Print Assumptions replace_do_while_0_line.

(* (2) as an equation between the two calls.  The premise `do_while_step code <> None` is
   needed: when no step fires the bare line comes back WITHOUT a newline and the terminated
   line WITH its newline (replace_do_while_0_nl). *)
Corollary replace_do_while_0_line_eq : forall code,
  nonl code -> do_while_step code <> None -> replace_do_while_0 (code ++ [nl]) = replace_do_while_0 code.
Proof.
  intros code H Hs. rewrite (replace_do_while_0_nl code H). destruct (do_while_step code); [reflexivity|congruence].
Qed.

(* (3) the result of a call-site line is again ONE terminated line, with no wrapper left *)
Theorem replace_do_while_0_line_shape : forall code, nonl code ->
  exists r, replace_do_while_0 (code ++ [nl]) = Some (r ++ [nl]) /\ nonl r /\ do_while_step r = None /\
            List.length r <= List.length code.
Proof.
  intros code H. rewrite (replace_do_while_0_nl code H).
  destruct (replace_do_while_0_total code) as [[E1 E2]|(t & r & E1 & E2 & E3 & E4)]; rewrite E1.
  - exists code. repeat split; [exact H|exact E1|lia].
  - exists r. rewrite E2. repeat split; [|exact E3|lia].
    unfold replace_do_while_0 in E2. rewrite E1 in E2.
    destruct (do_while_loop (List.length code) t) as [r'|] eqn:El; [|discriminate].
    injection E2 as E2. apply app_inv_tail in E2. subst r'.
    eapply do_while_loop_nonl; [eapply do_while_step_nonl; exact E1|exact El].
Qed.
Print Assumptions replace_do_while_0_line_shape.

Lemma wrapped_nonl : forall s1 b s2 s3 post,
  blanks s1 -> nonl b -> blanks s2 -> blanks s3 -> nonl post -> nonl (wrapped s1 b s2 s3 post).
Proof.
  intros s1 b s2 s3 post [_ H1] Hb [_ H2] [_ H3] Hp. unfold wrapped.
  repeat apply nonl_app; try assumption; apply nonl_lit; reflexivity.
Qed.

(* the call-site forms of the positive theorems *)
Theorem replace_do_while_0_wrapper_line : forall pre s1 b s2 s3 post,
  nonl pre -> blanks s1 -> nonl b -> blanks s2 -> blanks s3 -> nonl post ->
  any_suffix dw_start (tl (wrapped s1 b s2 s3 post)) = false ->
  any_suffix dw_end (s2 ++ s2l "while" ++ s3 ++ s2l "(0)" ++ post) = false ->
  do_while_step (pre ++ b ++ post) = None ->
  replace_do_while_0 ((pre ++ wrapped s1 b s2 s3 post) ++ [nl]) = Some (pre ++ b ++ post ++ [nl]).
Proof.
  intros pre s1 b s2 s3 post Hpre H1 Hb H2 H3 Hpost Hstart Hend Hnone.
  rewrite replace_do_while_0_line_eq.
  - apply replace_do_while_0_wrapper; assumption.
  - apply nonl_app; [exact Hpre|apply wrapped_nonl; assumption].
  - rewrite do_while_step_wrapper by assumption. discriminate.
Qed.
Print Assumptions replace_do_while_0_wrapper_line.

Theorem replace_do_while_0_one_line : forall pre s1 b s2 s3 post,
  nonl pre -> blanks s1 -> nonl b -> blanks s2 -> blanks s3 -> nonl post ->
  contains (s2l "do") b = false -> contains (s2l "do") post = false ->
  existsb (Ascii.eqb "}") post = false ->
  do_while_step (pre ++ b ++ post) = None ->
  replace_do_while_0 ((pre ++ wrapped s1 b s2 s3 post) ++ [nl]) = Some (pre ++ b ++ post ++ [nl]).
Proof.
  intros pre s1 b s2 s3 post Hpre H1 Hb H2 H3 Hpost Hdb Hdp Hcl Hnone.
  apply replace_do_while_0_wrapper_line; try assumption.
  - apply dw_start_nodo; try assumption; [apply H1|apply H2|apply H3].
  - apply dw_end_noclose; try assumption; [apply H2|apply H3].
Qed.
Print Assumptions replace_do_while_0_one_line.

Theorem replace_do_while_0_simple_line : forall b,
  nonl b -> contains (s2l "do") b = false ->
  replace_do_while_0 (s2l "do {" ++ b ++ s2l "} while (0)" ++ [nl]) = Some (b ++ [nl]).
Proof.
  intros b Hb Hd.
  replace (s2l "do {" ++ b ++ s2l "} while (0)" ++ [nl]) with ((s2l "do {" ++ b ++ s2l "} while (0)") ++ [nl])
    by (rewrite <- !app_assoc; reflexivity).
  rewrite replace_do_while_0_line_eq.
  - apply replace_do_while_0_simple; assumption.
  - repeat apply nonl_app; try assumption; apply nonl_lit; reflexivity.
  - intros E. apply replace_do_while_0_id_iff in E. rewrite (replace_do_while_0_simple b Hb Hd) in E.
    injection E as E. apply (f_equal (@List.length _)) in E. cbn in E. rewrite !app_length in E. cbn in E. lia.
Qed.
Print Assumptions replace_do_while_0_simple_line.

(* instances *)
Example dw_line_simple :
  replace_do_while_0 (s2l "do { x = 1; } while (0)" ++ [nl]) = Some (s2l " x = 1; " ++ [nl]).
Proof. apply (replace_do_while_0_simple_line (s2l " x = 1; ")); [apply nonl_lit|]; reflexivity. Qed.
Example dw_line_identity : replace_do_while_0 (s2l "x = 1;" ++ [nl]) = Some (s2l "x = 1;" ++ [nl]).
Proof.
  apply replace_do_while_0_line_id; [apply nonl_lit; reflexivity|]. apply do_while_step_nodo. reflexivity.
Qed.
